//! Conformance gate: before the reference (model.rs) is trusted it must
//!  (a) encode the transcribed models of the `font-test-data::ift` fixtures to exactly the fixture bytes
//!      (validates the harness encoders), and
//!  (b) reproduce the expectations of the repository's own `patchmap.rs` tests on those fixtures
//!      (validates the reference semantics).
//! A failure here is a machinery error (exit 2), never a verdict. The real implementation is also
//! run on the same cases; a disagreement between it and the (gated) expectation is a violation.

use crate::model::*;
use crate::*;
use font_test_data::ift as fx_data;
use read_fonts::TableProvider;

const ORIG_TEMPLATE: [u8; 8] = [b'A', b'B', b'C', b'D', b'E', b'F', 0xc9, 0xa4];
const TEMPLATE: &[u8; 8] = b"abc/{id}";

fn subst_template(bytes: &[u8]) -> Vec<u8> {
    let mut v = bytes.to_vec();
    let pos = v
        .windows(8)
        .position(|w| w == ORIG_TEMPLATE)
        .expect("fixture template");
    v[pos..pos + 8].copy_from_slice(TEMPLATE);
    v
}

fn range_cps(bias_kind: u8, bias: u32) -> Cps {
    Cps::Set {
        bias_kind,
        bias,
        members: (0..=17).map(|x| x + bias).collect(),
    }
}

fn t1_simple() -> T1 {
    T1 {
        compat: [1, 2, 3, 4],
        max_entry_index: 2,
        max_glyph_map_entry_index: 2,
        glyph_count: 7,
        first_mapped_glyph: 1,
        entry_index: vec![2, 1, 0, 1, 0, 0],
        feature_map: None,
        applied: vec![0b10],
        template: TEMPLATE.to_vec(),
        patch_format: 3,
        cff_off: None,
        cff2_off: None,
    }
}

fn t1_u16() -> T1 {
    T1 {
        compat: [1, 2, 3, 4],
        max_entry_index: 300,
        max_glyph_map_entry_index: 300,
        glyph_count: 7,
        first_mapped_glyph: 2,
        entry_index: vec![80, 81, 300, 300, 80],
        feature_map: None,
        applied: vec![0; 38],
        template: TEMPLATE.to_vec(),
        patch_format: 3,
        cff_off: None,
        cff2_off: None,
    }
}

fn t1_feature_map() -> T1 {
    let mut applied = vec![0u8; 51];
    applied[37] = 0b0000_1000; // entry 299
    T1 {
        compat: [1, 2, 3, 4],
        max_entry_index: 400,
        max_glyph_map_entry_index: 300,
        glyph_count: 7,
        first_mapped_glyph: 2,
        entry_index: vec![80, 81, 300, 299, 80],
        feature_map: Some(vec![
            FRec {
                tag: *b"dlig",
                first_new: 400,
                maps: vec![(81, 81)],
            },
            FRec {
                tag: *b"liga",
                first_new: 384,
                maps: vec![(80, 81), (299, 300)],
            },
            FRec {
                tag: *b"null",
                first_new: 301,
                maps: vec![(0, 0)],
            },
        ]),
        applied,
        template: TEMPLATE.to_vec(),
        patch_format: 3,
        cff_off: None,
        cff2_off: None,
    }
}

fn t2_base(entries: Vec<E2>) -> T2 {
    T2 {
        compat: [1, 2, 3, 4],
        default_format: 3,
        template: TEMPLATE.to_vec(),
        entries,
        string_data: None,
        cff_off: None,
        cff2_off: None,
    }
}

fn t2_codepoints_only() -> T2 {
    let mut e0 = E2::plain();
    e0.cps = range_cps(0, 0);
    let mut e1 = E2::plain();
    e1.cps = range_cps(1, 5);
    e1.ignored = true;
    let mut e2 = E2::plain();
    e2.cps = range_cps(1, 5);
    let mut e3 = E2::plain();
    e3.cps = range_cps(2, 80_000);
    t2_base(vec![e0, e1, e2, e3])
}

fn t2_features_and_design_space() -> T2 {
    let mut e0 = E2::plain();
    e0.fds = true;
    e0.features = vec![*b"liga", *b"smcp"];
    e0.segs = vec![Seg {
        tag: *b"wdth",
        start: 0x8000,
        end: 0x10000,
    }];
    e0.cps = range_cps(0, 0);
    let mut e1 = E2::plain();
    e1.fds = true;
    e1.features = vec![*b"rlig"];
    e1.cps = range_cps(0, 0);
    let mut e2 = E2::plain();
    e2.fds = true;
    e2.features = vec![*b"smcp"];
    e2.segs = vec![
        Seg {
            tag: *b"wght",
            start: 0x00C8_0000,
            end: 0x02BC_0000,
        },
        Seg {
            tag: *b"wdth",
            start: 0,
            end: 0x8000,
        },
        Seg {
            tag: *b"wdth",
            start: 0x2_0000,
            end: 0x2_8000,
        },
    ];
    e2.cps = range_cps(1, 5);
    t2_base(vec![e0, e1, e2])
}

fn t2_child_indices() -> T2 {
    let mut e0 = E2::plain();
    e0.cps = range_cps(1, 5);
    e0.ignored = true;
    let mut e1 = E2::plain();
    e1.cps = range_cps(1, 50);
    let mut e2 = E2::plain();
    e2.fds = true;
    e2.features = vec![*b"rlig"];
    e2.segs = vec![Seg {
        tag: *b"wght",
        start: 0x00C8_0000,
        end: 0x02BC_0000,
    }];
    let mut e3 = E2::plain();
    e3.fds = true;
    e3.features = vec![*b"liga"];
    e3.segs = vec![Seg {
        tag: *b"wght",
        start: 0x0032_0000,
        end: 0x0064_0000,
    }];
    let ch = |v: &[u32]| {
        let mut e = E2::plain();
        e.children = Some((false, v.to_vec()));
        e
    };
    let e4 = ch(&[0]);
    let e5 = ch(&[2]);
    let e6 = ch(&[3, 2, 1, 0]);
    let e7 = ch(&[4, 5]);
    let mut e8 = ch(&[0]);
    e8.cps = range_cps(1, 100);
    t2_base(vec![e0, e1, e2, e3, e4, e5, e6, e7, e8])
}

fn t2_custom_ids() -> T2 {
    let mut e0 = E2::plain();
    e0.cps = range_cps(0, 0);
    e0.id = IdSpec::Delta(-1);
    let mut e1 = E2::plain();
    e1.cps = range_cps(1, 5);
    e1.id = IdSpec::Delta(5);
    let mut e2 = E2::plain();
    e2.ignored = true;
    e2.id = IdSpec::Delta(7);
    let mut e3 = E2::plain();
    e3.cps = range_cps(1, 10);
    e3.patch_format = Some(3);
    t2_base(vec![e0, e1, e2, e3])
}

fn t2_string_ids() -> T2 {
    let ids = [
        IdSpec::Default,
        IdSpec::StrLen(3),
        IdSpec::StrLen(4),
        IdSpec::Default,
        IdSpec::StrLen(3),
        IdSpec::StrLen(0),
    ];
    let entries = ids
        .iter()
        .map(|i| {
            let mut e = E2::plain();
            e.id = i.clone();
            e
        })
        .collect();
    let mut t = t2_base(entries);
    t.string_data = Some(b"abcdefghij".to_vec());
    t
}

fn set(v: &[u32]) -> DCps {
    DCps::Set(v.to_vec())
}
fn all_cps() -> DCps {
    DCps::AllExcept(vec![])
}
fn feats(v: &[&[u8; 4]]) -> DFeat {
    DFeat::Set(v.iter().map(|t| **t).collect())
}
fn no_ds() -> DDs {
    DDs::Ranges(vec![])
}
fn f64fx(v: f64) -> i32 {
    read_fonts::types::Fixed::from_f64(v).to_bits()
}
fn wdth(segs: &[(f64, f64)]) -> DDs {
    DDs::Ranges(vec![(
        *b"wdth",
        segs.iter().map(|(a, b)| (f64fx(*a), f64fx(*b))).collect(),
    )])
}
fn wght(segs: &[(i32, i32)]) -> DDs {
    DDs::Ranges(vec![(
        *b"wght",
        segs.iter().map(|(a, b)| (a << 16, b << 16)).collect(),
    )])
}

struct GateCase {
    name: &'static str,
    table: TableModel,
    def: Def,
    /// expected entry ids in order
    expect: Vec<Id>,
    /// expected (cps, feats, ds, order) per returned patch, for the invalidating-format tests
    infos: Option<Vec<Info>>,
    /// expected formats (None: all = default 3, or 1 when infos are given)
    formats: Option<Vec<u8>>,
}

fn n(ids: &[u32]) -> Vec<Id> {
    ids.iter().map(|i| Id::Num(*i)).collect()
}

fn cases() -> Vec<GateCase> {
    let mut v: Vec<GateCase> = vec![];
    let mut add = |name: &'static str, table: &TableModel, cps: DCps, f: DFeat, ds: DDs, expect: Vec<Id>| {
        v.push(GateCase {
            name,
            table: table.clone(),
            def: Def { cps, feats: f, ds },
            expect,
            infos: None,
            formats: None,
        });
    };
    // --- format_1_patch_map_u8_entries
    let t = TableModel::F1(t1_simple());
    add("format_1_patch_map_u8_entries", &t, set(&[]), feats(&[]), no_ds(), n(&[]));
    add("format_1_patch_map_u8_entries", &t, set(&[0x123]), feats(&[]), no_ds(), n(&[]));
    add("format_1_patch_map_u8_entries", &t, set(&[0x13]), feats(&[]), no_ds(), n(&[]));
    add("format_1_patch_map_u8_entries", &t, set(&[0x12]), feats(&[]), no_ds(), n(&[]));
    add("format_1_patch_map_u8_entries", &t, set(&[0x11]), feats(&[]), no_ds(), n(&[2]));
    add("format_1_patch_map_u8_entries", &t, set(&[0x11, 0x12, 0x123]), feats(&[]), no_ds(), n(&[2]));
    add("format_1_patch_map_u8_entries", &t, all_cps(), feats(&[]), no_ds(), n(&[2]));
    // --- format_1_patch_map_bad_entry_index
    let mut bad = t1_simple();
    bad.entry_index[0] = 3;
    let t = TableModel::F1(bad);
    add("format_1_patch_map_bad_entry_index", &t, set(&[0x11]), feats(&[]), no_ds(), n(&[]));
    // --- format_1_patch_map_u16_entries
    let t = TableModel::F1(t1_u16());
    add("format_1_patch_map_u16_entries", &t, set(&[]), feats(&[]), no_ds(), n(&[]));
    add("format_1_patch_map_u16_entries", &t, set(&[0x11]), feats(&[]), no_ds(), n(&[]));
    add("format_1_patch_map_u16_entries", &t, set(&[0x12]), feats(&[]), no_ds(), n(&[0x50]));
    add("format_1_patch_map_u16_entries", &t, set(&[0x13, 0x15]), feats(&[]), no_ds(), n(&[0x51, 0x12c]));
    add("format_1_patch_map_u16_entries", &t, all_cps(), feats(&[]), no_ds(), n(&[0x50, 0x51, 0x12c]));
    // --- format_1_patch_map_u16_entries_with_feature_mapping
    let t = TableModel::F1(t1_feature_map());
    let nm = "format_1_patch_map_u16_entries_with_feature_mapping";
    add(nm, &t, set(&[]), feats(&[]), no_ds(), n(&[]));
    add(nm, &t, set(&[]), feats(&[b"liga", b"dlig", b"null"]), no_ds(), n(&[]));
    add(nm, &t, set(&[0x12]), feats(&[]), no_ds(), n(&[0x50]));
    add(nm, &t, set(&[0x12]), feats(&[b"liga"]), no_ds(), n(&[0x50, 0x180]));
    add(nm, &t, set(&[0x13, 0x14]), feats(&[b"liga"]), no_ds(), n(&[0x51, 0x12c, 0x180, 0x181]));
    add(nm, &t, set(&[0x13, 0x14]), feats(&[b"dlig"]), no_ds(), n(&[0x51, 0x12c, 0x190]));
    add(
        nm,
        &t,
        set(&[0x13, 0x14]),
        feats(&[b"dlig", b"liga"]),
        no_ds(),
        n(&[0x51, 0x12c, 0x180, 0x181, 0x190]),
    );
    add(nm, &t, set(&[0x11]), feats(&[b"null"]), no_ds(), n(&[0x12D]));
    add(nm, &t, set(&[0x15]), feats(&[b"liga"]), no_ds(), n(&[0x181]));
    add(nm, &t, all_cps(), feats(&[]), no_ds(), n(&[0x50, 0x51, 0x12c]));
    add(nm, &t, all_cps(), feats(&[b"liga"]), no_ds(), n(&[0x50, 0x51, 0x12c, 0x180, 0x181]));
    add(nm, &t, all_cps(), feats(&[b"dlig"]), no_ds(), n(&[0x50, 0x51, 0x12c, 0x190]));
    // --- format_1_patch_map_all_features
    let nm = "format_1_patch_map_all_features";
    add(nm, &t, set(&[0x13]), feats(&[b"dlig", b"liga"]), no_ds(), n(&[0x51, 0x180, 0x190]));
    add(nm, &t, set(&[0x13]), DFeat::All, no_ds(), n(&[0x51, 0x180, 0x190]));
    // --- out of order / duplicate feature records
    let mut ooo = t1_feature_map();
    {
        let fm = ooo.feature_map.as_mut().unwrap();
        fm[0].tag = *b"liga";
        fm[1].tag = *b"dlig";
    }
    let t = TableModel::F1(ooo);
    let nm = "format_1_patch_map_all_features_skips_unsorted";
    add(nm, &t, set(&[0x13, 0x14]), feats(&[b"dlig", b"liga", b"null"]), no_ds(), n(&[0x51, 0x12c, 0x190]));
    add(nm, &t, set(&[0x13, 0x14]), DFeat::All, no_ds(), n(&[0x51, 0x12c, 0x190]));
    let nm = "format_1_patch_map_u16_entries_with_out_of_order_feature_mapping";
    add(nm, &t, set(&[0x13, 0x14]), feats(&[b"liga"]), no_ds(), n(&[0x51, 0x12c, 0x190]));
    add(nm, &t, set(&[0x13, 0x14]), feats(&[b"dlig"]), no_ds(), n(&[0x51, 0x12c]));
    add(nm, &t, set(&[0x11]), feats(&[b"null"]), no_ds(), n(&[0x12D]));
    let mut dup = t1_feature_map();
    {
        let fm = dup.feature_map.as_mut().unwrap();
        fm[0].tag = *b"liga";
        fm[1].tag = *b"liga";
    }
    let t = TableModel::F1(dup);
    let nm = "format_1_patch_map_u16_entries_with_duplicate_feature_mapping";
    add(nm, &t, set(&[0x13, 0x14]), feats(&[b"liga"]), no_ds(), n(&[0x51, 0x12c, 0x190]));
    add(nm, &t, set(&[0x11]), feats(&[b"null"]), no_ds(), n(&[0x12D]));

    // --- format_2_patch_map_codepoints_only
    let t = TableModel::F2(t2_codepoints_only());
    let nm = "format_2_patch_map_codepoints_only";
    add(nm, &t, set(&[]), feats(&[]), no_ds(), n(&[]));
    add(nm, &t, set(&[0x02]), feats(&[]), no_ds(), n(&[1]));
    add(nm, &t, set(&[0x15]), feats(&[]), no_ds(), n(&[3]));
    add(nm, &t, set(&[0x07]), feats(&[]), no_ds(), n(&[1, 3]));
    add(nm, &t, set(&[80_007]), feats(&[]), no_ds(), n(&[4]));
    add(nm, &t, all_cps(), feats(&[]), no_ds(), n(&[1, 3, 4]));
    // --- format_2_patch_map_features_and_design_space
    let t = TableModel::F2(t2_features_and_design_space());
    let nm = "format_2_patch_map_features_and_design_space";
    add(nm, &t, set(&[]), feats(&[]), no_ds(), n(&[]));
    add(nm, &t, set(&[0x02]), feats(&[]), no_ds(), n(&[]));
    add(nm, &t, set(&[0x50]), feats(&[b"rlig"]), no_ds(), n(&[]));
    add(nm, &t, set(&[0x02]), feats(&[b"rlig"]), no_ds(), n(&[2]));
    add(nm, &t, set(&[0x02]), feats(&[b"rlig"]), wdth(&[(0.7, 0.8)]), n(&[2]));
    add(nm, &t, set(&[0x05]), feats(&[b"smcp"]), wdth(&[(0.7, 0.8)]), n(&[1]));
    add(nm, &t, set(&[0x05]), feats(&[b"smcp"]), wdth(&[(0.2, 0.3)]), n(&[3]));
    add(nm, &t, set(&[0x55]), feats(&[b"smcp"]), wdth(&[(0.2, 0.3)]), n(&[]));
    add(nm, &t, set(&[0x05]), feats(&[b"smcp"]), wdth(&[(1.2, 1.3)]), n(&[]));
    add(nm, &t, set(&[0x05]), feats(&[b"smcp"]), wdth(&[(0.2, 0.3), (0.7, 0.8)]), n(&[1, 3]));
    add(nm, &t, set(&[0x05]), feats(&[b"smcp"]), wdth(&[(2.2, 2.3)]), n(&[3]));
    add(nm, &t, set(&[0x05]), feats(&[b"smcp"]), wdth(&[(2.2, 2.3), (1.2, 1.3)]), n(&[3]));
    // --- format_2_patch_map_all_features / all_design_space
    add("format_2_patch_map_all_features", &t, set(&[0x06]), DFeat::All, wdth(&[(0.7, 2.2)]), n(&[1, 2, 3]));
    add("format_2_patch_map_all_design_space", &t, set(&[0x05]), feats(&[b"smcp"]), DDs::All, n(&[1, 3]));
    add("format_2_patch_map_all_design_space", &t, set(&[0x05]), DFeat::All, DDs::All, n(&[1, 2, 3]));
    // --- child indices
    let t = TableModel::F2(t2_child_indices());
    let nm = "format_2_patch_map_disjunctive_child_indices";
    add(nm, &t, set(&[]), feats(&[]), no_ds(), n(&[]));
    add(nm, &t, set(&[0x05]), feats(&[]), no_ds(), n(&[5, 7, 8]));
    add(nm, &t, set(&[0x65]), feats(&[]), no_ds(), n(&[]));
    add(nm, &t, set(&[0x05, 0x65]), feats(&[]), no_ds(), n(&[5, 7, 8, 9]));
    add(nm, &t, set(&[]), feats(&[b"rlig"]), wght(&[(500, 500)]), n(&[3, 6, 7, 8]));
    add(nm, &t, set(&[0x05]), feats(&[b"rlig"]), wght(&[(500, 500)]), n(&[3, 5, 6, 7, 8]));
    let mut conj = t2_child_indices();
    conj.entries[6].children.as_mut().unwrap().0 = true;
    let t = TableModel::F2(conj);
    let nm = "format_2_patch_map_conjunctive_child_indices";
    add(nm, &t, set(&[0x05]), feats(&[]), no_ds(), n(&[5, 8]));
    add(
        nm,
        &t,
        set(&[0x05, 51]),
        feats(&[b"liga", b"rlig"]),
        wght(&[(75, 75), (500, 500)]),
        n(&[2, 3, 4, 5, 6, 7, 8]),
    );
    // --- custom ids, id strings
    let t = TableModel::F2(t2_custom_ids());
    add("format_2_patch_map_custom_ids", &t, all_cps(), feats(&[]), no_ds(), n(&[0, 6, 15]));
    let t = TableModel::F2(t2_string_ids());
    add(
        "format_2_patch_map_id_strings",
        &t,
        all_cps(),
        feats(&[]),
        no_ds(),
        ["", "abc", "defg", "defg", "hij", ""]
            .iter()
            .map(|s| Id::Str(s.as_bytes().to_vec()))
            .collect(),
    );
    // --- custom encoding
    let mut enc = t2_custom_ids();
    enc.entries[3].patch_format = Some(1);
    v.push(GateCase {
        name: "format_2_patch_map_custom_encoding",
        table: TableModel::F2(enc),
        def: Def {
            cps: all_cps(),
            feats: feats(&[]),
            ds: no_ds(),
        },
        expect: n(&[0, 6, 15]),
        infos: None,
        formats: Some(vec![3, 3, 1]),
    });
    // --- intersection info, format 1
    let mut m = t1_feature_map();
    m.patch_format = 1;
    m.entry_index[3] = 299;
    m.entry_index[4] = 300;
    m.applied[37] = 0;
    let t = TableModel::F1(m);
    let info = |c: u64, f: u64, ds: Vec<(TagB, i64)>, o: u64| Info {
        cps: c,
        feats: f,
        ds,
        order: o,
    };
    let mut addi = |name: &'static str, table: &TableModel, def: Def, expect: Vec<Id>, infos: Vec<Info>| {
        v.push(GateCase {
            name,
            table: table.clone(),
            def,
            expect,
            infos: Some(infos),
            formats: None,
        });
    };
    let nm = "format_1_patch_map_intersection_info";
    addi(
        nm,
        &t,
        Def {
            cps: set(&[0x14]),
            feats: feats(&[]),
            ds: no_ds(),
        },
        n(&[300]),
        vec![info(1, 0, vec![], 300)],
    );
    addi(
        nm,
        &t,
        Def {
            cps: set(&[0x14, 0x15, 0x16]),
            feats: feats(&[]),
            ds: no_ds(),
        },
        n(&[299, 300]),
        vec![info(1, 0, vec![], 299), info(2, 0, vec![], 300)],
    );
    addi(
        nm,
        &t,
        Def {
            cps: set(&[0x14, 0x15, 0x16]),
            feats: feats(&[b"dlig", b"liga"]),
            ds: no_ds(),
        },
        n(&[299, 300, 385]),
        vec![
            info(1, 0, vec![], 299),
            info(2, 0, vec![], 300),
            info(3, 1, vec![], 385),
        ],
    );
    addi(
        nm,
        &t,
        Def {
            cps: set(&[0x14, 0x15, 0x16]),
            feats: feats(&[b"dlig"]),
            ds: no_ds(),
        },
        n(&[299, 300]),
        vec![info(1, 0, vec![], 299), info(2, 0, vec![], 300)],
    );
    // --- intersection info, format 2
    let mut m = t2_features_and_design_space();
    m.default_format = 1;
    let t = TableModel::F2(m);
    let nm = "format_2_patch_map_intersection_info";
    addi(
        nm,
        &t,
        Def {
            cps: set(&[10, 15, 22]),
            feats: feats(&[b"rlig", b"liga"]),
            ds: no_ds(),
        },
        n(&[2]),
        vec![info(2, 1, vec![], 1)],
    );
    addi(
        nm,
        &t,
        Def {
            cps: set(&[10, 15, 22]),
            feats: feats(&[b"rlig", b"liga", b"smcp"]),
            ds: wght(&[(505, 800)]),
        },
        n(&[2, 3]),
        vec![
            info(2, 1, vec![], 1),
            info(3, 1, vec![(*b"wght", 195i64 << 16)], 2),
        ],
    );
    v
}

/// cases whose table must be rejected (the repository's tests assert `is_err()`)
fn reject_cases() -> Vec<(&'static str, TableModel)> {
    let mut v = vec![];
    let mut t = t1_simple();
    t.max_glyph_map_entry_index = 3;
    v.push(("format_1_patch_map_bad_max_entry", TableModel::F1(t)));
    let mut t = t1_simple();
    t.template[0] = 0x80;
    t.template[1] = 0x81;
    v.push(("format_1_patch_map_bad_uri_template", TableModel::F1(t)));
    let mut t = t1_simple();
    t.patch_format = 0x12;
    v.push(("format_1_patch_map_bad_encoding_number", TableModel::F1(t)));
    let mut t = t2_child_indices();
    t.entries[6].children.as_mut().unwrap().1[1] = 6;
    v.push(("format_2_patch_map_invalid_child_indices", TableModel::F2(t)));
    let mut t = t2_string_ids();
    t.entries[4].id = IdSpec::StrLen(4);
    v.push(("format_2_patch_map_id_strings_too_short", TableModel::F2(t)));
    let mut t = t2_features_and_design_space();
    t.entries[0].segs[0].start = 0x20000;
    v.push(("format_2_patch_map_invalid_design_space", TableModel::F2(t)));
    let mut t = t2_custom_ids();
    t.entries[1].id = IdSpec::Delta(-2); // the fixture's "id delta" field
    v.push(("format_2_patch_map_negative_entry_id", TableModel::F2(t)));
    let mut t = t2_custom_ids();
    t.entries[2].id = IdSpec::Delta(-20);
    v.push(("format_2_patch_map_negative_entry_id_on_ignored", TableModel::F2(t)));
    v
}

pub fn reference_assumptions() -> serde_json::Value {
    serde_json::json!([
        "result order is not compared (multiset of (uri, format)); the tests pin the order but the property speaks of a set",
        "format 2: an entry whose CHILD_INDICES field is present with count 0 behaves as an entry without children, for either match mode (tests never encode an empty child list)",
        "format 2: FEATURES_AND_DESIGN_SPACE present with zero features and zero segments is a wildcard in both dimensions",
        "format 2: an ignored child still takes part in its parent's child test (pinned by the disjunctive test through entry 0) and an ignored entry still advances the numeric id / consumes id string bytes (pinned for numeric ids only)",
        "format 2: design space of an entry with several segments on one axis is the union; a definition axis the entry does not mention and an entry axis the definition does not mention contribute nothing; touching closed segments intersect (tests pin overlapping and disjoint only, plus the point 500 inside [200,700])",
        "format 2: 'all features' in the definition intersects every non-empty entry feature list; 'all design space' intersects every non-empty entry design space (both pinned); the entry side never holds 'all'",
        "format 1: a feature record whose tag is not greater than every earlier accepted record's tag is skipped entirely (tests pin one swapped pair and one duplicate, for explicit tag sets and for 'all features'); its entry-map records are still counted when locating later records' data",
        "format 1: two code points mapped to one glyph count as two intersecting code points in the intersection size; code points mapping to glyphs below first_mapped_glyph select entry 0 which can feed feature records (pinned by the 'null' record) but is never offered",
        "format 1: an entry-map record with first > last, an end beyond max_glyph_map_entry_index, or a mapped index not in (max_glyph_map_entry_index, max_entry_index] is ignored (not pinned by tests; taken from the code's own comment 'Invalid, continue on')",
        "format 1: when several entry-map records feed the same mapped entry the code point sets and tag sets are united",
        "intersection size ordering: code points, then feature tags, then design space compared as a sorted (axis, total length) list, then earlier entry; pinned by intersection_info_ordering* for single tables; across IFT and IFTX candidates of equal size either table's candidate is accepted",
        "group selection: a table-keyed partial-invalidation candidate whose URI was already chosen for the other table is not eligible; the remaining maximal one is",
        "id templates: only `{id}` over printable ASCII literals is exercised by the reference (base32hex of the minimal big-endian id, pinned by uri_template_substitution)"
    ])
}

fn ift_base() -> (crate::BaseTables, Vec<u8>) {
    let bytes = fx_data::IFT_BASE.to_vec();
    let font = FontRef::new(fx_data::IFT_BASE).unwrap();
    let num_glyphs = font.maxp().unwrap().num_glyphs() as u32;
    let cmap: BTreeMap<u32, u32> = skrifa::charmap::Charmap::new(&font)
        .mappings()
        .map(|(c, g)| (c, g.to_u32()))
        .collect();
    (
        crate::BaseTables {
            tables: vec![],
            cmap,
            num_glyphs,
        },
        bytes,
    )
}

fn wrap_ift_base(base_bytes: &[u8], ift: &[u8]) -> Vec<u8> {
    let font = FontRef::new(base_bytes).unwrap();
    let mut b = write_fonts::FontBuilder::new();
    b.add_raw(Tag::new(b"IFT "), ift);
    b.copy_missing_tables(font);
    b.build()
}

/// returns false (after `run.machinery_error`) when the reference or the encoders fail the gate
pub fn run_gate(run: &Run) -> bool {
    let mut ok = true;
    // (a) encoders reproduce the fixtures byte for byte
    let pairs: Vec<(&str, Vec<u8>, Vec<u8>)> = vec![
        ("simple_format1", encode_t1(&t1_simple()).bytes, subst_template(fx_data::simple_format1().as_slice())),
        ("u16_entries_format1", encode_t1(&t1_u16()).bytes, subst_template(fx_data::u16_entries_format1().as_slice())),
        ("feature_map_format1", encode_t1(&t1_feature_map()).bytes, subst_template(fx_data::feature_map_format1().as_slice())),
        ("codepoints_only_format2", encode_t2(&t2_codepoints_only()).bytes, subst_template(fx_data::codepoints_only_format2().as_slice())),
        (
            "features_and_design_space_format2",
            encode_t2(&t2_features_and_design_space()).bytes,
            subst_template(fx_data::features_and_design_space_format2().as_slice()),
        ),
        ("child_indices_format2", encode_t2(&t2_child_indices()).bytes, subst_template(fx_data::child_indices_format2().as_slice())),
        ("custom_ids_format2", encode_t2(&t2_custom_ids()).bytes, subst_template(fx_data::custom_ids_format2().as_slice())),
        ("string_ids_format2", encode_t2(&t2_string_ids()).bytes, subst_template(fx_data::string_ids_format2().as_slice())),
    ];
    for (name, mine, theirs) in &pairs {
        if mine != theirs {
            run.machinery_error(&format!(
                "gate: harness encoder does not reproduce fixture {name}: mine={} fixture={}",
                hex(mine),
                hex(theirs)
            ));
            ok = false;
        }
    }
    run.count("gate_fixture_encodings_reproduced", pairs.len() as u64);
    // also: charstrings offset variants of the headers
    {
        let mut t = t1_simple();
        t.cff_off = Some(456);
        t.cff2_off = Some(789);
        let theirs = subst_template(fx_data::simple_format1_with_two_charstrings_offsets().as_slice());
        if encode_t1(&t).bytes != theirs {
            run.machinery_error("gate: format-1 header with charstrings offsets differs from fixture");
            ok = false;
        }
        let mut e0 = E2::plain();
        e0.cps = range_cps(0, 0);
        let mut t = t2_base(vec![e0]);
        t.cff_off = Some(456);
        t.cff2_off = Some(789);
        let theirs = subst_template(fx_data::format2_with_two_charstrings_offset().as_slice());
        if encode_t2(&t).bytes != theirs {
            run.machinery_error("gate: format-2 header with charstrings offsets differs from fixture");
            ok = false;
        }
    }
    // (b) reference reproduces the repository's test expectations; the real code is compared too
    let (base, base_bytes) = ift_base();
    let cs = cases();
    let mut n_checked = 0u64;
    for (ci, c) in cs.iter().enumerate() {
        let default_fmt = if c.infos.is_some() { 1 } else { 3 };
        let want: Vec<(String, u8)> = c
            .expect
            .iter()
            .enumerate()
            .map(|(i, id)| {
                (
                    expand_uri(TEMPLATE, id),
                    c.formats.as_ref().map(|f| f[i]).unwrap_or(default_fmt),
                )
            })
            .collect();
        let r = ref_tables(&base.cmap, base.num_glyphs, Some(&c.table), None, &c.def);
        let got: Option<Vec<(String, u8)>> = r
            .as_ref()
            .ok()
            .map(|v| v.iter().map(|p| (p.uri.clone(), p.format)).collect());
        if got.as_ref() != Some(&want) {
            run.machinery_error(&format!(
                "gate: reference fails repository test {} (case {ci}): reference={:?} expected={:?}",
                c.name, r, want
            ));
            ok = false;
            continue;
        }
        if let (Some(infos), Ok(v)) = (&c.infos, &r) {
            let got: Vec<Info> = v.iter().map(|p| p.info.clone()).collect();
            if &got != infos {
                run.machinery_error(&format!(
                    "gate: reference intersection size fails repository test {} (case {ci}): {:?} vs {:?}",
                    c.name, got, infos
                ));
                ok = false;
                continue;
            }
        }
        n_checked += 1;
        // the real implementation on the same case (ordered comparison here: the tests pin the order)
        let font = wrap_ift_base(&base_bytes, &encode_table(&c.table));
        let sd = to_subset_definition(&c.def);
        run.eval();
        match real_patches(&font, &sd) {
            Ok(Ok(real)) => {
                let mut w = want.clone();
                w.sort();
                if real != w {
                    run.violation(
                        &format!("intersecting_patches disagrees with repository test expectation {}", c.name),
                        &format!("real={:?} expected={:?}", real, want),
                        json!({"kind": "gate", "case": ci}),
                    );
                }
                let mut h = Fnv::new();
                h.str("gate");
                h.u64(ci as u64);
                run.observe(h.finish(), !real.is_empty());
            }
            Ok(Err(e)) => run.violation(
                &format!("intersecting_patches rejects fixture of repository test {}", c.name),
                &e,
                json!({"kind": "gate", "case": ci}),
            ),
            Err(p) => run.violation(
                &format!("intersecting_patches panics: {} at {}", p.kind(), p.site()),
                &p.message,
                json!({"kind": "gate", "case": ci}),
            ),
        }
    }
    let all = Def {
        cps: all_cps(),
        feats: feats(&[]),
        ds: no_ds(),
    };
    for (name, t) in reject_cases() {
        let r = ref_tables(&base.cmap, base.num_glyphs, Some(&t), None, &all);
        if r.is_ok() {
            run.machinery_error(&format!("gate: reference accepts the table repository test {name} expects to be rejected"));
            ok = false;
            continue;
        }
        n_checked += 1;
        if name == "format_2_patch_map_invalid_child_indices" {
            // a self-referencing child list can recurse without bound if the range check is wrong: the real
            // code sees this family only inside the watchdog-supervised worker (extra::spaces_malformed)
            continue;
        }
        let font = wrap_ift_base(&base_bytes, &encode_table(&t));
        run.eval();
        if let Ok(Ok(v)) = real_patches(&font, &to_subset_definition(&all)) {
            run.violation(
                &format!("intersecting_patches accepts the table of repository test {name}"),
                &format!("returned {:?}", v),
                json!({"kind": "gate", "case": name}),
            );
        }
    }
    // wrong glyph count (format_1_patch_map_bad_glyph_count uses another font; here: table says 8)
    {
        let mut t = t1_simple();
        t.glyph_count = 8;
        t.entry_index.push(0);
        if ref_tables(&base.cmap, base.num_glyphs, Some(&TableModel::F1(t)), None, &all).is_ok() {
            run.machinery_error("gate: reference accepts a glyph count mismatch");
            ok = false;
        } else {
            n_checked += 1;
        }
    }
    run.count("gate_repository_expectations_reproduced", n_checked);
    run.sample(json!({"space": "gate", "cases": cs.len(), "first": cs[4].name, "definition": cs[4].def, "expected_ids": cs[4].expect}));
    ok
}
