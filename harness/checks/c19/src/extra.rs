//! Round 2 spaces: URI templates x id boundaries, malformed format-2 entries, several design-space axes.

use crate::model::*;
use crate::*;

/// format-2 table whose LAST entry has numeric id `id` (earlier entries are ignored id carriers)
pub fn t2_with_numeric_id(template: &[u8], id: u32) -> T2 {
    let mut entries = vec![];
    let mut last: i64 = 0;
    let target = id as i64;
    // each carrier entry advances the id by 0x800000 (delta 0x7FFFFF + implicit 1)
    while target - last - 1 > 0x7F_FFFF {
        let mut e = E2::plain();
        e.ignored = true;
        e.id = IdSpec::Delta(0x7F_FFFF);
        entries.push(e);
        last += 0x80_0000;
    }
    let mut e = E2::plain();
    let d = target - last - 1;
    e.id = if d == 0 { IdSpec::Default } else { IdSpec::Delta(d as i32) };
    entries.push(e);
    let mut t = t2_of(entries);
    t.template = template.to_vec();
    t
}

pub fn t2_with_string_id(template: &[u8], id: &[u8]) -> T2 {
    let mut e = E2::plain();
    e.id = IdSpec::StrLen(id.len() as u16);
    let mut t = t2_of(vec![e]);
    t.template = template.to_vec();
    t.string_data = Some(id.to_vec());
    t
}

/// format-2 table with one entry per string id (all un-ignored, no conditions)
pub fn t2_with_string_ids(template: &[u8], ids: &[&[u8]]) -> T2 {
    let entries = ids
        .iter()
        .map(|id| {
            let mut e = E2::plain();
            e.id = IdSpec::StrLen(id.len() as u16);
            e
        })
        .collect();
    let mut t = t2_of(entries);
    t.template = template.to_vec();
    t.string_data = Some(ids.concat());
    t
}

pub fn nul_id_groups() -> Vec<Vec<&'static [u8]>> {
    vec![
        vec![&[0, b'a'], &[b'a']],
        vec![&[b'a'], &[0, b'a']],
        vec![&[0, 0, b'a'], &[0, b'a'], &[b'a']],
        vec![&[b'a'], &[b'a', 0]],
        vec![&[0], &[0, 0], &[]],
    ]
}

fn all_def() -> Def {
    Def {
        cps: DCps::AllExcept(vec![]),
        feats: DFeat::All,
        ds: DDs::All,
    }
}

// ---------------------------------------------------------------------------
// gate: the repository's uri_templates.rs tests
// ---------------------------------------------------------------------------

pub fn gate_templates(run: &Run, base: &BaseTables) -> bool {
    let mut ok = true;
    // expand_template_inner(template, id value, id64 value) expectations (None = Err(UriTemplateError))
    let inner: Vec<(&[u8], &str, &str, Option<&str>)> = vec![
        (b"foo/bar$", "abc", "def", Some("foo/bar$")),
        (b"%af%AF%09", "abc", "def", Some("%af%AF%09")),
        (b"foo/b%a8", "abc", "def", Some("foo/b%a8")),
        (b"foo/b%bFgr", "abc", "def", Some("foo/b%bFgr")),
        ("foo/bàr".as_bytes(), "abc", "def", Some("foo/b%C3%A0r")),
        (b"{id}{id64}", "abc", "def", Some("abcdef")),
        (b"//foo.bar/{id}", "abc", "def", Some("//foo.bar/abc")),
        (b"//foo.bar/{id}/baz", "abc", "def", Some("//foo.bar/abc/baz")),
        (b"//foo.bar/{id64}", "abc", "def", Some("//foo.bar/def")),
        (b"//foo.bar/{id64}/baz", "abc", "def", Some("//foo.bar/def/baz")),
        (b"//foo.bar/{d1}/{d2}/{d3}/{id}", "FC", "def", Some("//foo.bar/C/F/_/FC")),
        (b"//foo.bar/{d1}/{d2}/{d3}/{d4}/{id}", "ABCD", "def", Some("//foo.bar/D/C/B/A/ABCD")),
        (b"//foo.bar/{idd}/baz", "abc", "def", None),
        (b"//foo.bar/{idid}/baz", "abc", "def", None),
        (b"//foo.bar/{id_id}/baz", "abc", "def", None),
        (b"//foo.bar/{_id}/baz", "abc", "def", None),
        (b"//foo.bar/{7id}/baz", "abc", "def", None),
        (b"//foo.bar/{Id}/baz", "abc", "def", None),
        (b"//foo.bar/{d5}/baz", "abc", "def", None),
        (b"//foo.bar/{id74}/{id}", "abc", "def", None),
        (b"//foo.bar/{foo%ab}", "abc", "def", None),
        (b"//foo.bar/{%ab}", "abc", "def", None),
        (b"{id64", "abc", "def", None),
        (b"{+id}", "abc", "def", None),
        (b"{.id}", "abc", "def", None),
        (b"{/id}", "abc", "def", None),
        (b"{/}", "abc", "def", None),
        (b"{}", "abc", "def", None),
        (b"{}}", "abc", "def", None),
        (b"{id}}", "abc", "def", None),
        (b"{i+d}", "abc", "def", None),
        (b"{i/d}", "abc", "def", None),
        (b"{.}", "abc", "def", None),
        (b"{a.}", "abc", "def", None),
        (b"{id.}", "abc", "def", None),
        (b"{i..d}", "abc", "def", None),
        (b"{id:1}", "abc", "def", None),
        (b"{id,id64}", "abc", "def", None),
        (b"{%}", "abc", "def", None),
        (b"{%A}", "abc", "def", None),
        (b"{%AG}", "abc", "def", None),
        (b"{id%GA}", "abc", "def", None),
        (b"foo/b%a/", "abc", "def", None),
        (b"foo/b%a", "abc", "def", None),
        (b"foo/b%a{id}", "abc", "def", None),
        (b"foo/b}ar", "abc", "def", None),
        (b"foo/\"bar\"", "abc", "def", None),
        (b"foo bar", "abc", "def", None),
        (b"foo\x00", "abc", "def", None),
        (b"foo\x1f", "abc", "def", None),
        // patchmap.rs invalid_uri_templates
        (b"//foo.bar/{i~}", "04", "AQ%3D%3D", None),
    ];
    for (t, a, b, want) in &inner {
        let got = expand_template_ref(t, a, b);
        if got.as_deref() != *want {
            run.machinery_error(&format!(
                "gate: reference URI expansion fails uri_templates.rs test for template {:?}: got {:?} want {:?}",
                String::from_utf8_lossy(t),
                got,
                want
            ));
            ok = false;
        }
    }
    // expand_template(template, id) expectations (uri_templates.rs spec_examples, patchmap.rs uri_template_substitution)
    let full: Vec<(&[u8], Id, &str)> = vec![
        (b"//foo.bar/{id}", Id::Num(123), "//foo.bar/FC"),
        (b"//foo.bar/{id}", Id::Num(0), "//foo.bar/00"),
        (b"//foo.bar/{id}", Id::Num(1), "//foo.bar/04"),
        (b"//foo.bar/{id}", Id::Num(5), "//foo.bar/0K"),
        (b"//foo.bar/{d1}/{d2}/{id}", Id::Num(478), "//foo.bar/0/F/07F0"),
        (b"//foo.bar/{d1}/{d2}/{d3}/{id}", Id::Num(123), "//foo.bar/C/F/_/FC"),
        (b"//foo.bar/{d1}/{d2}/{d3}/{id}", Id::Str(b"baz".to_vec()), "//foo.bar/K/N/G/C9GNK"),
        (b"//foo.bar/{d1}/{d2}/{d3}/{id}", Id::Str(b"z".to_vec()), "//foo.bar/8/F/_/F8"),
        (b"//foo.bar/{d1}/{d2}/{d3}/{id}", Id::Str("àbc".as_bytes().to_vec()), "//foo.bar/O/O/4/OEG64OO"),
        (b"//foo.bar/{id64}", Id::Num(14_000_000), "//foo.bar/1Z-A"),
        (b"//foo.bar/{id64}", Id::Num(0), "//foo.bar/AA%3D%3D"),
        (b"//foo.bar/{id64}", Id::Num(17_000_000), "//foo.bar/AQNmQA%3D%3D"),
        (b"//foo.bar/{id64}", Id::Str("àbc".as_bytes().to_vec()), "//foo.bar/w6BiYw%3D%3D"),
    ];
    let sd = to_subset_definition(&all_def());
    for (t, id, want) in &full {
        let got = expand_uri(t, id);
        if got != *want {
            run.machinery_error(&format!(
                "gate: reference URI expansion fails repository expectation: template {:?} id {:?}: got {got} want {want}",
                String::from_utf8_lossy(t),
                id
            ));
            ok = false;
            continue;
        }
        // the real code through a mapping table
        let table = match id {
            Id::Num(n) => t2_with_numeric_id(t, *n),
            Id::Str(s) => t2_with_string_id(t, s),
        };
        let font = wrap_font(base, Some(&encode_t2(&table).bytes), None);
        run.eval();
        match real_patches(&font, &sd) {
            Ok(Ok(v)) if v == vec![(want.to_string(), 3u8)] => {}
            other => run.violation(
                "uri_string disagrees with the repository's own template expectation",
                &format!("template {:?} id {:?}: {:?} want {want}", String::from_utf8_lossy(t), id, other.map_err(|p| p.message)),
                json!({"kind":"tmpl","ift": TableModel::F2(table), "def": all_def()}),
            ),
        }
    }
    run.count("gate_uri_template_expectations_reproduced", (inner.len() + full.len()) as u64);
    ok
}

// ---------------------------------------------------------------------------
// templates x ids
// ---------------------------------------------------------------------------

pub fn templates() -> Vec<Vec<u8>> {
    let mut v: Vec<Vec<u8>> = vec![];
    for t in [
        // well formed
        "p/{id}", "{id}", "{id64}", "x/{d1}/{d2}/{id}", "{d1}{d2}{d3}{d4}", "{d4}/{d3}-{id64}.{id}", "a%2Fb/{id}", "%af%AF{id}",
        "é/{id}", "~!$&'()*+,;=:@/?#[]{id}", "", "{id}{id}", "{id64}{id64}", "日本/{d1}", "%7B{id}%7D", "{d1}_{d1}",
        // malformed
        "{i}", "{id", "{id}}", "}", "{}", "{ID}", "{d0}", "{d5}", "{d}", "{d12}", "{id6}", "{id64", "{id644}", "%", "%a", "%ag{id}", "%%",
        "a b", "a\"b", "<", ">", "^", "`", "|", "\\", "{id,id64}", "{+id}", "{{id}}", "{ id}", "{id }", "{id}{", "{id}%", "{id}%4", "{d1",
        "{%69d}", "x/{id64}/{d9}",
    ] {
        v.push(t.as_bytes().to_vec());
    }
    // every ASCII byte as a one byte literal in front of {id}
    for b in 0u8..0x80 {
        v.push(vec![b, b'/', b'{', b'i', b'd', b'}']);
    }
    // not UTF-8: the table itself must be rejected
    v.push(vec![0x80, b'{', b'i', b'd', b'}']);
    v.push(vec![b'{', b'i', b'd', b'}', 0xC3]);
    v
}

pub fn numeric_ids() -> Vec<u32> {
    vec![
        0, 1, 31, 32, 123, 255, 256, 478, 0x3FF, 0x400, 0xFFFF, 0x1_0000, 0xFF_FFFF, 0x100_0000, 14_000_000, 17_000_000,
        0x80_0000, 0x80_0001, 0x7FFF_FFFF, 0x8000_0000, 0xFFFF_FFFF,
    ]
}

pub fn string_ids() -> Vec<Vec<u8>> {
    let mut v: Vec<Vec<u8>> = vec![
        vec![],
        b"z".to_vec(),
        b"ab".to_vec(),
        b"baz".to_vec(),
        b"abcd".to_vec(),
        b"abcde".to_vec(),
        "àbc".as_bytes().to_vec(),
        vec![0x00],
        // NUL bytes are ordinary id bytes for string ids (only numeric ids drop leading zero bytes)
        vec![0, 0],
        vec![0, b'a'],
        vec![b'a', 0],
        vec![b'a', 0, b'b'],
        vec![0, 0, b'a'],
        vec![0xFF],
        vec![0xFB, 0xFF, 0xBF],
    ];
    v.push((0..63u8).map(|i| b'a' + i % 26).collect());
    v.push((0..64u8).map(|i| b'a' + i % 26).collect());
    v.push((0..65u8).map(|i| 0x80 + i).collect());
    v.push("日本語のパッチ識別子".repeat(4).into_bytes());
    v
}

pub fn spaces_templates(ctx: &Ctx, base: &BaseTables) {
    let ts = templates();
    let nids = numeric_ids();
    let sids = string_ids();
    let def = all_def();
    let defs = vec![def];
    let sds: Vec<_> = defs.iter().map(to_subset_definition).collect();
    ctx.run.bound("uri_templates", json!(ts.len()));
    ctx.run.bound("uri_numeric_ids", json!(nids));
    ctx.run.bound("uri_string_id_lengths", json!(sids.iter().map(|s| s.len()).collect::<Vec<_>>()));
    let mut tables: Vec<TableModel> = vec![];
    for t in &ts {
        for n in &nids {
            tables.push(TableModel::F2(t2_with_numeric_id(t, *n)));
        }
        for s in &sids {
            tables.push(TableModel::F2(t2_with_string_id(t, s)));
        }
        // several entries whose id strings differ only by NUL bytes: distinct URIs
        for g in nul_id_groups() {
            tables.push(TableModel::F2(t2_with_string_ids(t, &g)));
        }
        // format 1: entry index = id (u8 and u16 wide tables)
        for (max, idx) in [(3u16, 3u16), (300, 300), (0xFFFF, 0xFFFF)] {
            let mut applied = vec![0u8; bitmap_len(max)];
            applied[0] = 0;
            tables.push(TableModel::F1(T1 {
                compat: [1, 2, 3, 4],
                max_entry_index: max,
                max_glyph_map_entry_index: max,
                glyph_count: 6,
                first_mapped_glyph: 1,
                entry_index: vec![idx, 0, 0, 0, 0],
                feature_map: None,
                applied,
                template: t.clone(),
                patch_format: 3,
                cff_off: None,
                cff2_off: None,
            }));
        }
    }
    ctx.run.count("uri_template_tables", tables.len() as u64);
    ctx.run.sample(json!({"space":"tmpl","table": tables[3 * (nids.len() + sids.len() + 3 + nul_id_groups().len()) + 4]}));
    let (tables, defs, sds) = (&tables, &defs, &sds);
    let chunk = 32;
    par_for(tables.len().div_ceil(chunk), |c| {
        let mut l = Local::default();
        for i in c * chunk..((c + 1) * chunk).min(tables.len()) {
            let fc = FontCase {
                kind: "tmpl",
                ift: Some(&tables[i]),
                iftx: None,
            };
            check_font(ctx, base, &fc, defs, sds, &[], &mut l);
        }
        ctx.merge(l);
    });
}

// ---------------------------------------------------------------------------
// malformed format-2 entries; several design-space axes
// ---------------------------------------------------------------------------

fn malformed_defs() -> Vec<Def> {
    vec![
        all_def(),
        Def {
            cps: DCps::Set(vec![A]),
            feats: DFeat::Set(vec![]),
            ds: DDs::Ranges(vec![]),
        },
    ]
}

fn malformed_tables() -> Vec<T2> {
    let cps_a = Cps::Set {
        bias_kind: 0,
        bias: 0,
        members: vec![A],
    };
    let mut tables: Vec<T2> = vec![];
    // (a) child lists pointing at the entry itself, a later entry, far out of range, mixed with valid ones
    let child_lists: Vec<Vec<u32>> = vec![
        vec![0], vec![1], vec![2], vec![3], vec![0xFF_FFFF], vec![0, 1], vec![1, 0], vec![0, 2], vec![0, 1, 2], vec![0, 0],
    ];
    for n in 1..=3usize {
        for pos in 0..n {
            for cl in &child_lists {
                for conj in [false, true] {
                    for ignored in [false, true] {
                        let mut entries: Vec<E2> = (0..n)
                            .map(|_| {
                                let mut e = E2::plain();
                                e.cps = cps_a.clone();
                                e
                            })
                            .collect();
                        entries[pos].children = Some((conj, cl.clone()));
                        entries[pos].ignored = ignored;
                        tables.push(t2_of(entries));
                    }
                }
            }
        }
    }
    // (b) id deltas: negative results, exact zero, u32 overflow boundary
    for (first, second) in [
        (-1i32, 0i32), (-2, 0), (-1, -1), (-1, -2), (5, -6), (5, -7), (5, -8), (0x7F_FFFF, -0x80_0000), (0, -0x80_0000), (-0x80_0000, 0x7F_FFFF),
    ] {
        for ign in [false, true] {
            let mut a = E2::plain();
            a.cps = cps_a.clone();
            a.id = IdSpec::Delta(first);
            let mut b = E2::plain();
            b.id = if second == 0 { IdSpec::Default } else { IdSpec::Delta(second) };
            b.ignored = ign;
            tables.push(t2_of(vec![a, b]));
        }
    }
    for last_delta in [0x7F_FFFEi32, 0x7F_FFFF] {
        // 511 carriers reach 0xFF80_0000; the final delta lands on u32::MAX or one beyond it
        for ign in [false, true] {
            let mut t = extra_chain(511);
            let mut e = E2::plain();
            e.id = IdSpec::Delta(last_delta);
            e.ignored = ign;
            t.entries.push(e);
            tables.push(t);
        }
    }
    // (c) design-space segments: start > end (reject), start == end (point), several axes, repeated axis
    let seg_lists: Vec<Vec<Seg>> = vec![
        vec![Seg { tag: WGHT, start: fx(400), end: fx(400) }],
        vec![Seg { tag: WGHT, start: fx(400) + 1, end: fx(400) }],
        vec![Seg { tag: WGHT, start: fx(100), end: fx(400) }, Seg { tag: WDTH, start: fx(100), end: fx(75) }],
        vec![Seg { tag: WGHT, start: i32::MAX, end: i32::MIN }],
        vec![Seg { tag: WGHT, start: i32::MIN, end: i32::MAX }],
        vec![seg(WGHT, 100, 400), seg(WDTH, 75, 100), seg(OPSZ, 8, 144)],
        vec![seg(WGHT, 100, 300), seg(WGHT, 200, 400)],
        vec![seg(WGHT, 100, 200), seg(WGHT, 500, 600), seg(WGHT, 150, 550)],
    ];
    for sl in &seg_lists {
        for ign in [false, true] {
            let mut e = E2::plain();
            e.fds = true;
            e.segs = sl.clone();
            e.ignored = ign;
            let mut plain = E2::plain();
            plain.cps = cps_a.clone();
            tables.push(t2_of(vec![plain, e]));
        }
    }
    tables
}

/// Worker process (env C19_WORKER): only calls the real code on the malformed family, so that a stack
/// overflow / abort / hang there (e.g. a child list that may refer to its own entry recursing forever)
/// kills this process and not the check.
pub fn worker_main() {
    use std::io::Write;
    let base = base_tables();
    let sds: Vec<_> = malformed_defs().iter().map(to_subset_definition).collect();
    for (i, t) in malformed_tables().iter().enumerate() {
        println!("start {i}");
        std::io::stdout().flush().ok();
        let font = wrap_font(&base, Some(&encode_t2(t).bytes), None);
        for sd in &sds {
            let fr = FontRef::new(&font).unwrap();
            let _ = intersecting_patches(&fr, sd);
        }
    }
    println!("done");
}

/// run the worker under a watchdog; Err(last started table index) if it crashed or hung
fn malformed_family_survives() -> Result<(), (Option<usize>, String)> {
    use std::io::Read;
    let exe = std::env::current_exe().map_err(|e| (None, format!("current_exe: {e}")))?;
    let mut child = std::process::Command::new(exe)
        .env("C19_WORKER", "1")
        .stdout(std::process::Stdio::piped())
        .stderr(std::process::Stdio::null())
        .spawn()
        .map_err(|e| (None, format!("spawn: {e}")))?;
    let mut out = child.stdout.take().unwrap();
    let reader = std::thread::spawn(move || {
        let mut s = String::new();
        let _ = out.read_to_string(&mut s);
        s
    });
    let t0 = std::time::Instant::now();
    let status = loop {
        match child.try_wait() {
            Ok(Some(st)) => break Some(st),
            Ok(None) => {
                if t0.elapsed().as_secs() > 120 {
                    let _ = child.kill();
                    let _ = child.wait();
                    break None;
                }
                std::thread::sleep(std::time::Duration::from_millis(20));
            }
            Err(_) => break None,
        }
    };
    let text = reader.join().unwrap_or_default();
    let last = text.lines().filter_map(|l| l.strip_prefix("start ")).filter_map(|n| n.parse::<usize>().ok()).last();
    match status {
        Some(st) if st.success() && text.lines().last() == Some("done") => Ok(()),
        Some(st) => Err((last, format!("worker ended with {st}"))),
        None => Err((last, "worker did not finish within the watchdog (120 s)".into())),
    }
}

pub fn spaces_malformed(ctx: &Ctx, base: &BaseTables) {
    let defs = malformed_defs();
    let sds: Vec<_> = defs.iter().map(to_subset_definition).collect();
    let pairs = subset_pairs(&defs);
    let tables = malformed_tables();
    ctx.run.count("f2_tables_malformed_family", tables.len() as u64);
    ctx.run.sample(json!({"space":"f2-bad","table": tables[17]}));
    if let Err((last, how)) = malformed_family_survives() {
        let t = last.and_then(|i| tables.get(i)).cloned();
        ctx.run.violation(
            "intersecting_patches crashes or hangs the process on a malformed format-2 entry (child index / id delta / design space family)",
            &format!("{how}; in-flight table index {last:?}"),
            json!({"kind":"f2-bad-crash","ift": t.map(TableModel::F2), "def": all_def()}),
        );
        return; // running the family in-process would take the check down with it
    }
    let (tables, defs, sds, pairs) = (&tables, &defs, &sds, &pairs);
    par_for(tables.len(), |i| {
        let mut l = Local::default();
        let t = TableModel::F2(tables[i].clone());
        let fc = FontCase {
            kind: "f2-bad",
            ift: Some(&t),
            iftx: None,
        };
        check_font(ctx, base, &fc, defs, sds, pairs, &mut l);
        ctx.merge(l);
    });
}

fn extra_chain(n: usize) -> T2 {
    let entries = (0..n)
        .map(|_| {
            let mut e = E2::plain();
            e.ignored = true;
            e.id = IdSpec::Delta(0x7F_FFFF);
            e
        })
        .collect();
    t2_of(entries)
}

/// entries and definitions over up to three axes: intersection (parts 1, 2) and selection by
/// design-space size (part 3)
pub fn spaces_axes(ctx: &Ctx, base: &BaseTables) {
    let ds_entries: Vec<Vec<Seg>> = vec![
        vec![],
        vec![seg(WGHT, 100, 400)],
        vec![seg(WGHT, 300, 700), seg(WDTH, 75, 100)],
        vec![seg(WGHT, 100, 400), seg(WDTH, 75, 100), seg(OPSZ, 8, 144)],
        vec![seg(WDTH, 50, 80), seg(OPSZ, 8, 12)],
        vec![seg(WGHT, 100, 200), seg(WGHT, 500, 600)],
        vec![seg(WGHT, 100, 300), seg(WGHT, 200, 400)],
        vec![seg(OPSZ, 10, 10)],
        // one wide segment spanning several definition segments; interleaving segments; the same on two axes
        vec![seg(WGHT, 100, 900)],
        vec![seg(WGHT, 100, 250), seg(WGHT, 280, 650), seg(WGHT, 680, 900)],
        vec![seg(WGHT, 100, 900), seg(WDTH, 40, 120)],
    ];
    let axis = |t: TagB, a: i32, b: i32| (t, vec![(fx(a), fx(b))]);
    let multi = |t: TagB, v: &[(i32, i32)]| (t, v.iter().map(|(a, b)| (fx(*a), fx(*b))).collect::<Vec<_>>());
    let ds_defs: Vec<DDs> = vec![
        DDs::Ranges(vec![]),
        DDs::All,
        DDs::Ranges(vec![axis(WGHT, 350, 350)]),
        DDs::Ranges(vec![axis(WGHT, 250, 550)]),
        DDs::Ranges(vec![axis(WGHT, 250, 550), axis(WDTH, 100, 100)]),
        DDs::Ranges(vec![axis(WDTH, 60, 90), axis(OPSZ, 9, 11)]),
        DDs::Ranges(vec![axis(WGHT, 0, 1000), axis(WDTH, 0, 1000), axis(OPSZ, 0, 1000)]),
        DDs::Ranges(vec![axis(OPSZ, 10, 10)]),
        DDs::Ranges(vec![(WGHT, vec![(fx(150), fx(160)), (fx(520), fx(900))])]),
        DDs::Ranges(vec![axis(*b"slnt", -10, 0)]),
        // two / three disjoint segments on one axis, on two axes, and touching entry segment boundaries
        DDs::Ranges(vec![multi(WGHT, &[(200, 300), (600, 700)])]),
        DDs::Ranges(vec![multi(WGHT, &[(200, 300), (400, 500), (600, 700)])]),
        DDs::Ranges(vec![multi(WGHT, &[(200, 300), (600, 700)]), multi(WDTH, &[(50, 60), (90, 110)])]),
        DDs::Ranges(vec![multi(WGHT, &[(50, 100), (400, 400), (900, 950)])]),
        DDs::Ranges(vec![multi(WGHT, &[(260, 270), (660, 670), (950, 960)]), multi(WDTH, &[(10, 40), (120, 130)])]),
    ];
    let mut defs = vec![];
    for cps in [DCps::Set(vec![A]), DCps::Set(vec![])] {
        for f in [DFeat::Set(vec![]), DFeat::All] {
            for d in &ds_defs {
                defs.push(Def { cps: cps.clone(), feats: f.clone(), ds: d.clone() });
            }
        }
    }
    let sds: Vec<_> = defs.iter().map(to_subset_definition).collect();
    let pairs = subset_pairs(&defs);
    ctx.run.bound("axes_entry_design_spaces", json!(ds_entries.len()));
    ctx.run.bound("axes_definitions", json!(defs.len()));
    let n = ds_entries.len();
    let (ds_entries, defs, sds, pairs) = (&ds_entries, &defs, &sds, &pairs);
    let counter = std::sync::atomic::AtomicU64::new(0);
    par_for(n * n * n, |code| {
        let mut l = Local::default();
        let idx = [code % n, (code / n) % n, code / (n * n)];
        let mk = |k: usize, with_cp: bool| {
            let mut e = E2::plain();
            e.segs = ds_entries[idx[k]].clone();
            e.fds = !e.segs.is_empty();
            if with_cp {
                e.cps = Cps::Set { bias_kind: 0, bias: 0, members: vec![A] };
            }
            e
        };
        for default_format in [3u8, 2, 1] {
            let mut t = t2_of(vec![mk(0, true), mk(1, false), mk(2, true)]);
            t.default_format = default_format;
            let tm = TableModel::F2(t);
            let fc = FontCase { kind: "f2-axes", ift: Some(&tm), iftx: None };
            if default_format == 3 {
                check_font(ctx, base, &fc, defs, sds, pairs, &mut l);
            } else {
                for (d, sd) in defs.iter().zip(sds.iter()) {
                    let gc = groups::GroupCase { ift: Some(tm.clone()), iftx: None, def: d.clone(), cmap12: false };
                    groups::run_one(ctx, base, &gc, sd, &mut l);
                }
                counter.fetch_add(defs.len() as u64, std::sync::atomic::Ordering::Relaxed);
            }
        }
        ctx.merge(l);
    });
    ctx.run.count("axes_tables", (n * n * n) as u64);
    ctx.run.count("axes_group_selections", counter.load(std::sync::atomic::Ordering::Relaxed));
}

/// Format-2 tables in which NON-FINAL entries carry code point bits but encode the explicit empty
/// sparse bit set (one header byte, tree height 0, every branch factor code, with and without a bias
/// field). Such an entry is a wildcard in the code point dimension; what follows it must still be
/// parsed from the right byte.
pub fn spaces_explicit_empty(ctx: &Ctx, base: &BaseTables) {
    let defs = defs_f2(true);
    let sds: Vec<_> = defs.iter().map(to_subset_definition).collect();
    let pairs = subset_pairs(&defs);
    let mut empties: Vec<E2> = vec![];
    for (bias_kind, bias) in [(0u8, 0u32), (1, 5), (2, 80_000)] {
        for bf_code in 0..4u8 {
            for ignored in [false, true] {
                let mut e = E2::plain();
                e.cps = Cps::Empty { bias_kind, bias, bf_code };
                e.ignored = ignored;
                empties.push(e.clone());
                // with features in front of the code point field as well
                e.fds = true;
                e.features = vec![LIGA];
                empties.push(e);
            }
        }
    }
    let followers = {
        let mut v = vec![];
        for s in own_shapes(false) {
            v.push(s.clone());
            let mut i = s;
            i.id = IdSpec::Delta(3);
            v.push(i);
        }
        v
    };
    let mut tables: Vec<T2> = vec![];
    for e in &empties {
        // final position too (the baseline), then non-final in 2- and 3-entry tables
        tables.push(t2_of(vec![e.clone()]));
        for f in &followers {
            tables.push(t2_of(vec![e.clone(), f.clone()]));
            for ch in [Some((false, vec![0u32])), Some((true, vec![0, 1]))] {
                let mut last = followers[1].clone();
                last.children = ch;
                tables.push(t2_of(vec![e.clone(), f.clone(), last]));
            }
            tables.push(t2_of(vec![f.clone(), e.clone(), followers[2].clone()]));
        }
        for e2 in empties.iter().step_by(5) {
            tables.push(t2_of(vec![e.clone(), e2.clone(), followers[3].clone()]));
        }
    }
    ctx.run.count("f2_tables_explicit_empty_code_point_sets", tables.len() as u64);
    ctx.run.sample(json!({"space":"f2-empty","table": tables[9]}));
    let (tables, defs, sds, pairs) = (&tables, &defs, &sds, &pairs);
    let chunk = 16;
    par_for(tables.len().div_ceil(chunk), |c| {
        let mut l = Local::default();
        for i in c * chunk..((c + 1) * chunk).min(tables.len()) {
            let t = TableModel::F2(tables[i].clone());
            let fc = FontCase { kind: "f2-empty", ift: Some(&t), iftx: None };
            check_font(ctx, base, &fc, defs, sds, pairs, &mut l);
        }
        ctx.merge(l);
    });
}

// ---------------------------------------------------------------------------
// format-1 mappings over a font whose selected cmap subtable is format 12 with code points at the
// extremes of the Unicode range and at group boundaries: the glyph-map intersection has one code
// path for inverted code point sets (iterating the cmap) and one for plain sets (looking each code
// point up); both must agree with the reference and with each other (monotonicity / containment).
// ---------------------------------------------------------------------------

/// (start, end, start glyph) groups of the hand-encoded format-12 subtable
const CMAP12_GROUPS: [(u32, u32, u32); 11] = [
    (0x0, 0x0, 1),
    (0x20, 0x20, 0), // -> glyph 0 before most real mappings
    (0x41, 0x42, 1),
    (0x43, 0x43, 0), // 'C' -> glyph 0 between
    (0x50, 0x52, 0), // a group that starts at glyph 0 and continues with glyphs 1, 2
    (0xFFFF, 0xFFFF, 3),
    (0x1_0000, 0x1_0001, 4),
    (0x2_0000, 0x2_0001, 1),
    (0x2_0002, 0x2_0002, 1), // adjacent to the previous group
    (0x3_0000, 0x3_0000, 0),
    (0x10_FFFE, 0x10_FFFF, 4),
];

pub fn base_tables_cmap12() -> BaseTables {
    let mut b = base_tables();
    let mut w = W::default();
    w.u16(0); // version
    w.u16(1); // one encoding record
    w.u16(3); // Windows
    w.u16(10); // Unicode full repertoire
    w.u32(12);
    w.u16(12); // format
    w.u16(0);
    w.u32(16 + 12 * CMAP12_GROUPS.len() as u32);
    w.u32(0); // language
    w.u32(CMAP12_GROUPS.len() as u32);
    let mut map = BTreeMap::new();
    for (s, e, g) in CMAP12_GROUPS {
        w.u32(s);
        w.u32(e);
        w.u32(g);
        for c in s..=e {
            if g + (c - s) != 0 {
                map.insert(c, g + (c - s));
            }
        }
    }
    for t in b.tables.iter_mut() {
        if t.0 == Tag::new(b"cmap") {
            t.1 = w.0.clone();
        }
    }
    b.cmap = map;
    b
}

pub fn spaces_f1_cmap12(ctx: &Ctx, _base: &BaseTables) {
    let base = base_tables_cmap12();
    let thorough = ctx.run.tier == Tier::Thorough;
    // the last five are mapped to glyph 0 (0x20, 'C', 0x50, 0x30000) or follow such a pair inside a group (0x51)
    let specials: Vec<u32> = vec![0x0, 0xFFFF, 0x1_0000, 0x1_0001, 0x2_0000, 0x2_0001, 0x2_0002, 0x10_FFFE, 0x10_FFFF, 0x20, 0x43, 0x50, 0x51, 0x3_0000];
    let mapped: Vec<u32> = base.cmap.keys().copied().collect();
    let mut cps: Vec<DCps> = vec![DCps::Set(vec![]), DCps::AllExcept(vec![]), DCps::AllExcept(vec![A]), DCps::Set(specials.clone())];
    for c in &specials {
        cps.push(DCps::Set(vec![*c]));
        cps.push(DCps::AllExcept(vec![*c]));
        // everything except the OTHER mapped code points: the inverted path has to find exactly c
        cps.push(DCps::AllExcept(mapped.iter().copied().filter(|x| x != c).collect()));
        // an unmapped neighbour must not matter
        cps.push(DCps::Set(vec![*c, c.wrapping_add(7) & 0x10_FFFF]));
    }
    let mut defs = vec![];
    for c in &cps {
        for f in [DFeat::Set(vec![]), DFeat::All] {
            defs.push(Def { cps: c.clone(), feats: f, ds: DDs::Ranges(vec![]) });
        }
    }
    let sds: Vec<_> = defs.iter().map(to_subset_definition).collect();
    let pairs = subset_pairs(&defs);
    ctx.run.bound("cmap12_definitions", json!(defs.len()));
    ctx.run.bound("cmap12_subset_pairs", json!(pairs.len()));
    ctx.run.bound("cmap12_groups", json!(CMAP12_GROUPS));
    // glyph maps gid 1..=5 -> entries {0..3}; quick fixes gids 2,3
    let mut tables: Vec<T1> = vec![];
    for code in 0..4u32.pow(5) {
        let entry_index: Vec<u16> = (0..5).map(|k| ((code >> (2 * k)) & 3) as u16).collect();
        if !thorough && !(entry_index[1] == 1 && entry_index[2] == 2) {
            continue;
        }
        for (patch_format, applied) in [(3u8, 0u8), (3, 0b0100), (1, 0), (2, 0b1000)] {
            for fm in [None, Some(vec![FRec { tag: LIGA, first_new: 4, maps: vec![(1, 3)] }])] {
                tables.push(T1 {
                    compat: [1, 2, 3, 4],
                    max_entry_index: 4,
                    max_glyph_map_entry_index: 3,
                    glyph_count: 6,
                    first_mapped_glyph: 1,
                    entry_index: entry_index.clone(),
                    feature_map: fm,
                    applied: vec![applied],
                    template: b"p/{id}".to_vec(),
                    patch_format,
                    cff_off: None,
                    cff2_off: None,
                });
            }
        }
    }
    ctx.run.count("f1_tables_over_format12_cmap", tables.len() as u64);
    ctx.run.sample(json!({"space":"f1-cmap12","table": tables[11], "definitions": defs.len()}));
    let (tables, defs, sds, pairs, base) = (&tables, &defs, &sds, &pairs, &base);
    let chunk = 8;
    par_for(tables.len().div_ceil(chunk), |c| {
        let mut l = Local::default();
        for i in c * chunk..((c + 1) * chunk).min(tables.len()) {
            let t = TableModel::F1(tables[i].clone());
            let fc = FontCase { kind: "f1-cmap12", ift: Some(&t), iftx: None };
            check_font(ctx, base, &fc, defs, sds, pairs, &mut l);
            // selection with the all-inclusive definition must offer what the single code points offer
            if tables[i].patch_format == 3 {
                let gc = groups::GroupCase { ift: Some(t.clone()), iftx: None, def: defs[2].clone(), cmap12: true };
                groups::run_one(ctx, base, &gc, &sds[2], &mut l);
            }
        }
        ctx.merge(l);
    });
}

/// Format-1 entry index width boundary: entry indices (glyph map, feature records, entry-map records)
/// are uint8 iff maxEntryIndex < 256. Tables with maxEntryIndex 254..=257 whose glyph map and feature
/// map reach the top entries (max-1, max) as well as low ones.
pub fn spaces_f1_width_boundary(ctx: &Ctx, base: &BaseTables) {
    let thorough = ctx.run.tier == Tier::Thorough;
    let mut defs = defs_f1();
    for c in [B, C, D_, E] {
        defs.push(Def { cps: DCps::Set(vec![c]), feats: DFeat::Set(vec![]), ds: DDs::Ranges(vec![]) });
        defs.push(Def { cps: DCps::Set(vec![c]), feats: DFeat::All, ds: DDs::Ranges(vec![]) });
    }
    defs.push(Def { cps: DCps::Set(vec![A, B, C, D_, E, A2]), feats: DFeat::Set(vec![LIGA]), ds: DDs::Ranges(vec![]) });
    let sds: Vec<_> = defs.iter().map(to_subset_definition).collect();
    let pairs = subset_pairs(&defs);
    let mut tables: Vec<T1> = vec![];
    for max in [254u16, 255, 256, 257] {
        let alpha = [0u16, 1, max - 1, max];
        for code in 0..4u32.pow(5) {
            let entry_index: Vec<u16> = (0..5).map(|k| alpha[((code >> (2 * k)) & 3) as usize]).collect();
            if !thorough && !(entry_index[3] == max && entry_index[4] == 1) {
                continue;
            }
            // (max_glyph_map_entry_index, feature map): whole range in the glyph map, or the two top
            // entries reachable only through feature records (entry-map records near the top as well)
            let variants: Vec<(u16, Option<Vec<FRec>>)> = vec![
                (max, None),
                (max - 2, Some(vec![FRec { tag: LIGA, first_new: max - 1, maps: vec![(1, 1), (0, max - 2)] }])),
                (max - 1, Some(vec![FRec { tag: DLIG, first_new: max, maps: vec![(max - 1, max - 1)] }, FRec { tag: LIGA, first_new: max, maps: vec![(1, max - 1)] }])),
            ];
            for (max_gm, fm) in variants {
                for bit in [None, Some(max), Some(1u16), Some(max - 1)] {
                    if !thorough && bit == Some(max - 1) {
                        continue;
                    }
                    let mut applied = vec![0u8; bitmap_len(max)];
                    if let Some(b) = bit {
                        applied[b as usize / 8] |= 1 << (b % 8);
                    }
                    for patch_format in [3u8, 1] {
                        if patch_format == 1 && bit.is_some() {
                            continue;
                        }
                        tables.push(T1 {
                            compat: [1, 2, 3, 4],
                            max_entry_index: max,
                            max_glyph_map_entry_index: max_gm,
                            glyph_count: 6,
                            first_mapped_glyph: 1,
                            entry_index: entry_index.clone(),
                            feature_map: fm.clone(),
                            applied: applied.clone(),
                            template: b"p/{id}".to_vec(),
                            patch_format,
                            cff_off: None,
                            cff2_off: None,
                        });
                    }
                }
            }
        }
    }
    ctx.run.count("f1_tables_entry_index_width_boundary", tables.len() as u64);
    ctx.run.bound("f1_width_boundary_max_entry_index", json!([254, 255, 256, 257]));
    ctx.run.sample(json!({"space":"f1-width","table": tables[tables.len() / 2], "definitions": defs.len()}));
    let (tables, defs, sds, pairs) = (&tables, &defs, &sds, &pairs);
    let chunk = 8;
    par_for(tables.len().div_ceil(chunk), |c| {
        let mut l = Local::default();
        for i in c * chunk..((c + 1) * chunk).min(tables.len()) {
            let t = TableModel::F1(tables[i].clone());
            let fc = FontCase { kind: "f1-width", ift: Some(&t), iftx: None };
            check_font(ctx, base, &fc, defs, sds, pairs, &mut l);
        }
        ctx.merge(l);
    });
}

/// Both fixture cmaps must really contain code point -> glyph 0 pairs (read back from the raw subtables).
pub fn fixtures_hold_notdef_pairs(base: &BaseTables) -> Result<(), String> {
    use read_fonts::tables::cmap::Cmap;
    use read_fonts::FontRead;
    for (name, b, cps) in [
        ("format 4", base.tables.clone(), vec![NOTDEF_BEFORE, NOTDEF_BETWEEN, NOTDEF_AFTER]),
        ("format 12", base_tables_cmap12().tables, vec![0x20u32, 0x43, 0x50, 0x3_0000]),
    ] {
        let data = &b.iter().find(|t| t.0 == Tag::new(b"cmap")).ok_or("no cmap")?.1;
        let cmap = Cmap::read(read_fonts::FontData::new(data)).map_err(|e| format!("{name}: {e}"))?;
        for cp in cps {
            if cmap.map_codepoint(cp).map(|g| g.to_u32()) != Some(0) {
                return Err(format!("{name}: U+{cp:04X} is not mapped to glyph 0 in the raw subtable"));
            }
        }
    }
    Ok(())
}

/// Entry code point sets that span several 512-value pages of the bit set and are encoded with FILLED
/// (all-zero) interior nodes at higher code points than leaf-encoded ones, so that the decoder creates
/// pages out of ascending order. Two or three such entries compete as invalidating candidates with
/// intersection sizes that differ by one; the reference counts with plain set arithmetic.
pub fn spaces_pages(ctx: &Ctx, base: &BaseTables) {
    let range = |a: u32, b: u32| (a..=b).collect::<Vec<u32>>();
    let cat = |parts: &[Vec<u32>]| {
        let mut v: Vec<u32> = parts.concat();
        v.sort();
        v.dedup();
        v
    };
    let sets: Vec<Vec<u32>> = vec![
        vec![A],
        vec![A, B],
        vec![0x4C05],
        vec![A, 0x4C05],
        cat(&[vec![A], range(0x4C00, 0x4DFF)]),                    // leaf in page 0, filled page 38
        cat(&[vec![A], range(0x200, 0x3FF)]),                      // leaf in page 0, filled page 1
        cat(&[vec![A, 0x2005], range(0x4C00, 0x4DFF)]),            // three pages, leaves in 0 and 16
        cat(&[vec![B, 0x4C05], range(0x8000, 0x81FF)]),            // three pages, filled one last
        cat(&[range(0x200, 0x3FF), range(0x4C00, 0x4DFF), vec![0x8001]]), // two filled pages, leaf last
        cat(&[vec![A], range(0x4C00, 0x4CFF)]),                    // half a page filled (one 256 node)
    ];
    let cps_defs: Vec<DCps> = vec![
        DCps::Set(vec![A]),
        DCps::Set(vec![0x4C05]),
        DCps::Set(vec![A, 0x4C05]),
        DCps::Set(vec![A, B, 0x4C05]),
        DCps::Set(vec![0x205]),
        DCps::Set(vec![A, 0x205]),
        DCps::Set(vec![A, 0x2005, 0x4C05]),
        DCps::Set(vec![0x4C05, 0x8001]),
        DCps::Set(vec![B, 0x8001, 0x4DFF, 0x4C00]),
        DCps::Set(vec![A, 0x3FF, 0x400, 0x4BFF, 0x4E00]),
        DCps::AllExcept(vec![]),
        DCps::AllExcept(vec![A]),
        DCps::AllExcept(vec![0x4C05]),
    ];
    let defs: Vec<Def> = cps_defs
        .into_iter()
        .map(|c| Def { cps: c, feats: DFeat::Set(vec![]), ds: DDs::Ranges(vec![]) })
        .collect();
    let sds: Vec<_> = defs.iter().map(to_subset_definition).collect();
    let pairs = subset_pairs(&defs);
    ctx.run.bound("pages_entry_code_point_sets", json!(sets.iter().map(|s| s.len()).collect::<Vec<_>>()));
    ctx.run.bound("pages_definitions", json!(defs.len()));
    let n = sets.len();
    let (sets, defs, sds, pairs) = (&sets, &defs, &sds, &pairs);
    let counter = std::sync::atomic::AtomicU64::new(0);
    par_for(n * n * (n + 1), |code| {
        let mut l = Local::default();
        let (a, b, c) = (code % n, (code / n) % n, code / (n * n));
        let mk = |k: usize, bias_kind: u8| {
            let mut e = E2::plain();
            let members = sets[k].clone();
            let bias = if bias_kind == 0 { 0 } else { members[0].min(0x40) };
            e.cps = Cps::Set { bias_kind, bias, members };
            e
        };
        // c == n: two-entry table
        let mut entries = vec![mk(a, 0), mk(b, 1)];
        if c < n {
            entries.push(mk(c, 0));
        }
        let mut k = 0u64;
        for default_format in [3u8, 2, 1] {
            let mut t = t2_of(entries.clone());
            t.default_format = default_format;
            let tm = TableModel::F2(t);
            if default_format == 3 {
                let fc = FontCase { kind: "f2-pages", ift: Some(&tm), iftx: None };
                check_font(ctx, base, &fc, defs, sds, pairs, &mut l);
            } else {
                for (d, sd) in defs.iter().zip(sds.iter()) {
                    let gc = groups::GroupCase { ift: Some(tm.clone()), iftx: None, def: d.clone(), cmap12: false };
                    groups::run_one(ctx, base, &gc, sd, &mut l);
                    k += 1;
                }
            }
        }
        counter.fetch_add(k, std::sync::atomic::Ordering::Relaxed);
        ctx.merge(l);
    });
    ctx.run.count("pages_tables", (n * n * (n + 1)) as u64);
    ctx.run.count("pages_group_selections", counter.load(std::sync::atomic::Ordering::Relaxed));
}
