use crate::*;
pub fn run_ext(_ctx: &Ctx, _base: &BaseTables) {}
pub fn replay(_run: &Run, _base: &BaseTables, _case: &Value) {}
