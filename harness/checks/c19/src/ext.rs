//! Part 4: extension runs as explicit-state search.
//!
//! state      = (font bytes, harness models of its mapping tables, the client's URI bookkeeping)
//! transition = pick a subset definition d from D4 -> `select_next_patches(font, d)` -> the client
//!              inserts `Pending(bytes)` for every group URI it has not seen (bytes from the harness
//!              patch store, which is consistent with the *current* mapping tables: glyph keyed
//!              patches carry the table's compat id; a partially invalidating patch replaces its own
//!              mapping table by the same table with that entry retired and a new compat id; a fully
//!              invalidating patch does so for both tables) -> `apply_next_patches_with_decoder`.
//! Breadth first over all definitions at every state, states de-duplicated on
//! (font bytes, sorted bookkeeping). Checked on every transition: the call returns; on Ok at least
//! one URI that was not Applied before is Applied now and nothing else changed except those; on Err
//! the bookkeeping is unchanged; no path is longer than the horizon (#entries + 2); after an Ok the
//! mapping tables of the new font are exactly what the applied patches say (applied entries retired).
//! A second store variant is *inconsistent* (invalidating patches leave the mapping untouched): the
//! same URI is then offered again and the run must end in Err rather than loop.

use crate::model::*;
use crate::patches::*;
use crate::*;
use incremental_font_transfer::patch_group::{PatchGroup, UriStatus};
use shared_brotli_patch_decoder::NoopBrotliDecoder;
use std::collections::VecDeque;

#[derive(Clone, serde::Serialize, serde::Deserialize)]
pub struct ExtScenario {
    pub ift: TableModel,
    pub iftx: Option<TableModel>,
    pub consistent_store: bool,
}

#[derive(Clone)]
struct State {
    font: Vec<u8>,
    ift: Option<TableModel>,
    iftx: Option<TableModel>,
    /// uri -> applied?  (pending entries keep no bytes here: they are regenerated from the store)
    book: BTreeMap<String, bool>,
    depth: usize,
    path: Vec<usize>,
}

fn compat_mut(t: &mut TableModel) -> &mut [u32; 4] {
    match t {
        TableModel::F1(t) => &mut t.compat,
        TableModel::F2(t) => &mut t.compat,
    }
}
fn compat_ref(t: &TableModel) -> [u32; 4] {
    match t {
        TableModel::F1(t) => t.compat,
        TableModel::F2(t) => t.compat,
    }
}

/// (entry position, uri, format) of every live (not retired) entry of a table
fn live_entries(t: &TableModel) -> Vec<(usize, String, u8)> {
    match t {
        TableModel::F2(t) => {
            let ids = t2_ids(t).unwrap();
            t.entries
                .iter()
                .enumerate()
                .filter(|(_, e)| !e.ignored)
                .map(|(i, e)| (i, expand_uri(&t.template, &ids[i]), e.patch_format.unwrap_or(t.default_format)))
                .collect()
        }
        TableModel::F1(t) => (1..=t.max_entry_index as usize)
            .filter(|i| t.applied[i / 8] & (1 << (i % 8)) == 0)
            .map(|i| (i, expand_uri(&t.template, &Id::Num(i as u32)), t.patch_format))
            .collect(),
    }
}

fn retire(t: &mut TableModel, pos: usize) {
    match t {
        TableModel::F2(t) => t.entries[pos].ignored = true,
        TableModel::F1(t) => t.applied[pos / 8] |= 1 << (pos % 8),
    }
}

/// patch bytes for `uri` given the current models, plus the models after a successful application
fn store(
    sc: &ExtScenario,
    ift: &Option<TableModel>,
    iftx: &Option<TableModel>,
    uri: &str,
) -> Option<(Vec<u8>, u8)> {
    for (ti, t) in [ift, iftx].into_iter().enumerate() {
        let Some(t) = t else { continue };
        for (pos, u, fmt) in live_entries(t) {
            if u != uri {
                continue;
            }
            let compat = compat_ref(t);
            return Some(match fmt {
                3 => {
                    let gid = (pos as u32 % 5) + 1;
                    (
                        glyph_keyed_patch(compat, false, &[gid], &[*b"glyf"], &[vec![vec![0xA0 + gid as u8; gid as usize]]], 0),
                        3,
                    )
                }
                f => {
                    let mut ops: Vec<(TagB, TableOp)> = vec![];
                    if sc.consistent_store {
                        let (a, b) = next_tables(ift, iftx, ti, pos, f);
                        if f == 1 || ti == 0 {
                            if let Some(a) = &a {
                                ops.push((*b"IFT ", TableOp::Replace(encode_table(a))));
                            }
                        }
                        if f == 1 || ti == 1 {
                            if let Some(b) = &b {
                                ops.push((*b"IFTX", TableOp::Replace(encode_table(b))));
                            }
                        }
                    } else {
                        ops.push((*b"tabZ", TableOp::Replace(vec![1, 2, 3])));
                    }
                    (table_keyed_patch(compat, &ops, 0), f)
                }
            });
        }
    }
    None
}

/// mapping tables after the invalidating patch of entry (table ti, position pos) has been applied
fn next_tables(
    ift: &Option<TableModel>,
    iftx: &Option<TableModel>,
    ti: usize,
    pos: usize,
    format: u8,
) -> (Option<TableModel>, Option<TableModel>) {
    let mut a = ift.clone();
    let mut b = iftx.clone();
    {
        let own = if ti == 0 { a.as_mut() } else { b.as_mut() };
        let own = own.unwrap();
        retire(own, pos);
        compat_mut(own)[3] += 16;
    }
    if format == 1 {
        let other = if ti == 0 { b.as_mut() } else { a.as_mut() };
        if let Some(o) = other {
            compat_mut(o)[3] += 16;
        }
    }
    (a, b)
}

fn key(s: &State) -> u64 {
    let mut h = Fnv::new();
    h.bytes(&s.font);
    for (k, v) in &s.book {
        h.str(k);
        h.byte(*v as u8);
    }
    h.finish()
}

pub fn explore(ctx: &Ctx, base: &BaseTables, sc: &ExtScenario, defs: &[Def], sds: &[SubsetDefinition], local: &mut Local) -> (u64, u64, usize) {
    let n_entries = |t: &Option<TableModel>| match t {
        None => 0,
        Some(TableModel::F2(t)) => t.entries.len(),
        Some(TableModel::F1(t)) => t.max_entry_index as usize,
    };
    let only_gk = |t: &Option<TableModel>| match t {
        None => true,
        Some(TableModel::F1(t)) => t.patch_format == 3,
        Some(TableModel::F2(t)) => t.entries.iter().all(|e| e.patch_format.unwrap_or(t.default_format) == 3),
    };
    let all_glyph_keyed = only_gk(&Some(sc.ift.clone())) && only_gk(&sc.iftx);
    let ift = Some(sc.ift.clone());
    let horizon = n_entries(&ift) + n_entries(&sc.iftx) + 2;
    let font = wrap_font(
        base,
        ift.as_ref().map(encode_table).as_deref(),
        sc.iftx.as_ref().map(encode_table).as_deref(),
    );
    let init = State {
        font,
        ift,
        iftx: sc.iftx.clone(),
        book: BTreeMap::new(),
        depth: 0,
        path: vec![],
    };
    let mut seen: HashSet<u64> = HashSet::new();
    seen.insert(key(&init));
    let mut queue = VecDeque::from([init]);
    let (mut states, mut transitions, mut max_depth) = (1u64, 0u64, 0usize);
    while let Some(st) = queue.pop_front() {
        for (di, sd) in sds.iter().enumerate() {
            transitions += 1;
            local.evals += 1;
            let mut path = st.path.clone();
            path.push(di);
            let case = || json!({"kind":"ext","scenario": sc, "path": path});
            // ---- select
            let sel = guard(|| {
                let fr = FontRef::new(&st.font).map_err(|e| format!("font: {e}"))?;
                let g = PatchGroup::select_next_patches(fr, sd).map_err(|e| format!("{e}"))?;
                let uris: Vec<String> = g.uris().map(|s| s.to_string()).collect();
                Ok::<_, String>((g, uris))
            });
            let (group, uris) = match sel {
                Err(p) => {
                    ctx.run.violation(&format!("extension run: select panics: {} at {}", p.kind(), p.site()), &p.message, case());
                    continue;
                }
                Ok(Err(e)) => {
                    if std::env::var("C19_DEBUG").is_ok() {
                        eprintln!("select err: {e}");
                    }
                    local.all.insert(digest_of(&("ext-select-err", di)));
                    continue; // an error ends the run
                }
                Ok(Ok(x)) => x,
            };
            if uris.is_empty() {
                continue; // fixpoint for this definition
            }
            // ---- fetch
            let mut map: HashMap<String, UriStatus> = HashMap::new();
            for (u, applied) in &st.book {
                if *applied {
                    map.insert(u.clone(), UriStatus::Applied);
                } else if let Some((bytes, _)) = store(sc, &st.ift, &st.iftx, u) {
                    map.insert(u.clone(), UriStatus::Pending(bytes));
                }
            }
            let mut fmt_of: BTreeMap<String, u8> = BTreeMap::new();
            let mut missing = false;
            for u in &uris {
                match store(sc, &st.ift, &st.iftx, u) {
                    Some((bytes, f)) => {
                        fmt_of.insert(u.clone(), f);
                        map.entry(u.clone()).or_insert(UriStatus::Pending(bytes));
                    }
                    None => missing = true,
                }
            }
            if missing {
                ctx.run.violation(
                    "extension run: selected URI is not a live entry of the current mapping tables",
                    &format!("{uris:?}"),
                    case(),
                );
                continue;
            }
            let before: BTreeMap<String, bool> = map.iter().map(|(k, v)| (k.clone(), *v == UriStatus::Applied)).collect();
            // ---- apply
            let res = guard(|| group.apply_next_patches_with_decoder(&mut map, &NoopBrotliDecoder));
            let after: BTreeMap<String, bool> = map.iter().map(|(k, v)| (k.clone(), *v == UriStatus::Applied)).collect();
            let res = match res {
                Err(p) => {
                    ctx.run.violation(&format!("extension run: apply panics: {} at {}", p.kind(), p.site()), &p.message, case());
                    continue;
                }
                Ok(r) => r,
            };
            let mut h = Fnv::new();
            h.str("ext");
            h.u64(sc.consistent_store as u64);
            match res {
                Err(e) => {
                    if std::env::var("C19_DEBUG").is_ok() {
                        eprintln!("apply err: {e:?} uris={uris:?}");
                    }
                    if before != after {
                        ctx.run.violation(
                            "extension run: bookkeeping changed although the round failed",
                            &format!("{e:?}"),
                            case(),
                        );
                    }
                    if sc.consistent_store && all_glyph_keyed {
                        ctx.run.violation(
                            "extension run: a round fails although every entry is glyph keyed and the store supplied consistent data for every selected URI",
                            &format!("{e:?} group {uris:?}"),
                            case(),
                        );
                    }
                    h.str("err");
                    h.str(&format!("{e:?}").chars().take(24).collect::<String>());
                    local.all.insert(h.finish());
                }
                Ok(new_font) => {
                    let newly: Vec<String> = after
                        .iter()
                        .filter(|(k, v)| **v && before.get(*k) != Some(&true))
                        .map(|(k, _)| k.clone())
                        .collect();
                    if newly.is_empty() {
                        ctx.run.violation(
                            "extension run: a successful round applied no URI that was not applied before",
                            &format!("group {uris:?} book {:?}", before),
                            case(),
                        );
                        continue;
                    }
                    if after.iter().any(|(k, v)| !newly.contains(k) && before.get(k) != Some(v)) {
                        ctx.run.violation(
                            "extension run: bookkeeping changed for URIs that were not applied",
                            &format!("before {:?} after {:?}", before, after),
                            case(),
                        );
                        continue;
                    }
                    // models after this round
                    let (mut a, mut b) = (st.ift.clone(), st.iftx.clone());
                    for u in &newly {
                        'find: for ti in 0..2 {
                            let t = if ti == 0 { &a } else { &b };
                            let Some(t) = t else { continue };
                            for (pos, uu, fmt) in live_entries(t) {
                                if &uu == u {
                                    if fmt == 3 {
                                        retire(if ti == 0 { a.as_mut().unwrap() } else { b.as_mut().unwrap() }, pos);
                                    } else if sc.consistent_store {
                                        let (na, nb) = next_tables(&a, &b, ti, pos, fmt);
                                        a = na;
                                        b = nb;
                                    }
                                    break 'find;
                                }
                            }
                        }
                    }
                    // the mapping tables in the real result must be exactly those
                    let ok_tables = FontRef::new(&new_font)
                        .ok()
                        .map(|f| {
                            let get = |t: &[u8; 4]| f.table_data(Tag::new(t)).map(|d| d.as_bytes().to_vec());
                            get(b"IFT ") == a.as_ref().map(encode_table) && get(b"IFTX") == b.as_ref().map(encode_table)
                        })
                        .unwrap_or(false);
                    if !ok_tables {
                        ctx.run.violation(
                            "extension run: mapping tables after a successful round are not 'applied entries retired'",
                            &format!("applied {newly:?}"),
                            case(),
                        );
                        continue;
                    }
                    h.str("ok");
                    if newly.iter().any(|u| fmt_of.get(u) == Some(&3)) {
                        local.ext_gk_rounds += 1;
                    } else {
                        local.ext_tk_rounds += 1;
                    }
                    for u in &newly {
                        h.str(u);
                        h.byte(fmt_of.get(u).copied().unwrap_or(0));
                    }
                    h.u64(st.depth as u64);
                    let dg = h.finish();
                    local.all.insert(dg);
                    local.nontrivial.insert(dg);
                    let next = State {
                        font: new_font,
                        ift: a,
                        iftx: b,
                        book: after,
                        depth: st.depth + 1,
                        path: path.clone(),
                    };
                    max_depth = max_depth.max(next.depth);
                    if next.depth > horizon {
                        ctx.run.violation(
                            "extension run: path longer than the horizon (#entries + 2)",
                            &format!("depth {}", next.depth),
                            case(),
                        );
                        continue;
                    }
                    if seen.insert(key(&next)) {
                        states += 1;
                        queue.push_back(next);
                    }
                }
            }
        }
    }
    (states, transitions, max_depth)
}

fn scenarios(thorough: bool) -> Vec<ExtScenario> {
    let e = |cps: &[u32], f: u8, children: Option<(bool, Vec<u32>)>| {
        let mut x = E2::plain();
        x.cps = Cps::Set { bias_kind: 0, bias: 0, members: cps.to_vec() };
        x.patch_format = Some(f);
        x.children = children;
        x
    };
    let mut out = vec![];
    let iftx_opts: Vec<Option<TableModel>> = {
        let mut v: Vec<Option<TableModel>> = vec![None];
        for (f0, f1) in [(3u8, 3u8), (2, 3), (3, 2), (2, 2), (1, 3)] {
            let mut t = t2_of(vec![e(&[A], f0, None), e(&[B], f1, None)]);
            t.template = b"q/{id}".to_vec();
            t.compat = [9, 9, 9, 9];
            v.push(Some(TableModel::F2(t)));
        }
        // format 1 glyph keyed IFTX
        v.push(Some(TableModel::F1(T1 {
            compat: [9, 9, 9, 9],
            max_entry_index: 2,
            max_glyph_map_entry_index: 2,
            glyph_count: 6,
            first_mapped_glyph: 1,
            entry_index: vec![1, 2, 1, 0, 0],
            feature_map: None,
            applied: vec![0],
            template: b"q/{id}".to_vec(),
            patch_format: 3,
            cff_off: None,
            cff2_off: None,
        })));
        v
    };
    let formats: Vec<[u8; 3]> = {
        let mut v = vec![];
        for a in [1u8, 2, 3] {
            for b in [1u8, 2, 3] {
                for c in [1u8, 2, 3] {
                    v.push([a, b, c]);
                }
            }
        }
        v
    };
    for f in &formats {
        for child in [None, Some((false, vec![0u32, 1])), Some((true, vec![0, 1]))] {
            if child.is_some() && !thorough && f[2] == 1 {
                continue;
            }
            let t = t2_of(vec![e(&[A], f[0], None), e(&[B], f[1], None), e(&[A, B], f[2], child.clone())]);
            for x in &iftx_opts {
                for consistent_store in [true, false] {
                    if !consistent_store && f.iter().all(|v| *v == 3) && x.is_none() {
                        continue;
                    }
                    out.push(ExtScenario {
                        ift: TableModel::F2(t.clone()),
                        iftx: x.clone(),
                        consistent_store,
                    });
                }
            }
        }
    }
    // string ids that differ only by NUL bytes (glyph keyed): every entry must end up applied
    for g in crate::extra::nul_id_groups() {
        let mut t = crate::extra::t2_with_string_ids(b"p/{id}", &g);
        for (i, x) in t.entries.iter_mut().enumerate() {
            x.cps = Cps::Set { bias_kind: 0, bias: 0, members: if i % 2 == 0 { vec![A] } else { vec![B] } };
            x.patch_format = Some(3);
        }
        for x in &iftx_opts[..2] {
            out.push(ExtScenario { ift: TableModel::F2(t.clone()), iftx: x.clone(), consistent_store: true });
        }
    }
    // format-1 IFT (glyph keyed, feature map) with the IFTX options
    for x in &iftx_opts {
        out.push(ExtScenario {
            ift: TableModel::F1(T1 {
                compat: [1, 2, 3, 4],
                max_entry_index: 4,
                max_glyph_map_entry_index: 3,
                glyph_count: 6,
                first_mapped_glyph: 1,
                entry_index: vec![1, 2, 3, 1, 0],
                feature_map: Some(vec![FRec { tag: LIGA, first_new: 4, maps: vec![(1, 2)] }]),
                applied: vec![0],
                template: b"p/{id}".to_vec(),
                patch_format: 3,
                cff_off: None,
                cff2_off: None,
            }),
            iftx: x.clone(),
            consistent_store: true,
        });
    }
    // (audit) glyph keyed format-2 entries of very different encoded sizes (features + design space,
    // u24 bias, child list + id delta, branch-factor-32 bit set): the ignored-bit position of every
    // entry depends on the byte lengths of all entries before it
    {
        let mut e0 = e(&[A], 3, None);
        e0.fds = true;
        e0.features = vec![LIGA];
        e0.segs = vec![seg(WGHT, 100, 400), seg(WDTH, 75, 100)];
        let mut e1 = e(&[A], 3, None);
        e1.cps = Cps::Set { bias_kind: 2, bias: 0x40, members: vec![A] };
        let mut e2 = e(&[B], 3, Some((false, vec![0])));
        e2.id = IdSpec::Delta(3);
        let mut e3 = e(&[B], 3, None);
        let vals: BTreeSet<u64> = [2u64].into_iter().collect();
        e3.cps = Cps::Raw { bias_kind: 1, bias: 0x40, bytes: sbs_encode(32, 1, &vals, true), members: vec![B], invalid: false };
        let e4 = e(&[A, B], 3, None);
        for order in [[0usize, 1, 2, 3, 4], [3, 1, 0, 4, 2], [1, 3, 4, 0, 2]] {
            let all = [e0.clone(), e1.clone(), e2.clone(), e3.clone(), e4.clone()];
            let mut entries: Vec<E2> = order.iter().map(|k| all[*k].clone()).collect();
            // the child list may only name earlier entries
            for (i, x) in entries.iter_mut().enumerate() {
                if x.children.is_some() {
                    x.children = if i == 0 { None } else { Some((false, vec![0])) };
                }
            }
            for x in &iftx_opts[..2] {
                out.push(ExtScenario { ift: TableModel::F2(t2_of(entries.clone())), iftx: x.clone(), consistent_store: true });
            }
        }
    }
    // (audit) format-1 glyph keyed table whose applied-entries bitmap is three bytes long: entries 7, 8, 9,
    // 16, 17 sit on both sides of the byte boundaries
    for (entry_index, max) in [(vec![7u16, 8, 9, 16, 17], 17u16), (vec![15, 16, 8, 1, 23], 23)] {
        out.push(ExtScenario {
            ift: TableModel::F1(T1 {
                compat: [1, 2, 3, 4],
                max_entry_index: max,
                max_glyph_map_entry_index: max,
                glyph_count: 6,
                first_mapped_glyph: 1,
                entry_index,
                feature_map: None,
                applied: vec![0; bitmap_len(max)],
                template: b"p/{id}".to_vec(),
                patch_format: 3,
                cff_off: None,
                cff2_off: None,
            }),
            iftx: None,
            consistent_store: true,
        });
    }
    out
}

fn ext_defs() -> Vec<Def> {
    let mut v: Vec<Def> = [vec![A], vec![B], vec![A, B]]
        .into_iter()
        .map(|c| Def { cps: DCps::Set(c), feats: DFeat::Set(vec![]), ds: DDs::Ranges(vec![]) })
        .collect();
    v.push(Def { cps: DCps::Set(vec![A, B, C]), feats: DFeat::Set(vec![LIGA]), ds: DDs::Ranges(vec![]) });
    v
}

pub fn run_ext(ctx: &Ctx, base: &BaseTables) {
    let run = ctx.run;
    let scs = scenarios(run.tier == Tier::Thorough);
    let defs = ext_defs();
    let sds: Vec<_> = defs.iter().map(to_subset_definition).collect();
    run.bound("ext_scenarios", json!(scs.len()));
    run.bound("ext_definitions_per_state", json!(defs.len()));
    let totals = Mutex::new((0u64, 0u64, 0usize));
    let (scs_r, defs_r, sds_r) = (&scs, &defs, &sds);
    par_for(scs.len(), |i| {
        let mut l = Local::default();
        let (s, t, d) = explore(ctx, base, &scs_r[i], defs_r, sds_r, &mut l);
        let mut g = totals.lock().unwrap();
        g.0 += s;
        g.1 += t;
        g.2 = g.2.max(d);
        drop(g);
        ctx.merge(l);
    });
    let g = totals.lock().unwrap();
    run.count("ext_states", g.0);
    run.count("ext_transitions", g.1);
    run.extra("ext_max_depth", json!(g.2));
    // determinism: the first scenarios explored twice give the same counts
    let mut l = Local::default();
    for sc in scs.iter().take(4) {
        let a = explore(ctx, base, sc, &defs, &sds, &mut l);
        let b = explore(ctx, base, sc, &defs, &sds, &mut l);
        if a != b {
            run.machinery_error("extension search is not deterministic");
        }
    }
    run.sample(json!({"space":"ext","scenario": scs[scs.len() / 2], "definitions": defs}));
}

pub fn replay(run: &Run, base: &BaseTables, case: &Value) {
    let sc: ExtScenario = serde_json::from_value(case["scenario"].clone()).expect("scenario");
    let ctx = Ctx { run, sink: Mutex::new(Local::default()) };
    let defs = ext_defs();
    let sds: Vec<_> = defs.iter().map(to_subset_definition).collect();
    let mut l = Local::default();
    let r = explore(&ctx, base, &sc, &defs, &sds, &mut l);
    println!("replayed extension scenario: states={} transitions={} max_depth={}", r.0, r.1, r.2);
}
