//! Part 3: rules on the group returned by `PatchGroup::select_next_patches`.
//!
//! The candidates are recomputed by the reference (`ref_tables`, already compared with
//! `intersecting_patches` in parts 1/2); a group is accepted iff its URIs can be attributed to
//! candidates such that: no URI twice; every URI is a candidate's; a fully invalidating patch is
//! alone; at most one invalidating patch per mapping table; every invalidating choice is maximal by
//! intersection size with the earliest entry on ties (within its table; across tables an equal
//! size is a tie either way).

use crate::model::*;
use crate::*;
use incremental_font_transfer::patch_group::PatchGroup;

pub fn better(a: &RefPatch, b: &RefPatch) -> bool {
    match a.info.size_cmp(&b.info) {
        std::cmp::Ordering::Greater => true,
        std::cmp::Ordering::Equal => a.table == b.table && a.order < b.order,
        std::cmp::Ordering::Less => false,
    }
}

/// Ok, or (rule broken, detail)
pub fn check_group(cands: &[RefPatch], group: &[String]) -> Result<(), (String, String)> {
    for (i, u) in group.iter().enumerate() {
        if group[..i].contains(u) {
            return Err(("the same URI twice".into(), u.clone()));
        }
        if !cands.iter().any(|c| &c.uri == u) {
            return Err(("a URI that no intersecting un-applied entry has".into(), u.clone()));
        }
    }
    // all attributions group uri -> candidate index
    let options: Vec<Vec<usize>> = group
        .iter()
        .map(|u| (0..cands.len()).filter(|i| &cands[*i].uri == u).collect())
        .collect();
    let mut first_failure: Option<(String, String)> = None;
    let mut idx = vec![0usize; group.len()];
    loop {
        let att: Vec<&RefPatch> = idx.iter().enumerate().map(|(g, k)| &cands[options[g][*k]]).collect();
        match attribution_ok(cands, group, &att) {
            Ok(()) => return Ok(()),
            Err(e) => {
                if first_failure.is_none() {
                    first_failure = Some(e);
                }
            }
        }
        // next attribution
        let mut p = 0;
        loop {
            if p == idx.len() {
                return match first_failure {
                    Some(e) => Err(e),
                    None => Ok(()), // empty group
                };
            }
            idx[p] += 1;
            if idx[p] < options[p].len() {
                break;
            }
            idx[p] = 0;
            p += 1;
        }
    }
}

fn attribution_ok(cands: &[RefPatch], group: &[String], att: &[&RefPatch]) -> Result<(), (String, String)> {
    let fulls: Vec<&&RefPatch> = att.iter().filter(|c| c.format == 1).collect();
    if !fulls.is_empty() && att.len() != 1 {
        return Err((
            "other patches alongside a fully invalidating one".into(),
            format!("{:?}", group),
        ));
    }
    for table in [0u8, 1] {
        let n = att.iter().filter(|c| c.format == 2 && c.table == table).count();
        if n > 1 {
            return Err((
                "more than one invalidating patch for one mapping table".into(),
                format!("{:?}", group),
            ));
        }
    }
    for c in att.iter().filter(|c| c.format != 3) {
        let rivals = cands.iter().filter(|r| {
            r.format == c.format
                && (c.format == 1 || r.table == c.table)
                && (r.uri == c.uri || !group.contains(&r.uri))
        });
        for r in rivals {
            if better(r, c) {
                return Err((
                    if r.info.size_cmp(&c.info) == std::cmp::Ordering::Equal {
                        "invalidating choice is not the earliest entry among equal intersections".into()
                    } else {
                        "invalidating choice is not the one with the largest intersection".into()
                    },
                    format!("chosen {:?}; better {:?}", c, r),
                ));
            }
        }
    }
    Ok(())
}

#[derive(Clone, serde::Serialize, serde::Deserialize)]
pub struct GroupCase {
    pub ift: Option<TableModel>,
    pub iftx: Option<TableModel>,
    pub def: Def,
    /// the font is the format-12 cmap fixture (extra::base_tables_cmap12)
    #[serde(default)]
    pub cmap12: bool,
}

pub fn run_one(ctx: &Ctx, base: &BaseTables, gc: &GroupCase, sd: &SubsetDefinition, local: &mut Local) {
    let ift_b = gc.ift.as_ref().map(encode_table);
    let iftx_b = gc.iftx.as_ref().map(encode_table);
    let font = wrap_font(base, ift_b.as_deref(), iftx_b.as_deref());
    let case = || json!({"kind":"group","group": gc});
    local.evals += 1;
    let r = guard(|| {
        let fr = FontRef::new(&font).map_err(|e| format!("font: {e}"))?;
        let g = PatchGroup::select_next_patches(fr, sd).map_err(|e| format!("{e}"))?;
        let uris: Vec<String> = g.uris().map(|s| s.to_string()).collect();
        Ok::<_, String>((uris, g.has_uris()))
    });
    let sig = format!("{} {}", table_sig(gc.ift.as_ref()), table_sig(gc.iftx.as_ref()));
    let cands = match ref_tables(&base.cmap, base.num_glyphs, gc.ift.as_ref(), gc.iftx.as_ref(), &gc.def) {
        Ok(c) => c,
        Err(_) => return, // malformed tables are not part of this space
    };
    let compat_of = |t: &Option<TableModel>| {
        t.as_ref().map(|t| match t {
            TableModel::F1(t) => t.compat,
            TableModel::F2(t) => t.compat,
        })
    };
    let same_compat = compat_of(&gc.ift) == compat_of(&gc.iftx);
    let mut h = Fnv::new();
    h.str("group");
    match r {
        Err(p) => {
            ctx.run.violation(
                &format!("select_next_patches panics: {} at {}", p.kind(), p.site()),
                &p.message,
                case(),
            );
        }
        Ok(Err(e)) => {
            h.str("err");
            if !same_compat {
                ctx.run.violation(
                    &format!("select_next_patches fails on well-formed mapping tables with distinct compatibility ids: {sig}"),
                    &e,
                    case(),
                );
            }
        }
        Ok(Ok((uris, has))) => {
            if has != !uris.is_empty() {
                ctx.run.violation("PatchGroup::has_uris disagrees with uris()", &format!("{uris:?}"), case());
            }
            if let Err((rule, detail)) = check_group(&cands, &uris) {
                ctx.run.violation(
                    &format!("select_next_patches group contains {rule}"),
                    &format!("{sig}: group={uris:?} candidates={cands:?} :: {detail}"),
                    case(),
                );
            }
            // when nothing invalidating is offered every glyph keyed candidate can be applied together:
            // the group must then carry every distinct candidate URI (entries must not be merged or lost)
            if cands.iter().all(|c| c.format == 3) {
                let mut want: Vec<&String> = cands.iter().map(|c| &c.uri).collect();
                want.sort();
                want.dedup();
                let mut got: Vec<&String> = uris.iter().collect();
                got.sort();
                if got != want {
                    ctx.run.violation(
                        "select_next_patches group omits an intersecting glyph keyed patch although nothing invalidating is offered",
                        &format!("{sig}: group={uris:?} candidate URIs={want:?}"),
                        case(),
                    );
                }
            }
            for u in &uris {
                h.str(u);
            }
            h.u64(cands.iter().filter(|c| c.format == 1).count() as u64);
            h.u64(cands.iter().filter(|c| c.format == 2).count() as u64);
            h.u64(cands.len() as u64);
            if !uris.is_empty() {
                local.nontrivial.insert(h.finish());
            }
        }
    }
    local.all.insert(h.finish());
}

fn entry(cps: &[u32], format: u8) -> E2 {
    let mut e = E2::plain();
    e.cps = Cps::Set {
        bias_kind: 0,
        bias: 0,
        members: cps.to_vec(),
    };
    e.patch_format = Some(format);
    e
}

/// one- and two-entry format-2 tables over cps {A},{A,B},{B} x formats {1,2,3}; second entry optionally
/// re-using the first entry's id (same URI twice inside one table)
fn small_tables(template: &[u8], compat: [u32; 4]) -> Vec<T2> {
    let cps: [&[u32]; 3] = [&[A], &[A, B], &[B]];
    let mut singles = vec![];
    for c in cps {
        for f in [1u8, 2, 3] {
            singles.push(entry(c, f));
        }
    }
    let mut out = vec![];
    let mk = |entries: Vec<E2>| {
        let mut t = t2_of(entries);
        t.template = template.to_vec();
        t.compat = compat;
        t
    };
    for a in &singles {
        out.push(mk(vec![a.clone()]));
        for b in &singles {
            out.push(mk(vec![a.clone(), b.clone()]));
            let mut b2 = b.clone();
            b2.id = IdSpec::Delta(-1);
            out.push(mk(vec![a.clone(), b2]));
        }
    }
    out
}

pub fn run_groups(ctx: &Ctx, base: &BaseTables) {
    let run = ctx.run;
    let thorough = run.tier == Tier::Thorough;
    let defs: Vec<Def> = [vec![A], vec![B], vec![A, B]]
        .into_iter()
        .map(|c| Def {
            cps: DCps::Set(c),
            feats: DFeat::Set(vec![]),
            ds: DDs::Ranges(vec![]),
        })
        .chain([Def {
            cps: DCps::AllExcept(vec![]),
            feats: DFeat::All,
            ds: DDs::All,
        }])
        .collect();
    let sds: Vec<_> = defs.iter().map(to_subset_definition).collect();
    let c1 = [1u32, 2, 3, 4];
    let c2 = [9u32, 9, 9, 9];
    let ift_tables = small_tables(b"p/{id}", c1);
    let iftx_same = small_tables(b"p/{id}", c2);
    let iftx_other = small_tables(b"q/{id}", c2);
    let iftx_same_compat = small_tables(b"q/{id}", c1);
    run.bound("group_tables_per_side", json!(ift_tables.len()));
    run.bound("group_definitions", json!(defs.len()));
    // single table fonts
    let mut n = 0u64;
    {
        let mut l = Local::default();
        for t in &ift_tables {
            for (d, sd) in defs.iter().zip(&sds) {
                let gc = GroupCase { ift: Some(TableModel::F2(t.clone())), iftx: None, def: d.clone(), cmap12: false };
                run_one(ctx, base, &gc, sd, &mut l);
                let gc = GroupCase { ift: None, iftx: Some(TableModel::F2(t.clone())), def: d.clone(), cmap12: false };
                run_one(ctx, base, &gc, sd, &mut l);
                n += 2;
            }
        }
        ctx.merge(l);
    }
    // two table fonts: quick thins the IFTX side to every 3rd table for the "other template" family
    let step = if thorough { 1 } else { 2 };
    {
        let (ift_tables, iftx_same, iftx_other, iftx_same_compat, defs, sds) =
            (&ift_tables, &iftx_same, &iftx_other, &iftx_same_compat, &defs, &sds);
        let counter = std::sync::atomic::AtomicU64::new(0);
        par_for(ift_tables.len(), |i| {
            let mut l = Local::default();
            let mut k = 0u64;
            for (fam, tabs) in [iftx_same, iftx_other, iftx_same_compat].into_iter().enumerate() {
                for (j, x) in tabs.iter().enumerate() {
                    if fam == 1 && (i + j) % step != 0 {
                        continue;
                    }
                    if fam == 2 && (i + j) % 7 != 0 {
                        continue;
                    }
                    for (d, sd) in defs.iter().zip(sds) {
                        let gc = GroupCase {
                            ift: Some(TableModel::F2(ift_tables[i].clone())),
                            iftx: Some(TableModel::F2(x.clone())),
                            def: d.clone(),
                                cmap12: false,
                        };
                        run_one(ctx, base, &gc, sd, &mut l);
                        k += 1;
                    }
                }
            }
            counter.fetch_add(k, std::sync::atomic::Ordering::Relaxed);
            ctx.merge(l);
        });
        n += counter.load(std::sync::atomic::Ordering::Relaxed);
    }
    // IFTX as a format-1 table (formats 1,2,3), IFT format 2
    {
        let mut l = Local::default();
        for fmt in [1u8, 2, 3] {
            for entry_index in [vec![1u16, 2, 1, 0, 0], vec![2, 1, 1, 3, 0], vec![1, 1, 2, 2, 3]] {
                for applied in [0u8, 0b10] {
                    let f1 = T1 {
                        compat: c2,
                        max_entry_index: 3,
                        max_glyph_map_entry_index: 3,
                        glyph_count: 6,
                        first_mapped_glyph: 1,
                        entry_index: entry_index.clone(),
                        feature_map: None,
                        applied: vec![applied],
                        template: b"p/{id}".to_vec(),
                        patch_format: fmt,
                        cff_off: None,
                        cff2_off: None,
                    };
                    for (ti, t) in ift_tables.iter().enumerate() {
                        if !thorough && ti % 3 != 0 {
                            continue;
                        }
                        for (d, sd) in defs.iter().zip(&sds) {
                            let gc = GroupCase {
                                ift: Some(TableModel::F2(t.clone())),
                                iftx: Some(TableModel::F1(f1.clone())),
                                def: d.clone(),
                                cmap12: false,
                            };
                            run_one(ctx, base, &gc, sd, &mut l);
                            let gc = GroupCase {
                                ift: Some(TableModel::F1({
                                    let mut x = f1.clone();
                                    x.compat = c2;
                                    x
                                })),
                                iftx: Some(TableModel::F2({
                                    let mut x = t.clone();
                                    x.compat = c1;
                                    x
                                })),
                                def: d.clone(),
                                cmap12: false,
                            };
                            run_one(ctx, base, &gc, sd, &mut l);
                            n += 2;
                        }
                    }
                }
            }
        }
        ctx.merge(l);
    }
    // intersection sizes that differ only in features / design space, ties, three candidates
    {
        let shapes: Vec<E2> = {
            let mut v = vec![];
            let mk = |feats: &[TagB], segs: Vec<Seg>| {
                let mut e = entry(&[A], 2);
                e.patch_format = None;
                e.fds = true;
                e.features = feats.to_vec();
                e.segs = segs;
                e
            };
            v.push(mk(&[LIGA], vec![]));
            v.push(mk(&[LIGA, SMCP], vec![]));
            v.push(mk(&[], vec![seg(WGHT, 100, 400)]));
            v.push(mk(&[], vec![seg(WGHT, 300, 700)]));
            v.push(mk(&[], vec![seg(WGHT, 300, 700), seg(WDTH, 75, 100)]));
            let mut plain = entry(&[A, B], 2);
            plain.patch_format = None;
            v.push(plain);
            v
        };
        let defs2: Vec<Def> = {
            let mut v = vec![];
            for cps in [DCps::Set(vec![A]), DCps::Set(vec![A, B])] {
                for f in [DFeat::All, DFeat::Set(vec![LIGA]), DFeat::Set(vec![LIGA, SMCP])] {
                    for ds in [
                        DDs::All,
                        DDs::Ranges(vec![(WGHT, vec![(fx(350), fx(500))])]),
                        DDs::Ranges(vec![(WGHT, vec![(fx(400), fx(400))])]),
                        DDs::Ranges(vec![(WGHT, vec![(fx(100), fx(700))]), (WDTH, vec![(fx(80), fx(90))])]),
                    ] {
                        v.push(Def { cps: cps.clone(), feats: f.clone(), ds });
                    }
                }
            }
            v
        };
        let sds2: Vec<_> = defs2.iter().map(to_subset_definition).collect();
        let (shapes, defs2, sds2) = (&shapes, &defs2, &sds2);
        let ns = shapes.len();
        let counter = std::sync::atomic::AtomicU64::new(0);
        par_for(ns * ns * ns, |code| {
            let mut l = Local::default();
            let (a, b, c) = (code % ns, (code / ns) % ns, code / (ns * ns));
            let mut k = 0;
            for default_format in [1u8, 2] {
                for in_iftx in [false, true] {
                    let mut t = t2_of(vec![shapes[a].clone(), shapes[b].clone(), shapes[c].clone()]);
                    t.default_format = default_format;
                    for (d, sd) in defs2.iter().zip(sds2) {
                        let gc = if in_iftx {
                            GroupCase { ift: None, iftx: Some(TableModel::F2(t.clone())), def: d.clone(), cmap12: false }
                        } else {
                            GroupCase { ift: Some(TableModel::F2(t.clone())), iftx: None, def: d.clone(), cmap12: false }
                        };
                        run_one(ctx, base, &gc, sd, &mut l);
                        k += 1;
                    }
                }
            }
            counter.fetch_add(k, std::sync::atomic::Ordering::Relaxed);
            ctx.merge(l);
        });
        n += counter.load(std::sync::atomic::Ordering::Relaxed);
    }
    // string ids that differ only by NUL bytes: distinct URIs, in one table and across IFT / IFTX
    {
        let mut l = Local::default();
        let groups = crate::extra::nul_id_groups();
        for g in &groups {
            for fmts in [[3u8, 3, 3], [3, 2, 3], [2, 2, 3], [1, 3, 3]] {
                let mk = |template: &[u8], compat: [u32; 4], ids: &[&[u8]]| {
                    let mut t = crate::extra::t2_with_string_ids(template, ids);
                    t.compat = compat;
                    for (i, e) in t.entries.iter_mut().enumerate() {
                        e.patch_format = Some(fmts[i % 3]);
                        e.cps = Cps::Set { bias_kind: 0, bias: 0, members: if i % 2 == 0 { vec![A] } else { vec![A, B] } };
                    }
                    t
                };
                for (d, sd) in defs.iter().zip(&sds) {
                    let t = mk(b"p/{id}", c1, g);
                    let gc = GroupCase { ift: Some(TableModel::F2(t.clone())), iftx: None, def: d.clone(), cmap12: false };
                    run_one(ctx, base, &gc, sd, &mut l);
                    // the same ids split over both tables with one template
                    let a = mk(b"p/{id}", c1, &g[..1]);
                    let b = mk(b"p/{id}", c2, &g[1..]);
                    let gc = GroupCase { ift: Some(TableModel::F2(a)), iftx: Some(TableModel::F2(b)), def: d.clone(), cmap12: false };
                    run_one(ctx, base, &gc, sd, &mut l);
                    n += 2;
                }
            }
        }
        ctx.merge(l);
    }
    run.count("group_selections_checked", n);
    run.sample(json!({"space":"group","ift": ift_tables[40], "iftx": iftx_same[77], "definition": defs[2]}));
}

pub fn replay(run: &Run, base: &BaseTables, case: &Value) {
    let gc: GroupCase = serde_json::from_value(case["group"].clone()).expect("group case");
    let ctx = Ctx {
        run,
        sink: Mutex::new(Local::default()),
    };
    let sd = to_subset_definition(&gc.def);
    let mut l = Local::default();
    let b12 = crate::extra::base_tables_cmap12();
    run_one(&ctx, if gc.cmap12 { &b12 } else { base }, &gc, &sd, &mut l);
}
