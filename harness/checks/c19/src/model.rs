//! Harness-side model of IFT mapping tables (format 1 and format 2), byte encoders for them, and
//! the *reference* implementation of patch-map intersection the real code is compared with.
//!
//! Nothing in here calls into `incremental-font-transfer`; the only repo code used is
//! `write-fonts` (font container / cmap builder) to wrap the tables into a font.

use serde::{Deserialize, Serialize};
use std::collections::{BTreeMap, BTreeSet};

pub type TagB = [u8; 4];

pub fn tag_str(t: &TagB) -> String {
    String::from_utf8_lossy(t).to_string()
}

// ---------------------------------------------------------------------------
// big-endian byte writer
// ---------------------------------------------------------------------------

#[derive(Default)]
pub struct W(pub Vec<u8>);
impl W {
    pub fn u8(&mut self, v: u8) {
        self.0.push(v)
    }
    pub fn u16(&mut self, v: u16) {
        self.0.extend(v.to_be_bytes())
    }
    pub fn u24(&mut self, v: u32) {
        self.0.extend(&v.to_be_bytes()[1..])
    }
    pub fn i24(&mut self, v: i32) {
        self.0.extend(&v.to_be_bytes()[1..])
    }
    pub fn u32(&mut self, v: u32) {
        self.0.extend(v.to_be_bytes())
    }
    pub fn i32(&mut self, v: i32) {
        self.0.extend(v.to_be_bytes())
    }
    pub fn bytes(&mut self, b: &[u8]) {
        self.0.extend_from_slice(b)
    }
    pub fn len(&self) -> usize {
        self.0.len()
    }
    pub fn patch_u32(&mut self, at: usize, v: u32) {
        self.0[at..at + 4].copy_from_slice(&v.to_be_bytes());
    }
}

// ---------------------------------------------------------------------------
// sparse bit set encoder (branch factor 4, "all zero node = completely filled" rule)
// https://w3c.github.io/IFT/Overview.html#sparse-bit-set-decoding
// ---------------------------------------------------------------------------

pub fn sparse_bit_set_bf4(vals: &BTreeSet<u32>) -> Vec<u8> {
    if vals.is_empty() {
        return vec![0b0000_0001]; // height 0, BF code 1 (=4)
    }
    let max = *vals.iter().next_back().unwrap() as u64;
    let mut height = 1u32;
    while 4u64.pow(height) <= max {
        height += 1;
    }
    let mut nibbles: Vec<u8> = vec![];
    let mut queue: std::collections::VecDeque<(u64, u32)> = Default::default();
    queue.push_back((0, 1));
    while let Some((start, depth)) = queue.pop_front() {
        let size = 4u64.pow(height - depth + 1);
        let count = vals
            .range((start as u32)..=((start + size - 1).min(u32::MAX as u64) as u32))
            .count() as u64;
        if count == size {
            nibbles.push(0);
            continue;
        }
        let child = size / 4;
        let mut nib = 0u8;
        for c in 0..4u64 {
            let cs = start + c * child;
            let any = vals
                .range((cs as u32)..=((cs + child - 1).min(u32::MAX as u64) as u32))
                .next()
                .is_some();
            if any {
                nib |= 1 << c;
                if depth < height {
                    queue.push_back((cs, depth + 1));
                }
            }
        }
        nibbles.push(nib);
    }
    let mut out = vec![((height as u8) << 2) | 1];
    for pair in nibbles.chunks(2) {
        let lo = pair[0];
        let hi = if pair.len() > 1 { pair[1] } else { 0 };
        out.push(lo | (hi << 4));
    }
    out
}

/// From-spec sparse bit set encoder for every branch factor (2, 4, 8, 32).
/// <https://w3c.github.io/IFT/Overview.html#sparse-bit-set-decoding>: header byte = branch factor
/// code in bits 0-1 (0,1,2,3 = 2,4,8,32), tree height in bits 2-6; then the nodes in breadth first
/// order, each `bf` bits (bit i = child i present), packed least significant bit first; a node of all
/// zero bits means "every value below this node is a member". `height` may exceed the minimum.
/// `filled` = use the all-zero shortcut wherever a whole node is present (otherwise spelled out).
/// `vals` are the encoded (un-biased) values, all < bf^height.
pub fn sbs_encode(bf: u32, height: u32, vals: &BTreeSet<u64>, filled: bool) -> Vec<u8> {
    let code = match bf {
        2 => 0u8,
        4 => 1,
        8 => 2,
        _ => 3,
    };
    let mut bits: Vec<bool> = vec![];
    if height > 0 {
        let mut queue: std::collections::VecDeque<(u64, u32)> = Default::default();
        queue.push_back((0, 1));
        while let Some((start, depth)) = queue.pop_front() {
            let size = (bf as u64).pow(height - depth + 1);
            let count = vals.range(start..start + size).count() as u64;
            if filled && count == size {
                bits.extend(std::iter::repeat(false).take(bf as usize));
                continue;
            }
            let child = size / bf as u64;
            for c in 0..bf as u64 {
                let cs = start + c * child;
                let any = vals.range(cs..cs + child).next().is_some();
                bits.push(any);
                if any && depth < height {
                    queue.push_back((cs, depth + 1));
                }
            }
        }
    }
    let mut out = vec![((height as u8) << 2) | code];
    for chunk in bits.chunks(8) {
        let mut b = 0u8;
        for (i, x) in chunk.iter().enumerate() {
            if *x {
                b |= 1 << i;
            }
        }
        out.push(b);
    }
    out
}

// ---------------------------------------------------------------------------
// URI template expansion for the subset of templates the harness uses: literal ASCII bytes that are
// copied verbatim plus the `{id}` variable (base32hex, no padding, of the minimal big-endian id).
// ---------------------------------------------------------------------------

pub fn base32hex(bytes: &[u8]) -> String {
    const A: &[u8; 32] = b"0123456789ABCDEFGHIJKLMNOPQRSTUV";
    let mut out = String::new();
    let mut acc: u32 = 0;
    let mut bits = 0u32;
    for b in bytes {
        acc = ((acc << 8) | *b as u32) & 0xFFFF;
        bits += 8;
        while bits >= 5 {
            out.push(A[((acc >> (bits - 5)) & 31) as usize] as char);
            bits -= 5;
        }
    }
    if bits > 0 {
        out.push(A[((acc << (5 - bits)) & 31) as usize] as char);
    }
    out
}

#[derive(Clone, Debug, PartialEq, Eq, Hash, Serialize, Deserialize, PartialOrd, Ord)]
pub enum Id {
    Num(u32),
    Str(Vec<u8>),
}

pub const URI_ERR: &str = "<uri-template-error>";

pub fn base64url_padded(bytes: &[u8]) -> String {
    const A: &[u8; 64] = b"ABCDEFGHIJKLMNOPQRSTUVWXYZabcdefghijklmnopqrstuvwxyz0123456789-_";
    let mut out = String::new();
    for c in bytes.chunks(3) {
        let v = (c[0] as u32) << 16 | (*c.get(1).unwrap_or(&0) as u32) << 8 | *c.get(2).unwrap_or(&0) as u32;
        out.push(A[(v >> 18) as usize & 63] as char);
        out.push(A[(v >> 12) as usize & 63] as char);
        out.push(if c.len() > 1 { A[(v >> 6) as usize & 63] as char } else { '=' });
        out.push(if c.len() > 2 { A[v as usize & 63] as char } else { '=' });
    }
    out
}

/// (value of `id`, value of `id64` already percent-encoded) for an entry id
pub fn id_values(id: &Id) -> (String, String) {
    let bytes: Vec<u8> = match id {
        Id::Num(n) => {
            let b = n.to_be_bytes();
            let skip = b.iter().take_while(|x| **x == 0).count().min(3);
            b[skip..].to_vec()
        }
        Id::Str(s) => s.clone(),
    };
    let id64: String = base64url_padded(&bytes)
        .chars()
        .map(|c| {
            if c.is_ascii_alphanumeric() || "-._~".contains(c) {
                c.to_string()
            } else {
                format!("%{:02X}", c as u32)
            }
        })
        .collect();
    (base32hex(&bytes), id64)
}

/// Reference expansion of an IFT URI template (RFC 6570 level 1 restricted to the variables id, id64,
/// d1..d4), written from the doc comments and tests of uri_templates.rs:
///  * `{name}` must be exactly one of the six variables; anything else, an unterminated expression or a
///    stray `}` is an error; dN is the N-th character of the id value counted from its end, `_` if absent;
///  * `%` must be followed by two hex digits, the triplet is copied;
///  * literal bytes allowed by RFC 6570 section 2.1 are copied when reserved/unreserved and percent
///    encoded (upper case hex) otherwise (in practice: every non-ASCII byte); all other bytes are errors.
pub fn expand_template_ref(template: &[u8], idv: &str, id64v: &str) -> Option<String> {
    let mut out = String::new();
    let mut i = 0;
    while i < template.len() {
        let b = template[i];
        match b {
            b'{' => {
                let end = template[i..].iter().position(|x| *x == b'}')? + i;
                match &template[i + 1..end] {
                    b"id" => out.push_str(idv),
                    b"id64" => out.push_str(id64v),
                    [b'd', n @ b'1'..=b'4'] => {
                        let k = (*n - b'0') as usize;
                        let c = idv.len().checked_sub(k).map(|p| idv.as_bytes()[p]).unwrap_or(b'_');
                        out.push(c as char);
                    }
                    _ => return None,
                }
                i = end + 1;
            }
            b'%' => {
                let h = template.get(i + 1..i + 3)?;
                if !h.iter().all(|x| x.is_ascii_hexdigit()) {
                    return None;
                }
                out.push('%');
                out.push(h[0] as char);
                out.push(h[1] as char);
                i += 3;
            }
            0x21 | 0x23..=0x24 | 0x26 | 0x28..=0x3B | 0x3D | 0x3F..=0x5B | 0x5D | 0x5F | 0x61..=0x7A | 0x7E => {
                out.push(b as char);
                i += 1;
            }
            0x80..=0xFF => {
                out.push_str(&format!("%{:02X}", b));
                i += 1;
            }
            _ => return None,
        }
    }
    Some(out)
}

pub fn expand_uri(template: &[u8], id: &Id) -> String {
    let (idv, id64v) = id_values(id);
    expand_template_ref(template, &idv, &id64v).unwrap_or_else(|| URI_ERR.to_string())
}

// ---------------------------------------------------------------------------
// format 2 model
// ---------------------------------------------------------------------------

#[derive(Clone, Debug, PartialEq, Eq, Hash, Serialize, Deserialize)]
pub enum Cps {
    None,
    /// bias_kind 0 = no bias field (bits 01), 1 = u16 bias (bits 10), 2 = u24 bias (bits 11);
    /// members are absolute code points (>= bias)
    Set {
        bias_kind: u8,
        bias: u32,
        members: Vec<u32>,
    },
    /// code point bits set but the sparse bit set is the explicit empty set: a single header byte
    /// (tree height 0) with branch factor code `bf_code` (0..=3 = BF 2/4/8/32)
    Empty { bias_kind: u8, bias: u32, bf_code: u8 },
    /// code point bits set; the sparse bit set bytes are given verbatim (built by `sbs_encode` for any
    /// branch factor). `members` is the reference decoding: absolute code points (encoded value + bias)
    /// that are <= 0x10FFFF. `invalid` = the bit stream is too short: the table must be rejected.
    Raw {
        bias_kind: u8,
        bias: u32,
        bytes: Vec<u8>,
        members: Vec<u32>,
        invalid: bool,
    },
}

#[derive(Clone, Debug, PartialEq, Eq, Hash, Serialize, Deserialize)]
pub struct Seg {
    pub tag: TagB,
    /// 16.16 bits
    pub start: i32,
    pub end: i32,
}

#[derive(Clone, Debug, PartialEq, Eq, Hash, Serialize, Deserialize)]
pub enum IdSpec {
    /// no ENTRY_ID_DELTA field
    Default,
    /// numeric ids: int24 delta
    Delta(i32),
    /// string ids: u16 length of the bytes taken from the string data
    StrLen(u16),
}

#[derive(Clone, Debug, PartialEq, Eq, Hash, Serialize, Deserialize)]
pub struct E2 {
    /// FEATURES_AND_DESIGN_SPACE flag present (may be present with empty lists)
    pub fds: bool,
    pub features: Vec<TagB>,
    pub segs: Vec<Seg>,
    /// CHILD_INDICES flag present: (conjunctive, indices)
    pub children: Option<(bool, Vec<u32>)>,
    pub id: IdSpec,
    pub patch_format: Option<u8>,
    pub cps: Cps,
    pub ignored: bool,
}

impl E2 {
    pub fn plain() -> E2 {
        E2 {
            fds: false,
            features: vec![],
            segs: vec![],
            children: None,
            id: IdSpec::Default,
            patch_format: None,
            cps: Cps::None,
            ignored: false,
        }
    }
}

#[derive(Clone, Debug, PartialEq, Eq, Hash, Serialize, Deserialize)]
pub struct T2 {
    pub compat: [u32; 4],
    pub default_format: u8,
    pub template: Vec<u8>,
    pub entries: Vec<E2>,
    /// Some(..) => string ids are in use (entry_id_string_data_offset non null)
    pub string_data: Option<Vec<u8>>,
    pub cff_off: Option<u32>,
    pub cff2_off: Option<u32>,
}

/// Encoded table + the byte offset of every entry (needed for the "ignored"/applied bit index).
pub struct Enc2 {
    pub bytes: Vec<u8>,
    pub entry_starts: Vec<usize>,
}

pub fn encode_t2(t: &T2) -> Enc2 {
    let mut w = W::default();
    w.u8(2);
    w.u8(0);
    w.u8(0);
    w.u8(0);
    w.u8((t.cff_off.is_some() as u8) | ((t.cff2_off.is_some() as u8) << 1));
    for c in t.compat {
        w.u32(c);
    }
    w.u8(t.default_format);
    w.u24(t.entries.len() as u32);
    let entries_off_at = w.len();
    w.u32(0);
    let strings_off_at = w.len();
    w.u32(0);
    w.u16(t.template.len() as u16);
    w.bytes(&t.template);
    if let Some(o) = t.cff_off {
        w.u32(o);
    }
    if let Some(o) = t.cff2_off {
        w.u32(o);
    }
    let eo = w.len() as u32;
    w.patch_u32(entries_off_at, eo);
    let mut entry_starts = vec![];
    for e in &t.entries {
        entry_starts.push(w.len());
        let cp_bits = match &e.cps {
            Cps::None => 0u8,
            Cps::Set { bias_kind: 0, .. } | Cps::Empty { bias_kind: 0, .. } | Cps::Raw { bias_kind: 0, .. } => 0b01,
            Cps::Set { bias_kind: 1, .. } | Cps::Empty { bias_kind: 1, .. } | Cps::Raw { bias_kind: 1, .. } => 0b10,
            Cps::Set { .. } | Cps::Empty { .. } | Cps::Raw { .. } => 0b11,
        };
        let flags = (e.fds as u8)
            | ((e.children.is_some() as u8) << 1)
            | (((e.id != IdSpec::Default) as u8) << 2)
            | ((e.patch_format.is_some() as u8) << 3)
            | (cp_bits << 4)
            | ((e.ignored as u8) << 6);
        w.u8(flags);
        if e.fds {
            w.u8(e.features.len() as u8);
            for f in &e.features {
                w.bytes(f);
            }
            w.u16(e.segs.len() as u16);
            for s in &e.segs {
                w.bytes(&s.tag);
                w.i32(s.start);
                w.i32(s.end);
            }
        }
        if let Some((conj, idx)) = &e.children {
            w.u8(((*conj as u8) << 7) | (idx.len() as u8 & 0x7f));
            for i in idx {
                w.u24(*i);
            }
        }
        match &e.id {
            IdSpec::Default => {}
            IdSpec::Delta(d) => w.i24(*d),
            IdSpec::StrLen(l) => w.u16(*l),
        }
        if let Some(f) = e.patch_format {
            w.u8(f);
        }
        if let Cps::Set {
            bias_kind,
            bias,
            members,
        } = &e.cps
        {
            match bias_kind {
                0 => {}
                1 => w.u16(*bias as u16),
                _ => w.u24(*bias),
            }
            let b = if *bias_kind == 0 { 0 } else { *bias };
            let rel: BTreeSet<u32> = members.iter().map(|m| m - b).collect();
            w.bytes(&sparse_bit_set_bf4(&rel));
        }
        if let Cps::Empty { bias_kind, bias, bf_code } = &e.cps {
            match bias_kind {
                0 => {}
                1 => w.u16(*bias as u16),
                _ => w.u24(*bias),
            }
            w.u8(*bf_code & 3); // height 0
        }
        if let Cps::Raw { bias_kind, bias, bytes, .. } = &e.cps {
            match bias_kind {
                0 => {}
                1 => w.u16(*bias as u16),
                _ => w.u24(*bias),
            }
            w.bytes(bytes);
        }
    }
    if let Some(s) = &t.string_data {
        let so = w.len() as u32;
        w.patch_u32(strings_off_at, so);
        w.bytes(s);
    }
    Enc2 {
        bytes: w.0,
        entry_starts,
    }
}

// ---------------------------------------------------------------------------
// format 1 model
// ---------------------------------------------------------------------------

#[derive(Clone, Debug, PartialEq, Eq, Hash, Serialize, Deserialize)]
pub struct FRec {
    pub tag: TagB,
    pub first_new: u16,
    /// (first_entry_index, last_entry_index) records
    pub maps: Vec<(u16, u16)>,
}

#[derive(Clone, Debug, PartialEq, Eq, Hash, Serialize, Deserialize)]
pub struct T1 {
    pub compat: [u32; 4],
    pub max_entry_index: u16,
    pub max_glyph_map_entry_index: u16,
    pub glyph_count: u32,
    pub first_mapped_glyph: u16,
    /// entry index for gids first_mapped_glyph..glyph_count
    pub entry_index: Vec<u16>,
    pub feature_map: Option<Vec<FRec>>,
    /// applied-entries bitmap, (max_entry_index + 8) / 8 bytes
    pub applied: Vec<u8>,
    pub template: Vec<u8>,
    pub patch_format: u8,
    pub cff_off: Option<u32>,
    pub cff2_off: Option<u32>,
}

pub fn bitmap_len(max_entry_index: u16) -> usize {
    (max_entry_index as usize + 8) / 8
}

pub struct Enc1 {
    pub bytes: Vec<u8>,
    pub applied_start: usize,
}

pub fn encode_t1(t: &T1) -> Enc1 {
    let wide = t.max_entry_index >= 256;
    let mut w = W::default();
    w.u8(1);
    w.u8(0);
    w.u8(0);
    w.u8(0);
    w.u8((t.cff_off.is_some() as u8) | ((t.cff2_off.is_some() as u8) << 1));
    for c in t.compat {
        w.u32(c);
    }
    w.u16(t.max_entry_index);
    w.u16(t.max_glyph_map_entry_index);
    w.u24(t.glyph_count);
    let gm_at = w.len();
    w.u32(0);
    let fm_at = w.len();
    w.u32(0);
    let applied_start = w.len();
    assert_eq!(t.applied.len(), bitmap_len(t.max_entry_index));
    w.bytes(&t.applied);
    w.u16(t.template.len() as u16);
    w.bytes(&t.template);
    w.u8(t.patch_format);
    if let Some(o) = t.cff_off {
        w.u32(o);
    }
    if let Some(o) = t.cff2_off {
        w.u32(o);
    }
    let gm = w.len() as u32;
    w.patch_u32(gm_at, gm);
    w.u16(t.first_mapped_glyph);
    let put = |w: &mut W, v: u16| {
        if wide {
            w.u16(v)
        } else {
            w.u8(v as u8)
        }
    };
    for e in &t.entry_index {
        put(&mut w, *e);
    }
    if let Some(fm) = &t.feature_map {
        let fo = w.len() as u32;
        w.patch_u32(fm_at, fo);
        w.u16(fm.len() as u16);
        for r in fm {
            w.bytes(&r.tag);
            put(&mut w, r.first_new);
            put(&mut w, r.maps.len() as u16);
        }
        for r in fm {
            for (a, b) in &r.maps {
                put(&mut w, *a);
                put(&mut w, *b);
            }
        }
    }
    Enc1 {
        bytes: w.0,
        applied_start,
    }
}

// ---------------------------------------------------------------------------
// subset definitions (harness model)
// ---------------------------------------------------------------------------

#[derive(Clone, Debug, PartialEq, Eq, Hash, Serialize, Deserialize)]
pub enum DCps {
    Set(Vec<u32>),
    /// every code point 0..=0x10FFFF (and beyond: the real type is a u32 set) except these
    AllExcept(Vec<u32>),
}

#[derive(Clone, Debug, PartialEq, Eq, Hash, Serialize, Deserialize)]
pub enum DFeat {
    Set(Vec<TagB>),
    All,
}

#[derive(Clone, Debug, PartialEq, Eq, Hash, Serialize, Deserialize)]
pub enum DDs {
    /// per axis tag a list of closed 16.16 segments
    Ranges(Vec<(TagB, Vec<(i32, i32)>)>),
    All,
}

#[derive(Clone, Debug, PartialEq, Eq, Hash, Serialize, Deserialize)]
pub struct Def {
    pub cps: DCps,
    pub feats: DFeat,
    pub ds: DDs,
}

impl DCps {
    pub fn contains(&self, cp: u32) -> bool {
        match self {
            DCps::Set(s) => s.contains(&cp),
            DCps::AllExcept(s) => !s.contains(&cp),
        }
    }
    pub fn subset_of(&self, o: &DCps) -> bool {
        match (self, o) {
            (DCps::Set(a), DCps::Set(b)) => a.iter().all(|x| b.contains(x)),
            (DCps::Set(a), DCps::AllExcept(b)) => a.iter().all(|x| !b.contains(x)),
            (DCps::AllExcept(_), DCps::Set(_)) => false,
            (DCps::AllExcept(a), DCps::AllExcept(b)) => b.iter().all(|x| a.contains(x)),
        }
    }
}
impl DFeat {
    pub fn subset_of(&self, o: &DFeat) -> bool {
        match (self, o) {
            (_, DFeat::All) => true,
            (DFeat::All, DFeat::Set(_)) => false,
            (DFeat::Set(a), DFeat::Set(b)) => a.iter().all(|x| b.contains(x)),
        }
    }
}
impl DDs {
    pub fn subset_of(&self, o: &DDs) -> bool {
        match (self, o) {
            (_, DDs::All) => true,
            (DDs::All, DDs::Ranges(_)) => false,
            (DDs::Ranges(a), DDs::Ranges(b)) => a.iter().all(|(t, segs)| {
                segs.iter().all(|(s, e)| {
                    b.iter()
                        .filter(|(t2, _)| t2 == t)
                        .any(|(_, segs2)| segs2.iter().any(|(s2, e2)| s2 <= s && e <= e2))
                })
            }),
        }
    }
}
impl Def {
    pub fn subset_of(&self, o: &Def) -> bool {
        self.cps.subset_of(&o.cps) && self.feats.subset_of(&o.feats) && self.ds.subset_of(&o.ds)
    }
}

// ---------------------------------------------------------------------------
// reference intersection
// ---------------------------------------------------------------------------

/// Size of an intersection, ordered as the specification's invalidating-patch selection orders it:
/// more code points, then more feature tags, then larger design space (compared as a sorted
/// (tag, total length) list), then *earlier* entry.
#[derive(Clone, Debug, PartialEq, Eq, Serialize, Deserialize)]
pub struct Info {
    pub cps: u64,
    pub feats: u64,
    pub ds: Vec<(TagB, i64)>,
    pub order: u64,
}

impl Info {
    pub fn zero() -> Info {
        Info {
            cps: 0,
            feats: 0,
            ds: vec![],
            order: 0,
        }
    }
    /// comparison of the size part only (no entry order)
    pub fn size_cmp(&self, o: &Info) -> std::cmp::Ordering {
        self.cps
            .cmp(&o.cps)
            .then(self.feats.cmp(&o.feats))
            .then(self.ds.cmp(&o.ds))
    }
}

#[derive(Clone, Debug, PartialEq, Eq, Serialize, Deserialize)]
pub struct RefPatch {
    /// 0 = "IFT ", 1 = "IFTX"
    pub table: u8,
    /// entry order within its table (format 2: position; format 1: entry index)
    pub order: u64,
    pub uri: String,
    /// 1 = table keyed full invalidation, 2 = table keyed partial, 3 = glyph keyed
    pub format: u8,
    /// zero for glyph keyed patches (the real code only records it for invalidating ones)
    pub info: Info,
}

fn union_len(mut segs: Vec<(i32, i32)>) -> i64 {
    // total length of the union of closed segments
    segs.sort();
    let mut total = 0i64;
    let mut cur: Option<(i32, i32)> = None;
    for (s, e) in segs {
        match cur {
            None => cur = Some((s, e)),
            Some((cs, ce)) => {
                if s <= ce {
                    cur = Some((cs, ce.max(e)));
                } else {
                    total += ce as i64 - cs as i64;
                    cur = Some((s, e));
                }
            }
        }
    }
    if let Some((cs, ce)) = cur {
        total += ce as i64 - cs as i64;
    }
    total
}

fn e2_members(e: &E2) -> &[u32] {
    match &e.cps {
        Cps::None | Cps::Empty { .. } => &[],
        Cps::Set { members, .. } | Cps::Raw { members, .. } => members,
    }
}

/// check-entry-intersection on the entry's own subset definition (no children)
pub fn e2_own_intersects(e: &E2, d: &Def) -> bool {
    let m = e2_members(e);
    if !m.is_empty() && !m.iter().any(|c| d.cps.contains(*c)) {
        return false;
    }
    if !e.features.is_empty() {
        let ok = match &d.feats {
            DFeat::All => true,
            DFeat::Set(s) => e.features.iter().any(|f| s.contains(f)),
        };
        if !ok {
            return false;
        }
    }
    if !e.segs.is_empty() {
        let ok = match &d.ds {
            DDs::All => true,
            DDs::Ranges(r) => e.segs.iter().any(|s| {
                r.iter()
                    .filter(|(t, _)| *t == s.tag)
                    .any(|(_, ds)| ds.iter().any(|(a, b)| *a <= s.end && s.start <= *b))
            }),
        };
        if !ok {
            return false;
        }
    }
    true
}

/// entry intersection including the child rule (children refer to earlier entries only)
pub fn e2_intersects(entries: &[E2], i: usize, d: &Def) -> bool {
    let e = &entries[i];
    if !e2_own_intersects(e, d) {
        return false;
    }
    match &e.children {
        None => true,
        Some((_, idx)) if idx.is_empty() => true,
        Some((true, idx)) => idx.iter().all(|c| e2_intersects(entries, *c as usize, d)),
        Some((false, idx)) => idx.iter().any(|c| e2_intersects(entries, *c as usize, d)),
    }
}

fn e2_info(e: &E2, d: &Def, order: u64) -> Info {
    let cps = e2_members(e)
        .iter()
        .collect::<BTreeSet<_>>()
        .iter()
        .filter(|c| d.cps.contains(***c))
        .count() as u64;
    let ef: BTreeSet<&TagB> = e.features.iter().collect();
    let feats = match &d.feats {
        DFeat::All => ef.len() as u64,
        DFeat::Set(s) => ef.iter().filter(|f| s.contains(**f)).count() as u64,
    };
    let mut per_tag: BTreeMap<TagB, Vec<(i32, i32)>> = BTreeMap::new();
    for s in &e.segs {
        per_tag.entry(s.tag).or_default().push((s.start, s.end));
    }
    let mut ds = vec![];
    match &d.ds {
        DDs::All => {
            for (t, segs) in per_tag {
                ds.push((t, union_len(segs)));
            }
        }
        DDs::Ranges(r) => {
            for (t, esegs) in per_tag {
                let mut inter = vec![];
                for (dt, dsegs) in r {
                    if *dt != t {
                        continue;
                    }
                    for (a, b) in dsegs {
                        for (s, e) in &esegs {
                            let lo = *a.max(s);
                            let hi = *b.min(e);
                            if lo <= hi {
                                inter.push((lo, hi));
                            }
                        }
                    }
                }
                if !inter.is_empty() {
                    ds.push((t, union_len(inter)));
                }
            }
        }
    }
    Info {
        cps,
        feats,
        ds,
        order,
    }
}

/// ids of all entries (ignored ones included: they still advance the id)
pub fn t2_ids(t: &T2) -> Result<Vec<Id>, &'static str> {
    let mut out: Vec<Id> = vec![];
    let mut str_pos = 0usize;
    for e in &t.entries {
        let id = match &t.string_data {
            None => {
                let last = match out.last() {
                    Some(Id::Num(n)) => *n as i64,
                    _ => 0,
                };
                let delta = match e.id {
                    IdSpec::Delta(d) => d as i64,
                    IdSpec::Default => 0,
                    IdSpec::StrLen(_) => return Err("string length on numeric table"),
                };
                let v = last + 1 + delta;
                if v < 0 || v > u32::MAX as i64 {
                    return Err("id out of range");
                }
                Id::Num(v as u32)
            }
            Some(data) => match e.id {
                IdSpec::Default => match out.last() {
                    Some(Id::Str(s)) => Id::Str(s.clone()),
                    _ => Id::Str(vec![]),
                },
                IdSpec::StrLen(l) => {
                    let l = l as usize;
                    if str_pos + l > data.len() {
                        return Err("id string out of bounds");
                    }
                    let s = data[str_pos..str_pos + l].to_vec();
                    str_pos += l;
                    Id::Str(s)
                }
                IdSpec::Delta(_) => return Err("delta on string table"),
            },
        };
        out.push(id);
    }
    Ok(out)
}

/// Reference for a format-2 table. `Err` = the table must be rejected.
pub fn ref_t2(t: &T2, table: u8, d: &Def) -> Result<Vec<RefPatch>, &'static str> {
    if std::str::from_utf8(&t.template).is_err() {
        return Err("template not utf8");
    }
    if !(1..=3).contains(&t.default_format) {
        return Err("bad default format");
    }
    for (i, e) in t.entries.iter().enumerate() {
        if let Some((_, idx)) = &e.children {
            if idx.iter().any(|c| *c as usize >= i) {
                return Err("child index must be prior");
            }
        }
        if e.segs.iter().any(|s| s.start > s.end) {
            return Err("segment start > end");
        }
        if let Some(f) = e.patch_format {
            if !(1..=3).contains(&f) {
                return Err("bad entry format");
            }
        }
        if matches!(&e.cps, Cps::Raw { invalid: true, .. }) {
            return Err("sparse bit set stream too short");
        }
    }
    let ids = t2_ids(t)?;
    let mut out = vec![];
    for (i, e) in t.entries.iter().enumerate() {
        if e.ignored || !e2_intersects(&t.entries, i, d) {
            continue;
        }
        let format = e.patch_format.unwrap_or(t.default_format);
        out.push(RefPatch {
            table,
            order: i as u64,
            uri: expand_uri(&t.template, &ids[i]),
            format,
            info: if format == 3 {
                Info::zero()
            } else {
                e2_info(e, d, i as u64)
            },
        });
    }
    Ok(out)
}

/// Reference for a format-1 table against a font with `num_glyphs` glyphs and code point -> gid map `cmap`.
pub fn ref_t1(
    t: &T1,
    table: u8,
    num_glyphs: u32,
    cmap: &BTreeMap<u32, u32>,
    d: &Def,
) -> Result<Vec<RefPatch>, &'static str> {
    if t.glyph_count != num_glyphs {
        return Err("glyph count mismatch");
    }
    if t.max_glyph_map_entry_index > t.max_entry_index {
        return Err("max glyph map entry index > max entry index");
    }
    if std::str::from_utf8(&t.template).is_err() {
        return Err("template not utf8");
    }
    if !(1..=3).contains(&t.patch_format) {
        return Err("bad format");
    }
    let record = t.patch_format != 3;
    // matched entry -> (code points, feature tags) that led to it
    let mut matched: BTreeMap<u16, (BTreeSet<u32>, BTreeSet<TagB>)> = BTreeMap::new();
    for (cp, gid) in cmap {
        if !d.cps.contains(*cp) {
            continue;
        }
        let entry = if *gid < t.first_mapped_glyph as u32 {
            0
        } else {
            match t.entry_index.get((*gid - t.first_mapped_glyph as u32) as usize) {
                Some(e) => *e,
                None => return Err("glyph map too short"),
            }
        };
        if entry > t.max_glyph_map_entry_index {
            continue;
        }
        matched.entry(entry).or_default().0.insert(*cp);
    }
    if let Some(fm) = &t.feature_map {
        let mut largest: Option<TagB> = None;
        for r in fm {
            // records must be sorted by tag; one that is not larger than every earlier accepted one is ignored
            if let Some(l) = largest {
                if r.tag <= l {
                    continue;
                }
            }
            largest = Some(r.tag);
            let wanted = match &d.feats {
                DFeat::All => true,
                DFeat::Set(s) => s.contains(&r.tag),
            };
            if !wanted {
                continue;
            }
            for (i, (first, last)) in r.maps.iter().enumerate() {
                let mapped = r.first_new as u32 + i as u32;
                if first > last
                    || *first > t.max_glyph_map_entry_index
                    || *last > t.max_glyph_map_entry_index
                    || mapped <= t.max_glyph_map_entry_index as u32
                    || mapped > t.max_entry_index as u32
                {
                    continue;
                }
                let mut cps = BTreeSet::new();
                let mut tags = BTreeSet::new();
                let mut any = false;
                for (_, (c, f)) in matched.range(*first..=*last) {
                    any = true;
                    cps.extend(c.iter().copied());
                    tags.extend(f.iter().copied());
                }
                if any {
                    tags.insert(r.tag);
                    let m = matched.entry(mapped as u16).or_default();
                    m.0.extend(cps);
                    m.1.extend(tags);
                }
            }
        }
    }
    let mut out = vec![];
    for (idx, (cps, tags)) in matched {
        if idx == 0 {
            continue;
        }
        let applied = t
            .applied
            .get(idx as usize / 8)
            .map(|b| b & (1 << (idx % 8)) != 0)
            .unwrap_or(false);
        if applied {
            continue;
        }
        out.push(RefPatch {
            table,
            order: idx as u64,
            uri: expand_uri(&t.template, &Id::Num(idx as u32)),
            format: t.patch_format,
            info: if record {
                Info {
                    cps: cps.len() as u64,
                    feats: tags.len() as u64,
                    ds: vec![],
                    order: idx as u64,
                }
            } else {
                Info::zero()
            },
        });
    }
    Ok(out)
}
