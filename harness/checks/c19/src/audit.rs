//! Coverage-gap audit families (see AUDIT.md). Every space is a fixed nested loop; nothing sampled.
//!
//!   sbs       : format-2 entries whose code point set is a hand-encoded sparse bit set of EVERY branch
//!               factor (2, 4, 8, 32), with filled (all-zero) nodes at leaf / interior / root level,
//!               non-minimal and maximal tree heights, u16 / u24 bias fields, and encoded values that
//!               land beyond U+10FFFF after the bias (ignored by the decoder, which must still consume
//!               exactly the stream so that the FOLLOWING entry is parsed from the right byte)
//!   segorder  : one entry's design-space segments on one axis in every insertion order (overlapping,
//!               touching, bridging, contained, point segments): membership by point definitions and
//!               size by competing against the same segments in canonical order (must tie)
//!   f1groups  : invalidating (format 1 / 2) FORMAT-1 tables with feature maps: selection by the merged
//!               intersection (code points + feature tags), entry index as the order
//!   children  : child lists of 63 / 64 / 65 / 127 entries (7-bit count field) and child indices >= 256
//!   cff       : CFF / CFF2 charstrings offset fields present in both table formats

use crate::model::*;
use crate::*;

fn plain_def(cps: DCps) -> Def {
    Def { cps, feats: DFeat::Set(vec![]), ds: DDs::Ranges(vec![]) }
}

fn all_def() -> Def {
    Def { cps: DCps::AllExcept(vec![]), feats: DFeat::All, ds: DDs::All }
}

// ---------------------------------------------------------------------------
// gate: the harness sparse bit set encoder reproduces the repository's own encoder test vectors
// (read-fonts sparse_bit_set.rs tests: spec examples 2 and 4, encode_* tests)
// ---------------------------------------------------------------------------

pub fn gate_sbs(run: &Run) -> bool {
    let set = |v: &[u64]| v.iter().copied().collect::<BTreeSet<u64>>();
    let range = |a: u64, b: u64| (a..=b).collect::<BTreeSet<u64>>();
    let mut four = range(64, 127);
    four.extend(512..=1023);
    four.insert(4000);
    let vectors: Vec<(u32, u32, BTreeSet<u64>, Vec<u8>)> = vec![
        (8, 3, set(&[2, 33, 323]), vec![0b00001110, 0b00100001, 0b00010001, 0b00000001, 0b00000100, 0b00000010, 0b00001000]),
        (4, 3, range(0, 17), vec![0b00001101, 0b0000_0011, 0b0011_0001]),
        (8, 1, set(&[2, 6]), vec![0b0_00001_10, 0b01000100]),
        (8, 1, range(0, 7), vec![0b0_00001_10, 0]),
        (8, 2, range(3, 21), vec![0b0_00010_10, 0b00000111, 0b11111000, 0b00000000, 0b00111111]),
        (4, 2, set(&[0, 4, 8, 12]), vec![0b0_00010_01, 0b0001_1111, 0b0001_0001, 0b0000_0001]),
        (8, 4, four, vec![0b0_00100_10, 0b10000011, 0b00000010, 0b00000000, 0b01000000, 0b00000000, 0b00010000, 0b00000001]),
        (32, 2, set(&[2, 31, 323]), vec![0b0_00010_11, 1, 4, 0, 0, 4, 0, 0, 0x80, 8, 0, 0, 0]),
        (2, 0, set(&[]), vec![0]),
    ];
    let mut ok = true;
    for (bf, h, vals, want) in &vectors {
        let got = sbs_encode(*bf, *h, vals, true);
        if &got != want {
            run.machinery_error(&format!("gate: harness sparse bit set encoder (bf {bf}, height {h}) got {got:?} want {want:?}"));
            ok = false;
        }
    }
    // and agrees with the fixture-gated branch-factor-4 encoder of model.rs
    for vals in [vec![0x41u32], vec![0x41, 0x42], vec![5, 0x1005], vec![0, 1, 2, 3, 9]] {
        let v32: BTreeSet<u32> = vals.iter().copied().collect();
        let v64: BTreeSet<u64> = vals.iter().map(|x| *x as u64).collect();
        let a = sparse_bit_set_bf4(&v32);
        let h = (a[0] >> 2) as u32;
        if sbs_encode(4, h, &v64, true) != a {
            run.machinery_error("gate: the two harness sparse bit set encoders disagree for branch factor 4");
            ok = false;
        }
    }
    run.count("gate_sparse_bit_set_vectors_reproduced", vectors.len() as u64);
    ok
}

// ---------------------------------------------------------------------------
// sbs
// ---------------------------------------------------------------------------

fn min_height(bf: u32, max: u64) -> u32 {
    let mut h = 1;
    while (bf as u64).pow(h) <= max {
        h += 1;
    }
    h
}

/// (label, Cps::Raw) list
fn sbs_entries() -> Vec<(String, Cps)> {
    const MAX: u64 = 0x10FFFF;
    let mut out: Vec<(String, Cps)> = vec![];
    let mut push = |label: String, bf: u32, height: Option<u32>, vals: Vec<u64>, filled: bool, bias_kind: u8, bias: u32| {
        let set: BTreeSet<u64> = vals.iter().copied().collect();
        let h = height.unwrap_or_else(|| min_height(bf, *set.iter().next_back().unwrap_or(&0)));
        let bytes = sbs_encode(bf, h, &set, filled);
        let members: Vec<u32> = set.iter().map(|v| v + bias as u64).filter(|v| *v <= MAX).map(|v| v as u32).collect();
        assert!(!members.is_empty(), "every sbs entry keeps at least one member in range");
        out.push((label, Cps::Raw { bias_kind, bias: if bias_kind == 0 { 0 } else { bias }, bytes, members, invalid: false }));
    };
    for bf in [2u32, 4, 8, 32] {
        let b = bf as u64;
        let maxh = match bf {
            2 => 31,
            4 => 16,
            8 => 11,
            _ => 7,
        };
        // plain shapes x bias fields (bias 0x41 - 1 makes value 1 the code point 'A')
        let shapes: Vec<(&str, Option<u32>, Vec<u64>, bool)> = vec![
            ("single0", None, vec![0], true),
            ("two-leaves", None, vec![1, b], true),
            ("last-of-h2", None, vec![b * b - 1], true),
            ("leaf-filled", None, std::iter::once(0).chain(b..2 * b).collect(), true),
            ("leaf-full-spelled", None, std::iter::once(0).chain(b..2 * b).collect(), false),
            ("interior-filled", None, (0..b * b).chain([b * b + 1]).collect(), true),
            ("interior-full-spelled", None, (0..b * b).chain([b * b + 1]).collect(), false),
            ("root-filled", Some(2), (0..b * b).collect(), true),
            ("extra-height", Some(3), vec![1, b], true),
            ("max-height", Some(maxh), vec![1, 5], true),
        ];
        for (name, h, vals, filled) in &shapes {
            for (bias_kind, bias) in [(0u8, 0u32), (1, 0x40), (1, 0xFFFF), (2, 0x40), (2, 0x1_0000)] {
                push(format!("bf{bf}-{name}-bias{bias_kind}"), bf, *h, vals.clone(), *filled, bias_kind, bias);
            }
        }
        // a filled interior node covering 16 384 / 32 768 values (32 / 64 bit-set pages) below a lone leaf
        let k = match bf {
            2 => 15,
            4 => 7,
            8 => 5,
            _ => 3,
        };
        let big = b.pow(k);
        push(format!("bf{bf}-big-filled"), bf, None, (0..big).chain([big + 3]).collect(), true, 1, 0x40);
        push(format!("bf{bf}-big-filled-nobias"), bf, None, (5..big + 5).collect(), true, 0, 0);
        // values beyond U+10FFFF after the bias
        let near = (MAX - 1) as u32;
        for r in 0..=5u64 {
            for extra in [false, true] {
                // value 1 -> U+10FFFF; value 2 (same leaf node, bf > 2) and values in r later leaf nodes are out of range
                let mut vals = vec![1u64];
                if extra && bf > 2 {
                    vals.push(2);
                }
                vals.extend((1..=r).map(|k| k * b + 1));
                push(format!("bf{bf}-beyond-max-r{r}-{extra}"), bf, None, vals, true, 2, near);
            }
        }
        // a filled leaf node straddling the maximum, then an out-of-range leaf
        push(format!("bf{bf}-filled-straddles-max"), bf, None, (0..b).chain([2 * b]).collect(), true, 2, near);
        // a filled leaf node entirely beyond the maximum after an in-range leaf
        push(format!("bf{bf}-filled-beyond-max"), bf, None, std::iter::once(b - 1).chain(2 * b..3 * b).collect(), true, 2, (MAX - (b - 1)) as u32);
        // a filled leaf node that STARTS exactly at the maximum (after an in-range leaf)
        push(format!("bf{bf}-filled-starts-at-max"), bf, None, std::iter::once(0).chain(b..2 * b).collect(), true, 2, (MAX - b) as u32);
        // a filled interior node straddling the maximum, then an out-of-range leaf
        push(format!("bf{bf}-interior-straddles-max"), bf, None, (0..b * b).chain([b * b + 1]).collect(), true, 2, (MAX - b) as u32);
        // u16 bias 0xFFFF with tall trees; no bias with values around the maximum
        push(format!("bf{bf}-u16bias-tall"), bf, None, vec![0, 0x10_0000, 0x10_0001], true, 1, 0xFFFF);
        push(format!("bf{bf}-nobias-around-max"), bf, None, vec![0x41, MAX, MAX + 1], true, 0, 0);
        push(format!("bf{bf}-nobias-max-only-spelled"), bf, None, vec![MAX - 1, MAX, MAX + 2], false, 0, 0);
    }
    out
}

pub fn spaces_sbs(ctx: &Ctx, base: &BaseTables) {
    let entries = sbs_entries();
    ctx.run.bound("sbs_entry_encodings", json!(entries.len()));
    ctx.run.bound("sbs_branch_factors", json!([2, 4, 8, 32]));
    let follower = |cp: u32| {
        let mut e = E2::plain();
        e.cps = Cps::Set { bias_kind: 0, bias: 0, members: vec![cp] };
        e
    };
    let counter = std::sync::atomic::AtomicU64::new(0);
    let groups_n = std::sync::atomic::AtomicU64::new(0);
    let entries = &entries;
    par_for(entries.len(), |i| {
        let mut l = Local::default();
        let (label, cps) = &entries[i];
        let Cps::Raw { bias, members, bytes, bias_kind, .. } = cps else { unreachable!() };
        let mut raw = E2::plain();
        raw.cps = cps.clone();
        // probes: members at both ends and their neighbours, the bias and its predecessor, the top of
        // the code point range and what lies beyond it
        let mut probes: BTreeSet<u32> = BTreeSet::new();
        for m in members.iter().take(3).chain(members.iter().rev().take(3)) {
            probes.extend([m.saturating_sub(1), *m, m + 1]);
        }
        probes.extend([bias.saturating_sub(1), *bias, 0x10_FFFE, 0x10_FFFF, 0x11_0000, 0x11_0001, A, B]);
        let mut defs: Vec<Def> = probes.iter().map(|p| plain_def(DCps::Set(vec![*p]))).collect();
        defs.push(plain_def(DCps::Set(vec![])));
        defs.push(plain_def(DCps::AllExcept(vec![])));
        defs.push(plain_def(DCps::AllExcept(vec![members[0]])));
        defs.push(plain_def(DCps::Set(members.clone())));
        defs.push(plain_def(DCps::Set(vec![0x11_0000, 0x11_0001, 0xFFFF_FFFF])));
        let sds: Vec<_> = defs.iter().map(to_subset_definition).collect();
        let pairs = subset_pairs(&defs);
        let kind = "f2-sbs";
        let mut with_children = follower(A);
        with_children.children = Some((true, vec![0, 1]));
        let tables = vec![
            t2_of(vec![raw.clone()]),
            t2_of(vec![raw.clone(), follower(A)]),
            t2_of(vec![follower(B), raw.clone()]),
            t2_of(vec![raw.clone(), follower(B), with_children]),
            t2_of(vec![raw.clone(), raw.clone(), follower(A)]),
        ];
        for t in &tables {
            let tm = TableModel::F2(t.clone());
            let fc = FontCase { kind, ift: Some(&tm), iftx: None };
            check_font(ctx, base, &fc, &defs, &sds, &pairs, &mut l);
            counter.fetch_add(1, std::sync::atomic::Ordering::Relaxed);
        }
        // selection by intersection size: the raw entry against a plain entry holding a strict subset
        // (or, for one-member sets, the same set: a tie the earlier entry wins), both orders
        let sub: Vec<u32> = if members.len() > 1 { members[..members.len() - 1].iter().copied().take(40).collect() } else { members.clone() };
        let mut rival = E2::plain();
        rival.cps = Cps::Set { bias_kind: 0, bias: 0, members: sub };
        for order in [false, true] {
            let mut t = t2_of(if order { vec![raw.clone(), rival.clone()] } else { vec![rival.clone(), raw.clone()] });
            t.default_format = 2;
            let tm = TableModel::F2(t);
            for di in [defs.len() - 4, defs.len() - 2] {
                let gc = groups::GroupCase { ift: Some(tm.clone()), iftx: None, def: defs[di].clone(), cmap12: false };
                groups::run_one(ctx, base, &gc, &sds[di], &mut l);
                groups_n.fetch_add(1, std::sync::atomic::Ordering::Relaxed);
            }
        }
        // the stream cut short by its last byte, in final position: the table must be rejected
        if bytes.len() > 1 {
            let mut cut = E2::plain();
            cut.cps = Cps::Raw { bias_kind: *bias_kind, bias: *bias, bytes: bytes[..bytes.len() - 1].to_vec(), members: vec![], invalid: true };
            for t in [t2_of(vec![cut.clone()]), t2_of(vec![follower(A), cut.clone()])] {
                let tm = TableModel::F2(t);
                let fc = FontCase { kind: "f2-sbs-truncated", ift: Some(&tm), iftx: None };
                check_font(ctx, base, &fc, &defs[defs.len() - 4..], &sds[defs.len() - 4..], &[], &mut l);
                counter.fetch_add(1, std::sync::atomic::Ordering::Relaxed);
            }
        }
        if i == 7 {
            ctx.run.sample(json!({"space":"f2-sbs","label": label, "table": tables[1], "definitions": defs.len()}));
        }
        ctx.merge(l);
    });
    ctx.run.count("sbs_tables", counter.load(std::sync::atomic::Ordering::Relaxed));
    ctx.run.count("sbs_group_selections", groups_n.load(std::sync::atomic::Ordering::Relaxed));
}

// ---------------------------------------------------------------------------
// segorder
// ---------------------------------------------------------------------------

pub fn spaces_segorder(ctx: &Ctx, base: &BaseTables) {
    let thorough = ctx.run.tier == Tier::Thorough;
    // integer bounds only: no two segments are adjacent by one 16.16 unit (see manifest note)
    let alphabet: Vec<(i32, i32)> = vec![(100, 200), (150, 300), (300, 400), (500, 600), (200, 500), (100, 600), (250, 250), (-50, 120)];
    let n = alphabet.len();
    // every ordered tuple of 3 distinct segments; of 4 distinct segments (quick: 4-tuples starting with
    // an even alphabet index only)
    let mut tuples: Vec<Vec<usize>> = vec![];
    for a in 0..n {
        for b in 0..n {
            for c in 0..n {
                if a == b || a == c || b == c {
                    continue;
                }
                tuples.push(vec![a, b, c]);
                for d in 0..n {
                    if d == a || d == b || d == c || (!thorough && a % 2 == 1) {
                        continue;
                    }
                    tuples.push(vec![a, b, c, d]);
                }
            }
        }
    }
    let mut point_defs: Vec<Def> = vec![];
    for b in [-50, 0, 100, 120, 150, 200, 250, 300, 400, 500, 600] {
        for off in [-1i32, 0, 1] {
            let p = fx(b) + off;
            point_defs.push(Def { cps: DCps::Set(vec![]), feats: DFeat::Set(vec![]), ds: DDs::Ranges(vec![(WGHT, vec![(p, p)])]) });
        }
    }
    point_defs.push(Def { cps: DCps::Set(vec![]), feats: DFeat::Set(vec![]), ds: DDs::Ranges(vec![]) });
    point_defs.push(Def { cps: DCps::Set(vec![]), feats: DFeat::Set(vec![]), ds: DDs::All });
    point_defs.push(Def { cps: DCps::Set(vec![]), feats: DFeat::Set(vec![]), ds: DDs::Ranges(vec![(WDTH, vec![(fx(80), fx(80))])]) });
    let wide = |v: &[(i32, i32)]| Def {
        cps: DCps::Set(vec![]),
        feats: DFeat::Set(vec![]),
        ds: DDs::Ranges(vec![(WGHT, v.iter().map(|(a, b)| (fx(*a), fx(*b))).collect())]),
    };
    let wide_defs: Vec<Def> = vec![
        wide(&[(0, 1000)]),
        wide(&[(-1000, 1000)]),
        wide(&[(-60, -10), (110, 130)]),
        wide(&[(120, 260)]),
        wide(&[(180, 220), (450, 520)]),
        wide(&[(210, 240), (260, 290), (410, 490)]),
        Def { cps: DCps::Set(vec![]), feats: DFeat::Set(vec![]), ds: DDs::All },
    ];
    let psds: Vec<_> = point_defs.iter().map(to_subset_definition).collect();
    let ppairs = subset_pairs(&point_defs);
    let wsds: Vec<_> = wide_defs.iter().map(to_subset_definition).collect();
    ctx.run.bound("segorder_segment_alphabet", json!(alphabet));
    ctx.run.bound("segorder_insertion_orders", json!(tuples.len()));
    ctx.run.bound("segorder_point_definitions", json!(point_defs.len()));
    ctx.run.bound("segorder_wide_definitions", json!(wide_defs.len()));
    let (tuples, alphabet, point_defs, psds, ppairs, wide_defs, wsds) = (&tuples, &alphabet, &point_defs, &psds, &ppairs, &wide_defs, &wsds);
    let sel = std::sync::atomic::AtomicU64::new(0);
    let chunk = 8;
    par_for(tuples.len().div_ceil(chunk), |c| {
        let mut l = Local::default();
        for ti in c * chunk..((c + 1) * chunk).min(tuples.len()) {
            let tup = &tuples[ti];
            for with_wdth in [false, true] {
                if with_wdth && tup.len() == 4 {
                    continue;
                }
                let mk = |order: &[usize]| {
                    let mut e = E2::plain();
                    e.fds = true;
                    e.segs = order.iter().map(|k| seg(WGHT, alphabet[*k].0, alphabet[*k].1)).collect();
                    if with_wdth {
                        e.segs.insert(1, seg(WDTH, 75, 100));
                    }
                    e
                };
                let mut sorted = tup.clone();
                sorted.sort_by_key(|k| alphabet[*k]);
                let x = mk(tup);
                let y = mk(&sorted);
                for (a, b) in [(&x, &y), (&y, &x)] {
                    let mut t = t2_of(vec![a.clone(), b.clone()]);
                    let tm = TableModel::F2(t.clone());
                    let fc = FontCase { kind: "f2-segorder", ift: Some(&tm), iftx: None };
                    check_font(ctx, base, &fc, point_defs, psds, ppairs, &mut l);
                    t.default_format = 2;
                    let tm = TableModel::F2(t);
                    for (d, sd) in wide_defs.iter().zip(wsds.iter()) {
                        let gc = groups::GroupCase { ift: Some(tm.clone()), iftx: None, def: d.clone(), cmap12: false };
                        groups::run_one(ctx, base, &gc, sd, &mut l);
                    }
                    sel.fetch_add(wide_defs.len() as u64, std::sync::atomic::Ordering::Relaxed);
                }
            }
        }
        ctx.merge(l);
    });
    ctx.run.count("segorder_group_selections", sel.load(std::sync::atomic::Ordering::Relaxed));
}

// ---------------------------------------------------------------------------
// f1groups
// ---------------------------------------------------------------------------

pub fn spaces_f1_groups(ctx: &Ctx, base: &BaseTables) {
    let thorough = ctx.run.tier == Tier::Thorough;
    let defs = defs_f1();
    let sds: Vec<_> = defs.iter().map(to_subset_definition).collect();
    let fmaps = feature_maps();
    let mut tables: Vec<T1> = vec![];
    // glyph maps: first = 3 (gids 3,4,5 -> {0..3}: 64 maps); thorough adds first = 1 with gids 4,5 fixed (64 maps)
    let mut maps: Vec<(u16, Vec<u16>)> = vec![];
    for code in 0..64u32 {
        let v: Vec<u16> = (0..3).map(|k| ((code >> (2 * k)) & 3) as u16).collect();
        maps.push((3, v.clone()));
        if thorough {
            let mut w = v;
            w.extend([1, 3]);
            maps.push((1, w));
        }
    }
    for (first, entry_index) in &maps {
        for max_gm in [3u16, 2] {
            for fm in &fmaps {
                for patch_format in [1u8, 2] {
                    for applied in [0u8, 0b0001_0100] {
                        tables.push(T1 {
                            compat: [1, 2, 3, 4],
                            max_entry_index: 6,
                            max_glyph_map_entry_index: max_gm,
                            glyph_count: 6,
                            first_mapped_glyph: *first,
                            entry_index: entry_index.clone(),
                            feature_map: fm.clone(),
                            applied: vec![applied],
                            template: b"p/{id}".to_vec(),
                            patch_format,
                            cff_off: None,
                            cff2_off: None,
                        });
                    }
                }
            }
        }
    }
    ctx.run.count("f1groups_tables", tables.len() as u64);
    let n = std::sync::atomic::AtomicU64::new(0);
    let (tables, defs, sds) = (&tables, &defs, &sds);
    let chunk = 8;
    par_for(tables.len().div_ceil(chunk), |c| {
        let mut l = Local::default();
        let mut k = 0u64;
        for i in c * chunk..((c + 1) * chunk).min(tables.len()) {
            let tm = TableModel::F1(tables[i].clone());
            for (d, sd) in defs.iter().zip(sds.iter()) {
                // alternate the table between IFT and IFTX
                let gc = if i % 2 == 0 {
                    groups::GroupCase { ift: Some(tm.clone()), iftx: None, def: d.clone(), cmap12: false }
                } else {
                    groups::GroupCase { ift: None, iftx: Some(tm.clone()), def: d.clone(), cmap12: false }
                };
                groups::run_one(ctx, base, &gc, sd, &mut l);
                k += 1;
            }
        }
        n.fetch_add(k, std::sync::atomic::Ordering::Relaxed);
        ctx.merge(l);
    });
    // two partially invalidating format-1 tables side by side (same and different templates)
    let small: Vec<&T1> = tables.iter().filter(|t| t.patch_format == 2 && t.max_glyph_map_entry_index == 3 && t.applied[0] == 0).step_by(37).collect();
    ctx.run.bound("f1groups_two_table_side", json!(small.len()));
    let small = &small;
    par_for(small.len(), |i| {
        let mut l = Local::default();
        let mut k = 0u64;
        for y in small.iter() {
            for template in [&b"p/{id}"[..], &b"q/{id}"[..]] {
                let mut b = (*y).clone();
                b.compat = [9, 9, 9, 9];
                b.template = template.to_vec();
                let (ta, tb) = (TableModel::F1(small[i].clone()), TableModel::F1(b));
                for (d, sd) in defs.iter().zip(sds.iter()) {
                    let gc = groups::GroupCase { ift: Some(ta.clone()), iftx: Some(tb.clone()), def: d.clone(), cmap12: false };
                    groups::run_one(ctx, base, &gc, sd, &mut l);
                    k += 1;
                }
            }
        }
        n.fetch_add(k, std::sync::atomic::Ordering::Relaxed);
        ctx.merge(l);
    });
    ctx.run.count("f1groups_selections", n.load(std::sync::atomic::Ordering::Relaxed));
}

// ---------------------------------------------------------------------------
// children
// ---------------------------------------------------------------------------

pub fn spaces_children(ctx: &Ctx, base: &BaseTables) {
    let cp_entry = |cp: u32| {
        let mut e = E2::plain();
        e.cps = Cps::Set { bias_kind: 0, bias: 0, members: vec![cp] };
        e
    };
    let mut tables: Vec<T2> = vec![];
    // (a) N prior entries all {A} except position p = {B}; the last entry lists all N as children
    for n in [62usize, 63, 64, 65, 126, 127] {
        let mut odd: Vec<Option<usize>> = vec![None, Some(0), Some(n - 1), Some(n / 2)];
        for p in [62usize, 63, 64] {
            if p < n {
                odd.push(Some(p));
            }
        }
        for p in odd {
            for conj in [false, true] {
                for own_cp in [false, true] {
                    let mut entries: Vec<E2> = (0..n).map(|i| cp_entry(if Some(i) == p { B } else { A })).collect();
                    let mut last = if own_cp { cp_entry(A) } else { E2::plain() };
                    last.children = Some((conj, (0..n as u32).collect()));
                    entries.push(last);
                    // one more entry after it: the parse position after a long child list
                    entries.push(cp_entry(B));
                    tables.push(t2_of(entries));
                }
            }
        }
    }
    // (b) 300 entries; child indices around 256 (three byte indices with a non-zero middle byte)
    for odd in [255usize, 256, 257, 299] {
        for children in [vec![255u32], vec![256], vec![257], vec![299], vec![0, 256], vec![256, 0], vec![255, 256, 257]] {
            for conj in [false, true] {
                let mut entries: Vec<E2> = (0..300).map(|i| cp_entry(if i == odd { B } else { A })).collect();
                let mut last = E2::plain();
                last.children = Some((conj, children.clone()));
                entries.push(last);
                tables.push(t2_of(entries));
            }
        }
    }
    let defs: Vec<Def> = vec![
        plain_def(DCps::Set(vec![A])),
        plain_def(DCps::Set(vec![B])),
        plain_def(DCps::Set(vec![A, B])),
        plain_def(DCps::Set(vec![])),
        all_def(),
    ];
    let sds: Vec<_> = defs.iter().map(to_subset_definition).collect();
    let pairs = subset_pairs(&defs);
    ctx.run.count("children_tables", tables.len() as u64);
    ctx.run.bound("children_list_lengths", json!([62, 63, 64, 65, 126, 127]));
    let (tables, defs, sds, pairs) = (&tables, &defs, &sds, &pairs);
    par_for(tables.len(), |i| {
        let mut l = Local::default();
        let tm = TableModel::F2(tables[i].clone());
        let fc = FontCase { kind: "f2-children", ift: Some(&tm), iftx: None };
        check_font(ctx, base, &fc, defs, sds, pairs, &mut l);
        ctx.merge(l);
    });
}

// ---------------------------------------------------------------------------
// cff
// ---------------------------------------------------------------------------

pub fn spaces_cff(ctx: &Ctx, base: &BaseTables) {
    let defs2 = defs_f2(true);
    let sds2: Vec<_> = defs2.iter().map(to_subset_definition).collect();
    let pairs2 = subset_pairs(&defs2);
    let defs1 = defs_f1();
    let sds1: Vec<_> = defs1.iter().map(to_subset_definition).collect();
    let pairs1 = subset_pairs(&defs1);
    let shapes = own_shapes(false);
    let fmaps = feature_maps();
    let mut l = Local::default();
    let mut n = 0u64;
    for (cff, cff2) in [(Some(0x1234u32), None), (None, Some(0x5678u32)), (Some(1), Some(0xFFFF_FFFF))] {
        for a in shapes.iter().step_by(2) {
            for b in shapes.iter().skip(1).step_by(3) {
                for strings in [false, true] {
                    let mut x = b.clone();
                    let mut t = t2_of(vec![a.clone(), x.clone()]);
                    if strings {
                        x.id = IdSpec::StrLen(2);
                        t = t2_of(vec![a.clone(), x]);
                        t.string_data = Some(b"zz".to_vec());
                    }
                    t.cff_off = cff;
                    t.cff2_off = cff2;
                    let tm = TableModel::F2(t);
                    let fc = FontCase { kind: "f2-cff", ift: Some(&tm), iftx: None };
                    check_font(ctx, base, &fc, &defs2, &sds2, &pairs2, &mut l);
                    n += 1;
                }
            }
        }
        for fm in &fmaps {
            for applied in [0u8, 0b10] {
                let t = T1 {
                    compat: [1, 2, 3, 4],
                    max_entry_index: 6,
                    max_glyph_map_entry_index: 3,
                    glyph_count: 6,
                    first_mapped_glyph: 1,
                    entry_index: vec![1, 2, 3, 1, 0],
                    feature_map: fm.clone(),
                    applied: vec![applied],
                    template: b"p/{id}".to_vec(),
                    patch_format: 3,
                    cff_off: cff,
                    cff2_off: cff2,
                };
                let tm = TableModel::F1(t);
                let fc = FontCase { kind: "f1-cff", ift: Some(&tm), iftx: None };
                check_font(ctx, base, &fc, &defs1, &sds1, &pairs1, &mut l);
                n += 1;
            }
        }
    }
    ctx.merge(l);
    ctx.run.count("cff_offset_field_tables", n);
}

// ---------------------------------------------------------------------------
// featmerge: the two-pointer merge of a format-1 feature map (records in table order, any tag order,
// duplicates, 0..2 entry-map records each) with the definition's sorted tag set (every subset of six
// tags, two of them below / above every record tag) and with "all features"
// ---------------------------------------------------------------------------

pub fn spaces_featmerge(ctx: &Ctx, base: &BaseTables) {
    let thorough = ctx.run.tier == Tier::Thorough;
    let rec_tags: [TagB; 4] = [DLIG, *b"kern", LIGA, SMCP];
    let def_tags: [TagB; 6] = [*b"aalt", DLIG, *b"kern", LIGA, SMCP, *b"zero"];
    let mut tables: Vec<T1> = vec![];
    for len in 1..=3usize {
        let nt = rec_tags.len().pow(len as u32);
        let nc = 3usize.pow(len as u32);
        for tcode in 0..nt {
            for ccode in 0..nc {
                let mut recs = vec![];
                let mut next_new = 4u16;
                for k in 0..len {
                    let tag = rec_tags[(tcode / rec_tags.len().pow(k as u32)) % rec_tags.len()];
                    let count = (ccode / 3usize.pow(k as u32)) % 3;
                    let all = [(k as u16 + 1, k as u16 + 1), (1u16, 3u16)];
                    recs.push(FRec { tag, first_new: next_new, maps: all[..count].to_vec() });
                    next_new += count as u16;
                }
                let max = (next_new - 1).max(3);
                for patch_format in [3u8, 2] {
                    if patch_format == 2 && !thorough && len == 3 {
                        continue;
                    }
                    tables.push(T1 {
                        compat: [1, 2, 3, 4],
                        max_entry_index: max,
                        max_glyph_map_entry_index: 3,
                        glyph_count: 6,
                        first_mapped_glyph: 1,
                        entry_index: vec![1, 2, 3, 1, 0],
                        feature_map: Some(recs.clone()),
                        applied: vec![0; bitmap_len(max)],
                        template: b"p/{id}".to_vec(),
                        patch_format,
                        cff_off: None,
                        cff2_off: None,
                    });
                }
            }
        }
    }
    let mut defs: Vec<Def> = vec![];
    for cps in [DCps::Set(vec![A, B, C]), DCps::Set(vec![B])] {
        for mask in 0..(1u32 << def_tags.len()) {
            let tags: Vec<TagB> = (0..def_tags.len()).filter(|b| mask & (1 << b) != 0).map(|b| def_tags[b]).collect();
            defs.push(Def { cps: cps.clone(), feats: DFeat::Set(tags), ds: DDs::Ranges(vec![]) });
        }
        defs.push(Def { cps: cps.clone(), feats: DFeat::All, ds: DDs::Ranges(vec![]) });
    }
    let sds: Vec<_> = defs.iter().map(to_subset_definition).collect();
    let pairs = subset_pairs(&defs);
    ctx.run.count("featmerge_tables", tables.len() as u64);
    ctx.run.bound("featmerge_definitions", json!(defs.len()));
    ctx.run.bound("featmerge_subset_pairs", json!(pairs.len()));
    ctx.run.sample(json!({"space":"f1-featmerge","table": tables[tables.len() / 2], "definitions": defs.len()}));
    let (tables, defs, sds, pairs) = (&tables, &defs, &sds, &pairs);
    let sel = std::sync::atomic::AtomicU64::new(0);
    let chunk = 8;
    par_for(tables.len().div_ceil(chunk), |c| {
        let mut l = Local::default();
        for i in c * chunk..((c + 1) * chunk).min(tables.len()) {
            let tm = TableModel::F1(tables[i].clone());
            if tables[i].patch_format == 3 {
                let fc = FontCase { kind: "f1-featmerge", ift: Some(&tm), iftx: None };
                check_font(ctx, base, &fc, defs, sds, pairs, &mut l);
            } else {
                for (d, sd) in defs.iter().zip(sds.iter()) {
                    let gc = groups::GroupCase { ift: Some(tm.clone()), iftx: None, def: d.clone(), cmap12: false };
                    groups::run_one(ctx, base, &gc, sd, &mut l);
                }
                sel.fetch_add(defs.len() as u64, std::sync::atomic::Ordering::Relaxed);
            }
        }
        ctx.merge(l);
    });
    ctx.run.count("featmerge_group_selections", sel.load(std::sync::atomic::Ordering::Relaxed));
}

// ---------------------------------------------------------------------------
// dups: repeated feature tags / repeated segments inside one format-2 entry count once: such an entry
// ties with its duplicate-free twin (earlier one wins), in both orders; unsorted tag lists as well
// ---------------------------------------------------------------------------

pub fn spaces_dups(ctx: &Ctx, base: &BaseTables) {
    let mk = |feats: &[TagB], segs: Vec<Seg>| {
        let mut e = E2::plain();
        e.cps = Cps::Set { bias_kind: 0, bias: 0, members: vec![A] };
        e.fds = true;
        e.features = feats.to_vec();
        e.segs = segs;
        e
    };
    let twins: Vec<(E2, E2)> = vec![
        (mk(&[LIGA, LIGA], vec![]), mk(&[LIGA], vec![])),
        (mk(&[SMCP, LIGA], vec![]), mk(&[LIGA, SMCP], vec![])),
        (mk(&[SMCP, LIGA, SMCP, DLIG], vec![]), mk(&[DLIG, LIGA, SMCP], vec![])),
        (mk(&[], vec![seg(WGHT, 100, 400), seg(WGHT, 100, 400)]), mk(&[], vec![seg(WGHT, 100, 400)])),
        (mk(&[LIGA], vec![seg(WDTH, 75, 100), seg(WGHT, 100, 400), seg(WDTH, 75, 100)]), mk(&[LIGA], vec![seg(WGHT, 100, 400), seg(WDTH, 75, 100)])),
        (mk(&[LIGA, LIGA, SMCP], vec![]), mk(&[LIGA, DLIG], vec![])),
    ];
    let defs = defs_f2(false);
    let sds: Vec<_> = defs.iter().map(to_subset_definition).collect();
    let pairs = subset_pairs(&defs);
    let mut l = Local::default();
    let mut n = 0u64;
    for (a, b) in &twins {
        for (x, y) in [(a, b), (b, a)] {
            for default_format in [3u8, 2, 1] {
                let mut t = t2_of(vec![x.clone(), y.clone()]);
                t.default_format = default_format;
                let tm = TableModel::F2(t);
                if default_format == 3 {
                    let fc = FontCase { kind: "f2-dups", ift: Some(&tm), iftx: None };
                    check_font(ctx, base, &fc, &defs, &sds, &pairs, &mut l);
                } else {
                    for (d, sd) in defs.iter().zip(sds.iter()) {
                        let gc = groups::GroupCase { ift: Some(tm.clone()), iftx: None, def: d.clone(), cmap12: false };
                        groups::run_one(ctx, base, &gc, sd, &mut l);
                        n += 1;
                    }
                }
            }
        }
    }
    ctx.merge(l);
    ctx.run.count("dups_group_selections", n);
}

// ---------------------------------------------------------------------------
// misc: URI templates of 255 / 256 / 300 / 600 bytes (two-byte length field) in both formats; fonts in
// which one of the two mapping tables is malformed (the whole call must fail, whichever comes first)
// ---------------------------------------------------------------------------

pub fn spaces_misc(ctx: &Ctx, base: &BaseTables) {
    let defs = defs_f1();
    let sds: Vec<_> = defs.iter().map(to_subset_definition).collect();
    let pairs = subset_pairs(&defs);
    let f1 = |template: Vec<u8>, compat: [u32; 4], patch_format: u8| T1 {
        compat,
        max_entry_index: 6,
        max_glyph_map_entry_index: 3,
        glyph_count: 6,
        first_mapped_glyph: 1,
        entry_index: vec![1, 2, 3, 1, 0],
        feature_map: Some(vec![FRec { tag: LIGA, first_new: 4, maps: vec![(1, 2)] }]),
        applied: vec![0],
        template,
        patch_format,
        cff_off: None,
        cff2_off: None,
    };
    let f2 = |template: Vec<u8>, compat: [u32; 4], default_format: u8| {
        let mut a = E2::plain();
        a.cps = Cps::Set { bias_kind: 0, bias: 0, members: vec![A] };
        let mut b = E2::plain();
        b.fds = true;
        b.features = vec![LIGA];
        let mut t = t2_of(vec![a, b]);
        t.template = template;
        t.compat = compat;
        t.default_format = default_format;
        t
    };
    let mut l = Local::default();
    let mut n = 0u64;
    for len in [254usize, 255, 256, 257, 300, 600] {
        let mut template = b"p/".to_vec();
        template.extend(std::iter::repeat(b'a').take(len - 7));
        template.extend(b"/{id}");
        assert_eq!(template.len(), len);
        for tm in [TableModel::F1(f1(template.clone(), [1, 2, 3, 4], 3)), TableModel::F2(f2(template.clone(), [1, 2, 3, 4], 3))] {
            let fc = FontCase { kind: "long-template", ift: Some(&tm), iftx: None };
            check_font(ctx, base, &fc, &defs, &sds, &pairs, &mut l);
            let fc = FontCase { kind: "long-template", ift: None, iftx: Some(&tm) };
            check_font(ctx, base, &fc, &defs, &sds, &pairs, &mut l);
            n += 2;
        }
    }
    // one good and one malformed table (bad format number / glyph count mismatch / non UTF-8 template)
    let good: Vec<TableModel> = vec![TableModel::F1(f1(b"p/{id}".to_vec(), [1, 2, 3, 4], 3)), TableModel::F2(f2(b"p/{id}".to_vec(), [1, 2, 3, 4], 3))];
    let mut bad: Vec<TableModel> = vec![
        TableModel::F1(f1(b"q/{id}".to_vec(), [9, 9, 9, 9], 4)),
        TableModel::F1(f1(vec![0xC3, b'{', b'i', b'd', b'}'], [9, 9, 9, 9], 3)),
        TableModel::F2(f2(b"q/{id}".to_vec(), [9, 9, 9, 9], 0)),
        TableModel::F2(f2(vec![0xC3, b'{', b'i', b'd', b'}'], [9, 9, 9, 9], 3)),
    ];
    let mut gc = f1(b"q/{id}".to_vec(), [9, 9, 9, 9], 3);
    gc.glyph_count = 7;
    gc.entry_index.push(0);
    bad.push(TableModel::F1(gc));
    for g in &good {
        for b in &bad {
            for (x, y) in [(g, b), (b, g)] {
                let fc = FontCase { kind: "one-table-malformed", ift: Some(x), iftx: Some(y) };
                check_font(ctx, base, &fc, &defs, &sds, &pairs, &mut l);
                n += 1;
            }
        }
    }
    ctx.merge(l);
    ctx.run.count("misc_long_template_and_half_malformed_fonts", n);
}
