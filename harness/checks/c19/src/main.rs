//! C19 — IFT patch selection follows the specified intersection and grouping rules.
//!
//! Bounded exhaustive exploration of the real `incremental_font_transfer::patchmap::intersecting_patches`
//! and `patch_group::PatchGroup::{select_next_patches, apply_next_patches_with_decoder}` over
//! harness-encoded format-1 / format-2 mapping tables, compared with a harness reference
//! (`model.rs`) that is first gated on the repository's own `patchmap.rs` test expectations.
//!
//! Enumerated spaces (all nested loops in a fixed order, nothing sampled):
//!   gate  : transcribed `patchmap.rs` expectations on the `font-test-data::ift` fixtures
//!   f2    : format-2 tables of 1, 2 and 3 entries over entry-shape alphabets x definitions D
//!   f2ids : id delta / id string / per-entry format / default format combinations
//!   f1    : format-1 tables (glyph maps, feature maps, applied-bit states) x definitions D1
//!   two   : fonts with both IFT and IFTX
//!   mono  : every ordered pair d, d' in D with d a subset of d' (per table)
//!   group : select_next_patches rules on two-table fonts
//!   ext   : explicit-state search over extension runs (ext.rs)

mod audit;
mod ext;
mod extra;
mod gate;
mod groups;
mod model;
mod patches;

use incremental_font_transfer::patchmap::{
    intersecting_patches, DesignSpace, FeatureSet, PatchFormat, SubsetDefinition,
};
use model::*;
use read_fonts::collections::{IntSet, RangeSet};
use read_fonts::types::{Fixed, Tag};
use read_fonts::FontRef;
use serde_json::{json, Value};
use std::collections::{BTreeMap, BTreeSet, HashMap, HashSet};
use std::sync::Mutex;
use vcore::*;

fn main() {
    if std::env::var("C19_WORKER").is_ok() {
        extra::worker_main();
        return;
    }
    main_for("C19", body)
}

// ---------------------------------------------------------------------------
// constants of the alphabets
// ---------------------------------------------------------------------------

pub const A: u32 = 0x41;
pub const B: u32 = 0x42;
pub const C: u32 = 0x43;
pub const D_: u32 = 0x44;
pub const E: u32 = 0x45;
pub const A2: u32 = 0x61; // second code point mapped to gid 1
pub const NOTDEF_BEFORE: u32 = 0x30;
pub const NOTDEF_BETWEEN: u32 = 0x5A;
pub const NOTDEF_AFTER: u32 = 0x7E;
pub const R0: u32 = 0x1000;
pub const R5: u32 = 0x1005;
pub const BIG: u32 = 80_005;

pub const LIGA: TagB = *b"liga";
pub const SMCP: TagB = *b"smcp";
pub const DLIG: TagB = *b"dlig";
pub const WGHT: TagB = *b"wght";
pub const WDTH: TagB = *b"wdth";
pub const OPSZ: TagB = *b"opsz";

pub fn fx(v: i32) -> i32 {
    v << 16
}

// ---------------------------------------------------------------------------
// Def -> real SubsetDefinition
// ---------------------------------------------------------------------------

pub fn to_subset_definition(d: &Def) -> SubsetDefinition {
    let cps = match &d.cps {
        DCps::Set(s) => s.iter().copied().collect::<IntSet<u32>>(),
        DCps::AllExcept(s) => {
            let mut all = IntSet::<u32>::all();
            for x in s {
                all.remove(*x);
            }
            all
        }
    };
    let feats = match &d.feats {
        DFeat::All => FeatureSet::All,
        DFeat::Set(s) => FeatureSet::Set(s.iter().map(|t| Tag::new(t)).collect::<BTreeSet<Tag>>()),
    };
    let ds = match &d.ds {
        DDs::All => DesignSpace::All,
        DDs::Ranges(r) => {
            let mut m: HashMap<Tag, RangeSet<Fixed>> = HashMap::new();
            for (t, segs) in r {
                let e = m.entry(Tag::new(t)).or_default();
                for (a, b) in segs {
                    e.insert(Fixed::from_bits(*a)..=Fixed::from_bits(*b));
                }
            }
            DesignSpace::Ranges(m)
        }
    };
    SubsetDefinition::new(cps, feats, ds)
}

pub fn format_number(f: PatchFormat) -> u8 {
    match f {
        PatchFormat::TableKeyed {
            fully_invalidating: true,
        } => 1,
        PatchFormat::TableKeyed {
            fully_invalidating: false,
        } => 2,
        PatchFormat::GlyphKeyed => 3,
    }
}

/// The observable result of `intersecting_patches`: Err, or the multiset of (uri, format).
pub type Obs = Result<Vec<(String, u8)>, String>;

pub fn real_patches(font_bytes: &[u8], sd: &SubsetDefinition) -> Result<Obs, PanicInfo> {
    guard(|| {
        let font = match FontRef::new(font_bytes) {
            Ok(f) => f,
            Err(e) => return Err(format!("font: {e}")),
        };
        match intersecting_patches(&font, sd) {
            Err(e) => Err(format!("{e}")),
            Ok(v) => {
                let mut out: Vec<(String, u8)> = v
                    .iter()
                    .map(|p| {
                        (
                            p.uri_string().unwrap_or_else(|_| "<uri-template-error>".into()),
                            format_number(p.encoding()),
                        )
                    })
                    .collect();
                out.sort();
                Ok(out)
            }
        }
    })
}

pub fn ref_obs(r: &Result<Vec<RefPatch>, &'static str>) -> Obs {
    match r {
        Err(e) => Err(e.to_string()),
        Ok(v) => {
            let mut out: Vec<(String, u8)> = v.iter().map(|p| (p.uri.clone(), p.format)).collect();
            out.sort();
            Ok(out)
        }
    }
}

// ---------------------------------------------------------------------------
// base font (6 glyphs, cmap A..E -> 1..5 and 'a' -> 1)
// ---------------------------------------------------------------------------

pub struct BaseTables {
    pub tables: Vec<(Tag, Vec<u8>)>,
    pub cmap: BTreeMap<u32, u32>,
    pub num_glyphs: u32,
}

pub fn base_tables() -> BaseTables {
    use write_fonts::tables::{cmap::Cmap, head::Head, maxp::Maxp};
    // code points mapped to glyph 0 (= unmapped for every consumer) sit before, between and after the
    // real mappings: the cmap iterator and the cmap lookup must treat them alike
    let mappings: Vec<(u32, u32)> = vec![(NOTDEF_BEFORE, 0), (A, 1), (B, 2), (C, 3), (D_, 4), (E, 5), (NOTDEF_BETWEEN, 0), (A2, 1), (NOTDEF_AFTER, 0)];
    let cmap = Cmap::from_mappings(
        mappings
            .iter()
            .map(|(c, g)| (char::from_u32(*c).unwrap(), font_types::GlyphId::new(*g))),
    )
    .unwrap();
    let maxp = Maxp {
        num_glyphs: 6,
        ..Default::default()
    };
    let head = Head {
        index_to_loc_format: 1,
        ..Default::default()
    };
    // glyf: 6 glyphs of lengths 4,2,0,6,2,4 (opaque bytes, the IFT client never interprets them)
    let lens = [4u32, 2, 0, 6, 2, 4];
    let mut glyf = vec![];
    let mut loca = vec![0u32];
    for (g, l) in lens.iter().enumerate() {
        for i in 0..*l {
            glyf.push(0x10 * (g as u8 + 1) + i as u8);
        }
        loca.push(glyf.len() as u32);
    }
    // long loca, hand encoded (write-fonts' Loca::new would pick the short format on its own)
    let loca_bytes: Vec<u8> = loca.iter().flat_map(|o| o.to_be_bytes()).collect();
    let tables = vec![
        (Tag::new(b"cmap"), write_fonts::dump_table(&cmap).unwrap()),
        (Tag::new(b"maxp"), write_fonts::dump_table(&maxp).unwrap()),
        (Tag::new(b"head"), write_fonts::dump_table(&head).unwrap()),
        (Tag::new(b"glyf"), glyf),
        (Tag::new(b"loca"), loca_bytes),
    ];
    BaseTables {
        tables,
        cmap: mappings.into_iter().filter(|(_, g)| *g != 0).collect(),
        num_glyphs: 6,
    }
}

pub fn wrap_font(base: &BaseTables, ift: Option<&[u8]>, iftx: Option<&[u8]>) -> Vec<u8> {
    let mut b = write_fonts::FontBuilder::new();
    for (t, d) in &base.tables {
        b.add_raw(*t, d.as_slice());
    }
    if let Some(d) = ift {
        b.add_raw(Tag::new(b"IFT "), d);
    }
    if let Some(d) = iftx {
        b.add_raw(Tag::new(b"IFTX"), d);
    }
    b.build()
}

// ---------------------------------------------------------------------------
// definitions D
// ---------------------------------------------------------------------------

pub fn defs_f2(reduced: bool) -> Vec<Def> {
    let cps = vec![
        DCps::Set(vec![]),
        DCps::Set(vec![A]),
        DCps::Set(vec![A, B]),
        DCps::Set(vec![R5]),
        DCps::AllExcept(vec![A]),
        DCps::AllExcept(vec![]),
    ];
    let feats = vec![
        DFeat::Set(vec![]),
        DFeat::Set(vec![LIGA]),
        DFeat::Set(vec![SMCP]),
        DFeat::Set(vec![LIGA, SMCP]),
        DFeat::All,
    ];
    let mut ds = vec![
        DDs::Ranges(vec![]),
        // a point: touches the end of wght[100,400], inside wght[300,700]
        DDs::Ranges(vec![(WGHT, vec![(fx(400), fx(400))])]),
        // disjoint from both wght segments, one epsilon below 100
        DDs::Ranges(vec![(WGHT, vec![(fx(50), fx(100) - 1)])]),
        // touches the end of wght[300,700] only
        DDs::Ranges(vec![(WGHT, vec![(fx(700), fx(900))])]),
        DDs::All,
    ];
    if !reduced {
        ds.extend([
            // axis no entry mentions
            DDs::Ranges(vec![(OPSZ, vec![(fx(10), fx(12))])]),
            // touches wdth[75,100] at 100
            DDs::Ranges(vec![(WDTH, vec![(fx(100), fx(120))])]),
            // superset of the point, plus a wdth segment that misses
            DDs::Ranges(vec![
                (WGHT, vec![(fx(350), fx(500))]),
                (WDTH, vec![(fx(50), fx(60))]),
            ]),
        ]);
    }
    let mut out = vec![];
    for c in &cps {
        for f in &feats {
            for d in &ds {
                out.push(Def {
                    cps: c.clone(),
                    feats: f.clone(),
                    ds: d.clone(),
                });
            }
        }
    }
    out
}

pub fn defs_f1() -> Vec<Def> {
    let cps = vec![
        DCps::Set(vec![]),
        DCps::Set(vec![A]),
        DCps::Set(vec![A, B]),
        DCps::Set(vec![C, D_]),
        DCps::Set(vec![A2]),
        DCps::Set(vec![E, 0x999]),
        DCps::AllExcept(vec![A]),
        DCps::AllExcept(vec![]),
        // neighbours of the code points that map to glyph 0
        DCps::Set(vec![NOTDEF_BEFORE]),
        DCps::Set(vec![NOTDEF_BEFORE, A]),
        DCps::Set(vec![NOTDEF_BETWEEN, A2]),
        DCps::Set(vec![E, NOTDEF_AFTER]),
        DCps::AllExcept(vec![NOTDEF_BEFORE]),
        DCps::AllExcept(vec![A, B, C, D_, E]),
    ];
    let feats = vec![
        DFeat::Set(vec![]),
        DFeat::Set(vec![LIGA]),
        DFeat::Set(vec![DLIG]),
        DFeat::Set(vec![DLIG, LIGA]),
        DFeat::Set(vec![LIGA, SMCP]),
        DFeat::All,
    ];
    let mut out = vec![];
    for c in &cps {
        for f in &feats {
            out.push(Def {
                cps: c.clone(),
                feats: f.clone(),
                ds: DDs::Ranges(vec![]),
            });
        }
    }
    out.push(Def {
        cps: DCps::AllExcept(vec![]),
        feats: DFeat::All,
        ds: DDs::All,
    });
    out
}

/// all ordered pairs (i, j), i != j, with defs[i] a subset of defs[j]
pub fn subset_pairs(defs: &[Def]) -> Vec<(usize, usize)> {
    let mut out = vec![];
    for i in 0..defs.len() {
        for j in 0..defs.len() {
            if i != j && defs[i].subset_of(&defs[j]) {
                out.push((i, j));
            }
        }
    }
    out
}

// ---------------------------------------------------------------------------
// comparison of one font against the reference for a list of definitions (+ monotonicity)
// ---------------------------------------------------------------------------

#[derive(Default)]
pub struct Local {
    pub all: HashSet<u64>,
    pub nontrivial: HashSet<u64>,
    pub evals: u64,
    pub mono_pairs: u64,
    pub ext_gk_rounds: u64,
    pub ext_tk_rounds: u64,
}

pub struct Ctx<'a> {
    pub run: &'a Run,
    pub sink: Mutex<Local>,
}

impl Ctx<'_> {
    pub fn merge(&self, l: Local) {
        let mut g = self.sink.lock().unwrap();
        g.all.extend(l.all);
        g.nontrivial.extend(l.nontrivial);
        g.evals += l.evals;
        g.mono_pairs += l.mono_pairs;
        g.ext_gk_rounds += l.ext_gk_rounds;
        g.ext_tk_rounds += l.ext_tk_rounds;
    }
}

#[derive(Clone, serde::Serialize, serde::Deserialize)]
pub enum TableModel {
    F1(T1),
    F2(T2),
}

pub fn encode_table(t: &TableModel) -> Vec<u8> {
    match t {
        TableModel::F1(t) => encode_t1(t).bytes,
        TableModel::F2(t) => encode_t2(t).bytes,
    }
}

pub fn ref_tables(
    base_cmap: &BTreeMap<u32, u32>,
    num_glyphs: u32,
    ift: Option<&TableModel>,
    iftx: Option<&TableModel>,
    d: &Def,
) -> Result<Vec<RefPatch>, &'static str> {
    let mut out = vec![];
    for (i, t) in [ift, iftx].into_iter().enumerate() {
        match t {
            None => {}
            Some(TableModel::F1(t)) => out.extend(ref_t1(t, i as u8, num_glyphs, base_cmap, d)?),
            Some(TableModel::F2(t)) => out.extend(ref_t2(t, i as u8, d)?),
        }
    }
    Ok(out)
}

/// short, line-number free description of a format-2 entry (used in violation identities)
pub fn e2_sig(e: &E2) -> String {
    let cps = match &e.cps {
        Cps::None => "none",
        Cps::Empty { .. } => "explicit-empty",
        Cps::Raw { .. } => "raw-sparse-bit-set",
        Cps::Set { bias_kind: 0, .. } => "plain",
        Cps::Set { bias_kind: 1, .. } => "u16bias",
        Cps::Set { .. } => "u24bias",
    };
    let ch = match &e.children {
        None => "none".to_string(),
        Some((c, v)) => format!(
            "{}{}",
            if *c { "conj" } else { "disj" },
            if v.is_empty() { "-empty" } else { "" }
        ),
    };
    format!(
        "cps={cps} feats={} segs={} fds={} children={ch} ignored={}",
        e.features.len().min(2),
        e.segs.len().min(2),
        e.fds,
        e.ignored
    )
}

pub fn table_sig(t: Option<&TableModel>) -> String {
    match t {
        None => "-".into(),
        Some(TableModel::F1(t)) => format!(
            "format1(fmt={} featuremap={} wide={})",
            t.patch_format,
            t.feature_map.is_some(),
            t.max_entry_index >= 256
        ),
        Some(TableModel::F2(t)) => format!("format2(n={} strings={})", t.entries.len(), t.string_data.is_some()),
    }
}

fn def_sig(d: &Def) -> String {
    let c = match &d.cps {
        DCps::Set(s) if s.is_empty() => "empty",
        DCps::Set(_) => "set",
        DCps::AllExcept(s) if s.is_empty() => "all",
        DCps::AllExcept(_) => "inverted",
    };
    let f = match &d.feats {
        DFeat::All => "all",
        DFeat::Set(s) if s.is_empty() => "empty",
        DFeat::Set(_) => "set",
    };
    let s = match &d.ds {
        DDs::All => "all",
        DDs::Ranges(r) if r.is_empty() => "empty",
        DDs::Ranges(_) => "ranges",
    };
    format!("cps:{c} feats:{f} ds:{s}")
}

pub struct FontCase<'a> {
    pub kind: &'a str,
    pub ift: Option<&'a TableModel>,
    pub iftx: Option<&'a TableModel>,
}

pub fn case_json(fc: &FontCase, d: Option<&Def>, d2: Option<&Def>) -> Value {
    json!({"kind": fc.kind, "ift": fc.ift, "iftx": fc.iftx, "def": d, "def2": d2})
}

/// Runs `intersecting_patches` for every definition, compares with the reference, then checks
/// monotonicity over `pairs`. Returns the per-definition observations of the real code.
pub fn check_font(
    ctx: &Ctx,
    base: &BaseTables,
    fc: &FontCase,
    defs: &[Def],
    sds: &[SubsetDefinition],
    pairs: &[(usize, usize)],
    local: &mut Local,
) {
    let ift_b = fc.ift.map(encode_table);
    let iftx_b = fc.iftx.map(encode_table);
    let font = wrap_font(base, ift_b.as_deref(), iftx_b.as_deref());
    let mut obs: Vec<Option<Obs>> = Vec::with_capacity(defs.len());
    for (di, d) in defs.iter().enumerate() {
        local.evals += 1;
        let real = match real_patches(&font, &sds[di]) {
            Ok(o) => o,
            Err(p) => {
                ctx.run.violation(
                    &format!("intersecting_patches panics: {} at {}", p.kind(), p.site()),
                    &format!("{} ({}:{})", p.message, p.file, p.line),
                    case_json(fc, Some(d), None),
                );
                obs.push(None);
                continue;
            }
        };
        let r = ref_tables(&base.cmap, base.num_glyphs, fc.ift, fc.iftx, d);
        let want = ref_obs(&r);
        let same = match (&real, &want) {
            (Err(_), Err(_)) => true,
            (Ok(a), Ok(b)) => a == b,
            _ => false,
        };
        if !same {
            report_disagreement(ctx, fc, d, &real, &want, r.as_ref().ok());
        }
        let mut h = Fnv::new();
        h.str(fc.kind);
        match &real {
            Err(_) => h.str("err"),
            Ok(v) => {
                for (u, f) in v {
                    h.str(u);
                    h.byte(*f);
                }
            }
        }
        h.str(&def_sig(d));
        let dg = h.finish();
        local.all.insert(dg);
        if matches!(&real, Ok(v) if !v.is_empty()) {
            local.nontrivial.insert(dg);
        }
        obs.push(Some(real));
    }
    // monotonicity on what the real code returned (independent of the reference)
    for (i, j) in pairs {
        let (Some(Ok(a)), Some(Ok(b))) = (&obs[*i], &obs[*j]) else {
            continue;
        };
        local.mono_pairs += 1;
        // multiset inclusion a <= b (both sorted)
        let mut bi = 0;
        let mut ok = true;
        for x in a {
            while bi < b.len() && &b[bi] < x {
                bi += 1;
            }
            if bi < b.len() && &b[bi] == x {
                bi += 1;
            } else {
                ok = false;
                break;
            }
        }
        if !ok {
            ctx.run.violation(
                &format!(
                    "intersecting_patches not monotone: {} | {} -> {} | tables {} {}",
                    fc.kind,
                    def_sig(&defs[*i]),
                    def_sig(&defs[*j]),
                    table_sig(fc.ift),
                    table_sig(fc.iftx)
                ),
                &format!(
                    "definition d is a subset of d' but patches(d)={:?} is not contained in patches(d')={:?}",
                    a, b
                ),
                case_json(fc, Some(&defs[*i]), Some(&defs[*j])),
            );
        }
    }
}

fn report_disagreement(
    ctx: &Ctx,
    fc: &FontCase,
    d: &Def,
    real: &Obs,
    want: &Obs,
    reference: Option<&Vec<RefPatch>>,
) {
    // identity: direction + the shape of the first entry the two sides disagree on
    let (dir, uri) = match (real, want) {
        (Err(_), Ok(_)) => ("rejects a table the reference accepts".to_string(), None),
        (Ok(_), Err(e)) => (format!("accepts a table the reference rejects ({e})"), None),
        (Ok(a), Ok(b)) => {
            if let Some(x) = b.iter().find(|x| !a.contains(x)) {
                ("misses an intersecting entry".to_string(), Some(x.0.clone()))
            } else if let Some(x) = a.iter().find(|x| !b.contains(x)) {
                ("offers a non-intersecting/excluded entry".to_string(), Some(x.0.clone()))
            } else {
                ("multiplicity differs".to_string(), None)
            }
        }
        _ => ("?".into(), None),
    };
    // find the entry with that uri in the models for a shape signature
    let mut shape = String::new();
    if let Some(u) = &uri {
        for t in [fc.ift, fc.iftx].into_iter().flatten() {
            match t {
                TableModel::F2(t) => {
                    if let Ok(ids) = t2_ids(t) {
                        for (i, id) in ids.iter().enumerate() {
                            if &expand_uri(&t.template, id) == u && shape.is_empty() {
                                shape = format!("format2 entry[{}] {}", i.min(3), e2_sig(&t.entries[i]));
                            }
                        }
                    }
                }
                TableModel::F1(t) => {
                    if shape.is_empty() && u.starts_with(&String::from_utf8_lossy(&t.template).replace("{id}", "")) {
                        shape = format!(
                            "format1 fmt={} featuremap={}",
                            t.patch_format,
                            t.feature_map.is_some()
                        );
                    }
                }
            }
        }
    }
    let _ = reference;
    ctx.run.violation(
        &format!("intersecting_patches {dir}: {} | {} | {shape}", fc.kind, def_sig(d)),
        &format!("real={:?} reference={:?}", real, want),
        case_json(fc, Some(d), None),
    );
}

// ---------------------------------------------------------------------------
// body
// ---------------------------------------------------------------------------

fn body(run: &Run, replay: Option<&Value>) {
    run.rule("a case is (font holding one or two harness-encoded mapping tables, subset definition) [parts 1-3] or a path of (definition, select, apply) rounds [part 4]; distinct = digest of (space, definition class, returned URIs/formats or group/outcome); non-trivial = at least one patch offered / selected / applied");
    run.assume("reference semantics of entry intersection are written from the operations cited in patchmap.rs (check-entry-intersection, interpret-format-2-patch-map-entry, format-1 glyph/feature map interpretation, invalidating-patch-selection); the W3C text is not available offline. The reference is gated on the repository's own patchmap.rs test expectations over the font-test-data::ift fixtures before it is used");
    run.assume("harness encoders for mapping tables are gated byte-for-byte on the font-test-data::ift fixtures; write-fonts FontBuilder/Cmap builder and read-fonts FontRef are trusted to wrap tables into a font");
    run.assume("patch bytes use uncompressed bodies through pass-through decoders (the decoder is an injected dependency of the API)");
    let base = base_tables();
    if let Err(e) = extra::fixtures_hold_notdef_pairs(&base) {
        run.machinery_error(&format!("fixture cmap lost its code point -> glyph 0 pairs: {e}"));
        return;
    }
    if let Some(case) = replay {
        replay_case(run, &base, case);
        return;
    }
    // conformance gate of encoders + reference (exit 2 if it fails)
    let gate_ok = gate::run_gate(run);
    run.extra("reference_assumptions", gate::reference_assumptions());
    let gate2_ok = extra::gate_templates(run, &base);
    let gate3_ok = audit::gate_sbs(run);
    if !gate_ok || !gate2_ok || !gate3_ok {
        return;
    }
    let ctx = Ctx {
        run,
        sink: Mutex::new(Local::default()),
    };
    // C19_TIMING=1 prints the wall time of every space to stderr (diagnostics only, no decisions)
    let timing = std::env::var("C19_TIMING").is_ok();
    let mut t0 = std::time::Instant::now();
    let mut lap = |name: &str| {
        if timing {
            eprintln!("[timing] {name}: {:.2}s", t0.elapsed().as_secs_f64());
        }
        t0 = std::time::Instant::now();
    };
    spaces_f2(&ctx, &base);
    lap("spaces_f2");
    spaces_f2_ids(&ctx, &base);
    lap("spaces_f2_ids");
    extra::spaces_templates(&ctx, &base);
    lap("extra::spaces_templates");
    extra::spaces_malformed(&ctx, &base);
    lap("extra::spaces_malformed");
    extra::spaces_axes(&ctx, &base);
    lap("extra::spaces_axes");
    extra::spaces_explicit_empty(&ctx, &base);
    lap("extra::spaces_explicit_empty");
    extra::spaces_f1_cmap12(&ctx, &base);
    lap("extra::spaces_f1_cmap12");
    extra::spaces_f1_width_boundary(&ctx, &base);
    lap("extra::spaces_f1_width_boundary");
    extra::spaces_pages(&ctx, &base);
    lap("extra::spaces_pages");
    audit::spaces_sbs(&ctx, &base);
    lap("audit::spaces_sbs");
    audit::spaces_segorder(&ctx, &base);
    lap("audit::spaces_segorder");
    audit::spaces_f1_groups(&ctx, &base);
    lap("audit::spaces_f1_groups");
    audit::spaces_children(&ctx, &base);
    lap("audit::spaces_children");
    audit::spaces_cff(&ctx, &base);
    lap("audit::spaces_cff");
    audit::spaces_featmerge(&ctx, &base);
    lap("audit::spaces_featmerge");
    audit::spaces_dups(&ctx, &base);
    lap("audit::spaces_dups");
    audit::spaces_misc(&ctx, &base);
    lap("audit::spaces_misc");
    if run.tier == Tier::Thorough {
        spaces_f2_three_large(&ctx, &base);
        lap("spaces_f2_three_large");
    }
    spaces_f1(&ctx, &base);
    lap("spaces_f1");
    spaces_two(&ctx, &base);
    lap("spaces_two");
    groups::run_groups(&ctx, &base);
    lap("groups::run_groups");
    ext::run_ext(&ctx, &base);
    lap("ext::run_ext");
    let l = std::mem::take(&mut *ctx.sink.lock().unwrap());
    run.evals(l.evals);
    run.trans(l.evals);
    run.observe_many(&l.all, &l.nontrivial);
    run.count("monotonicity_pairs_checked", l.mono_pairs);
    run.count("ext_successful_glyph_keyed_rounds", l.ext_gk_rounds);
    run.count("ext_successful_table_keyed_rounds", l.ext_tk_rounds);
    if run.violations() == 0 && (l.ext_gk_rounds == 0 || l.ext_tk_rounds == 0) {
        run.machinery_error("extension search is vacuous: no successful glyph keyed or table keyed round");
    }
}

fn replay_case(run: &Run, base: &BaseTables, case: &Value) {
    let kind = case["kind"].as_str().unwrap_or("").to_string();
    if kind.starts_with("group") {
        groups::replay(run, base, case);
        return;
    }
    if kind.starts_with("ext") {
        ext::replay(run, base, case);
        return;
    }
    if kind == "f2-bad-crash" {
        let ctx = Ctx { run, sink: Mutex::new(Local::default()) };
        extra::spaces_malformed(&ctx, base);
        return;
    }
    if kind.starts_with("gate") {
        let _ = gate::run_gate(run);
        return;
    }
    let ift: Option<TableModel> = serde_json::from_value(case["ift"].clone()).ok().flatten();
    let iftx: Option<TableModel> = serde_json::from_value(case["iftx"].clone()).ok().flatten();
    let d: Def = serde_json::from_value(case["def"].clone()).expect("def");
    let d2: Option<Def> = serde_json::from_value(case["def2"].clone()).ok().flatten();
    let ctx = Ctx {
        run,
        sink: Mutex::new(Local::default()),
    };
    let fc = FontCase {
        kind: &kind,
        ift: ift.as_ref(),
        iftx: iftx.as_ref(),
    };
    let mut defs = vec![d];
    let mut pairs = vec![];
    if let Some(d2) = d2 {
        defs.push(d2);
        pairs.push((0, 1));
    }
    let sds: Vec<_> = defs.iter().map(to_subset_definition).collect();
    let mut l = Local::default();
    let b12 = extra::base_tables_cmap12();
    let base = if kind == "f1-cmap12" { &b12 } else { base };
    check_font(&ctx, base, &fc, &defs, &sds, &pairs, &mut l);
    println!("replayed {} definitions", defs.len());
}

// ---------------------------------------------------------------------------
// format 2 spaces
// ---------------------------------------------------------------------------

pub fn cps_alphabet(full: bool) -> Vec<Cps> {
    let mut v = vec![
        Cps::None,
        Cps::Set {
            bias_kind: 0,
            bias: 0,
            members: vec![A],
        },
        Cps::Set {
            bias_kind: 0,
            bias: 0,
            members: vec![A, B],
        },
    ];
    if full {
        v.extend([
            // biased range, u16 bias
            Cps::Set {
                bias_kind: 1,
                bias: R0,
                members: vec![R0, R5],
            },
            // bias 1 (the smallest non zero)
            Cps::Set {
                bias_kind: 1,
                bias: 1,
                members: vec![B],
            },
            // u24 bias, large
            Cps::Set {
                bias_kind: 2,
                bias: 80_000,
                members: vec![BIG],
            },
        ]);
    } else {
        v[2] = Cps::Set {
            bias_kind: 0,
            bias: 0,
            members: vec![B],
        };
    }
    v
}

pub fn seg(tag: TagB, a: i32, b: i32) -> Seg {
    Seg {
        tag,
        start: fx(a),
        end: fx(b),
    }
}

/// own (child free) entry shapes
pub fn own_shapes(full: bool) -> Vec<E2> {
    let feats: Vec<Vec<TagB>> = if full {
        vec![vec![], vec![LIGA], vec![LIGA, SMCP]]
    } else {
        vec![vec![], vec![LIGA]]
    };
    let segs: Vec<Vec<Seg>> = if full {
        vec![
            vec![],
            vec![seg(WGHT, 100, 400)],
            vec![seg(WGHT, 300, 700), seg(WDTH, 75, 100)],
        ]
    } else {
        vec![vec![], vec![seg(WGHT, 100, 400)]]
    };
    let mut out = vec![];
    for c in cps_alphabet(full) {
        for f in &feats {
            for s in &segs {
                let mut e = E2::plain();
                e.cps = c.clone();
                e.features = f.clone();
                e.segs = s.clone();
                e.fds = !f.is_empty() || !s.is_empty();
                out.push(e);
            }
        }
        if full {
            // flag present, both lists empty
            let mut e = E2::plain();
            e.cps = c.clone();
            e.fds = true;
            out.push(e);
        }
    }
    out
}

/// child specifications available to entry number `i` (0 based)
pub fn child_options(i: usize, with_empty: bool) -> Vec<Option<(bool, Vec<u32>)>> {
    let mut out = vec![None];
    if with_empty {
        out.push(Some((false, vec![])));
        out.push(Some((true, vec![])));
    }
    // all non-empty subsets of earlier entries (ascending), plus one descending order for 2 children
    let n = i as u32;
    for mask in 1u32..(1 << n) {
        let idx: Vec<u32> = (0..n).filter(|b| mask & (1 << b) != 0).collect();
        for conj in [false, true] {
            out.push(Some((conj, idx.clone())));
        }
        if idx.len() == 2 {
            let rev: Vec<u32> = idx.iter().rev().copied().collect();
            out.push(Some((true, rev)));
        }
    }
    out
}

pub fn t2_of(entries: Vec<E2>) -> T2 {
    T2 {
        compat: [1, 2, 3, 4],
        default_format: 3,
        template: b"p/{id}".to_vec(),
        entries,
        string_data: None,
        cff_off: None,
        cff2_off: None,
    }
}

fn with_ignored(shapes: &[E2]) -> Vec<E2> {
    let mut out = vec![];
    for s in shapes {
        out.push(s.clone());
        let mut i = s.clone();
        i.ignored = true;
        out.push(i);
    }
    out
}

fn spaces_f2(ctx: &Ctx, base: &BaseTables) {
    let run = ctx.run;
    let thorough = run.tier == Tier::Thorough;
    let defs = defs_f2(false);
    let sds: Vec<_> = defs.iter().map(to_subset_definition).collect();
    let pairs = subset_pairs(&defs);
    let defs_r = defs_f2(true);
    let sds_r: Vec<_> = defs_r.iter().map(to_subset_definition).collect();
    let pairs_r = subset_pairs(&defs_r);
    run.bound("definitions_f2", json!(defs.len()));
    run.bound("definitions_f2_reduced", json!(defs_r.len()));
    run.bound("subset_pairs_f2", json!(pairs.len()));
    run.bound("subset_pairs_f2_reduced", json!(pairs_r.len()));

    let full = with_ignored(&own_shapes(true));
    run.bound("f2_entry_shapes_full", json!(full.len()));
    // --- one entry: every full shape x child flag variants
    let mut one: Vec<T2> = vec![];
    for s in &full {
        for ch in child_options(0, true) {
            let mut e = s.clone();
            e.children = ch;
            one.push(t2_of(vec![e]));
        }
    }
    run.count("f2_tables_1_entry", one.len() as u64);
    par_tables(ctx, base, "f2-1", &one, &defs, &sds, &pairs);
    if one.len() >= 3 {
        run.sample(json!({"space":"f2-1","table": one[7], "definitions": defs.len()}));
    }

    // --- two entries: full shapes for both (quick: second entry un-ignored only), all child options
    // quick: second entry un-ignored, without the "flag present but empty" and "bias 1" shapes (44 of 60)
    let second: Vec<E2> = if thorough {
        full.clone()
    } else {
        own_shapes(true)
            .into_iter()
            .filter(|e| !(e.fds && e.features.is_empty() && e.segs.is_empty()))
            .filter(|e| !matches!(&e.cps, Cps::Set { bias: 1, .. }))
            .collect()
    };
    let ch0 = child_options(0, true);
    let ch1 = child_options(1, true);
    let n0 = full.len();
    let n1 = second.len();
    run.count(
        "f2_tables_2_entries",
        (n0 * n1 * ch0.len() * ch1.len()) as u64,
    );
    {
        let full = &full;
        let second = &second;
        let (ch0, ch1) = (&ch0, &ch1);
        // quick: the reduced definition list (5 of the 8 design spaces); thorough: all 240
        let (defs, sds, pairs) = if thorough { (&defs, &sds, &pairs) } else { (&defs_r, &sds_r, &pairs_r) };
        par_for(n0 * ch0.len(), |k| {
            let mut l = Local::default();
            let (i0, c0) = (k / ch0.len(), k % ch0.len());
            for e1 in second.iter() {
                for c1 in ch1.iter() {
                    let mut a = full[i0].clone();
                    a.children = ch0[c0].clone();
                    let mut b = e1.clone();
                    b.children = c1.clone();
                    let t = TableModel::F2(t2_of(vec![a, b]));
                    let fc = FontCase {
                        kind: "f2-2",
                        ift: Some(&t),
                        iftx: None,
                    };
                    check_font(ctx, base, &fc, defs, sds, pairs, &mut l);
                }
            }
            ctx.merge(l);
        });
    }

    // --- three entries: reduced shapes, children over all subsets of earlier entries
    let red = own_shapes(false);
    let red_i = with_ignored(&red);
    run.bound("f2_entry_shapes_reduced", json!(red_i.len()));
    // quick: ignored variants of the first entry only for every other shape
    let e0s: Vec<E2> = if thorough {
        red_i.clone()
    } else {
        red_i.iter().enumerate().filter(|(i, e)| !e.ignored || i % 4 == 1).map(|(_, e)| e.clone()).collect()
    };
    let e1s: Vec<E2> = if thorough { red_i.clone() } else { red.clone() };
    let e2s: Vec<E2> = red.clone();
    let c1 = child_options(1, false);
    let c2 = child_options(2, thorough);
    run.count(
        "f2_tables_3_entries",
        (e0s.len() * e1s.len() * e2s.len() * c1.len() * c2.len()) as u64,
    );
    {
        let (e0s, e1s, e2s, c1, c2) = (&e0s, &e1s, &e2s, &c1, &c2);
        // thorough: all 240 definitions; quick: the reduced list
        let (defs_r, sds_r, pairs_r) = if thorough { (&defs, &sds, &pairs) } else { (&defs_r, &sds_r, &pairs_r) };
        par_for(e0s.len() * e1s.len(), |k| {
            let mut l = Local::default();
            let (i0, i1) = (k / e1s.len(), k % e1s.len());
            for x in e2s.iter() {
                for ca in c1.iter() {
                    for cb in c2.iter() {
                        let a = e0s[i0].clone();
                        let mut b = e1s[i1].clone();
                        b.children = ca.clone();
                        let mut c = x.clone();
                        c.children = cb.clone();
                        let t = TableModel::F2(t2_of(vec![a, b, c]));
                        let fc = FontCase {
                            kind: "f2-3",
                            ift: Some(&t),
                            iftx: None,
                        };
                        check_font(ctx, base, &fc, defs_r, sds_r, pairs_r, &mut l);
                    }
                }
            }
            ctx.merge(l);
        });
    }
}

/// thorough only: three-entry tables with the FULL shape alphabet on the first two entries
/// (120 x 60 shapes), the reduced one on the third, children over all subsets of earlier entries
fn spaces_f2_three_large(ctx: &Ctx, base: &BaseTables) {
    let defs = defs_f2(true);
    let sds: Vec<_> = defs.iter().map(to_subset_definition).collect();
    let pairs = subset_pairs(&defs);
    let e0s = with_ignored(&own_shapes(true));
    let e1s = own_shapes(true);
    let e2s = own_shapes(false);
    let c1 = child_options(1, false);
    let c2 = child_options(2, false);
    ctx.run.count(
        "f2_tables_3_entries_large_alphabet",
        (e0s.len() * e1s.len() * e2s.len() * c1.len() * c2.len()) as u64,
    );
    let (e0s, e1s, e2s, c1, c2, defs, sds, pairs) = (&e0s, &e1s, &e2s, &c1, &c2, &defs, &sds, &pairs);
    par_for(e0s.len() * e1s.len(), |k| {
        let mut l = Local::default();
        let (i0, i1) = (k / e1s.len(), k % e1s.len());
        for x in e2s.iter() {
            for ca in c1.iter() {
                for cb in c2.iter() {
                    let a = e0s[i0].clone();
                    let mut b = e1s[i1].clone();
                    b.children = ca.clone();
                    let mut c = x.clone();
                    c.children = cb.clone();
                    let t = TableModel::F2(t2_of(vec![a, b, c]));
                    let fc = FontCase {
                        kind: "f2-3L",
                        ift: Some(&t),
                        iftx: None,
                    };
                    check_font(ctx, base, &fc, defs, sds, pairs, &mut l);
                }
            }
        }
        ctx.merge(l);
    });
}

fn par_tables(
    ctx: &Ctx,
    base: &BaseTables,
    kind: &str,
    tables: &[T2],
    defs: &[Def],
    sds: &[SubsetDefinition],
    pairs: &[(usize, usize)],
) {
    par_for(tables.len(), |i| {
        let mut l = Local::default();
        let t = TableModel::F2(tables[i].clone());
        let fc = FontCase {
            kind,
            ift: Some(&t),
            iftx: None,
        };
        check_font(ctx, base, &fc, defs, sds, pairs, &mut l);
        ctx.merge(l);
    });
}

/// id deltas / id strings / per entry formats / default formats on 2-entry tables
fn spaces_f2_ids(ctx: &Ctx, base: &BaseTables) {
    let defs = vec![
        Def {
            cps: DCps::AllExcept(vec![]),
            feats: DFeat::All,
            ds: DDs::All,
        },
        Def {
            cps: DCps::Set(vec![A]),
            feats: DFeat::Set(vec![]),
            ds: DDs::Ranges(vec![]),
        },
        Def {
            cps: DCps::Set(vec![]),
            feats: DFeat::Set(vec![]),
            ds: DDs::Ranges(vec![]),
        },
    ];
    let sds: Vec<_> = defs.iter().map(to_subset_definition).collect();
    let pairs = subset_pairs(&defs);
    let cps_a = Cps::Set {
        bias_kind: 0,
        bias: 0,
        members: vec![A],
    };
    let num_ids = [
        IdSpec::Default,
        IdSpec::Delta(0),
        IdSpec::Delta(-1),
        IdSpec::Delta(-2),
        IdSpec::Delta(5),
        IdSpec::Delta(0x7F_FFFF),
        IdSpec::Delta(-0x80_0000),
    ];
    let str_ids = [
        IdSpec::Default,
        IdSpec::StrLen(0),
        IdSpec::StrLen(1),
        IdSpec::StrLen(3),
        IdSpec::StrLen(5),
    ];
    let fmts = [None, Some(1u8), Some(2), Some(3), Some(0), Some(4)];
    let mut tables = vec![];
    for strings in [false, true] {
        let ids: &[IdSpec] = if strings { &str_ids } else { &num_ids };
        for default_format in [3u8, 1, 2, 0, 4] {
            for i0 in ids {
                for i1 in ids {
                    for f0 in fmts {
                        for f1 in fmts {
                            for ign0 in [false, true] {
                                let mut a = E2::plain();
                                a.cps = cps_a.clone();
                                a.id = i0.clone();
                                a.patch_format = f0;
                                a.ignored = ign0;
                                let mut b = E2::plain();
                                b.id = i1.clone();
                                b.patch_format = f1;
                                let mut t = t2_of(vec![a, b]);
                                t.default_format = default_format;
                                if strings {
                                    t.string_data = Some(b"abcdef".to_vec());
                                }
                                tables.push(t);
                            }
                        }
                    }
                }
            }
        }
    }
    ctx.run.count("f2_tables_ids_formats", tables.len() as u64);
    ctx.run.sample(json!({"space":"f2-ids","table": tables[tables.len() / 3]}));
    par_tables(ctx, base, "f2-ids", &tables, &defs, &sds, &pairs);
}

// ---------------------------------------------------------------------------
// format 1 spaces
// ---------------------------------------------------------------------------

pub fn feature_maps() -> Vec<Option<Vec<FRec>>> {
    let r = |tag: TagB, first_new: u16, maps: &[(u16, u16)]| FRec {
        tag,
        first_new,
        maps: maps.to_vec(),
    };
    vec![
        None,
        Some(vec![]),
        Some(vec![r(LIGA, 4, &[(1, 1)])]),
        Some(vec![r(LIGA, 4, &[(1, 2), (0, 0)])]),
        // sorted: dlig < liga
        Some(vec![r(DLIG, 4, &[(1, 1)]), r(LIGA, 5, &[(2, 3)])]),
        // out of order
        Some(vec![r(LIGA, 4, &[(1, 1)]), r(DLIG, 5, &[(2, 3)])]),
        // duplicate
        Some(vec![r(LIGA, 4, &[(1, 1)]), r(LIGA, 5, &[(2, 2)])]),
        // mapped index inside the glyph map range (invalid unless max_glyph_map_entry_index < 3)
        Some(vec![r(LIGA, 3, &[(1, 1), (2, 2)])]),
        // second mapped index exceeds max_entry_index
        Some(vec![r(LIGA, 6, &[(1, 1), (2, 2)])]),
        // first > last; last beyond the glyph map range
        Some(vec![r(LIGA, 4, &[(2, 1), (1, 4)])]),
        // both records map to the same new entry
        Some(vec![r(DLIG, 4, &[(1, 1)]), r(SMCP, 4, &[(2, 2)])]),
        // three records, middle one out of order
        Some(vec![
            r(LIGA, 4, &[(1, 1)]),
            r(DLIG, 5, &[(1, 3)]),
            r(SMCP, 6, &[(0, 3)]),
        ]),
    ]
}

fn spaces_f1(ctx: &Ctx, base: &BaseTables) {
    let run = ctx.run;
    let thorough = run.tier == Tier::Thorough;
    let defs = defs_f1();
    let sds: Vec<_> = defs.iter().map(to_subset_definition).collect();
    let pairs = subset_pairs(&defs);
    run.bound("definitions_f1", json!(defs.len()));
    run.bound("subset_pairs_f1", json!(pairs.len()));
    let fmaps = feature_maps();
    run.bound("f1_feature_maps", json!(fmaps.len()));
    run.bound("f1_glyph_maps", json!(if thorough { "all maps gid first..6 -> {0,1,2,3} for first in {1,3,6}: 1024+64+1" } else { "first=1: 256 of 1024 (gid4 in {0, entry(gid1)}, gid5 in {0,3}); first=3: 64; first=6: 1" }));
    // glyph maps: gids first..6 -> entries {0..3}
    let mut configs: Vec<T1> = vec![];
    for first in [1u16, 3, 6] {
        let n = (6 - first) as u32;
        let total = 4u32.pow(n);
        for code in 0..total {
            let entry_index: Vec<u16> = (0..n).map(|k| ((code >> (2 * k)) & 3) as u16).collect();
            // the quick tier thins the 1024 maps of first=1 to those where gid 4 maps to 0 or to gid 1's
            // entry and gid 5 maps to 0 or 3 (256 maps); thorough keeps all 1024
            if !thorough && first == 1 {
                let (g1, g4, g5) = (entry_index[0], entry_index[3], entry_index[4]);
                if !((g4 == 0 || g4 == g1) && (g5 == 0 || g5 == 3)) {
                    continue;
                }
            }
            for max_gm in [3u16, 2] {
                for (fi, fm) in fmaps.iter().enumerate() {
                    // thin the product in quick: feature maps 7.. only with max_gm = 3 and first = 3
                    if !thorough && fi >= 7 && !(first == 3) {
                        continue;
                    }
                    for patch_format in [3u8, 1] {
                        if patch_format == 1 && !thorough && first != 3 {
                            continue;
                        }
                        configs.push(T1 {
                            compat: [1, 2, 3, 4],
                            max_entry_index: 6,
                            max_glyph_map_entry_index: max_gm,
                            glyph_count: 6,
                            first_mapped_glyph: first,
                            entry_index: entry_index.clone(),
                            feature_map: fm.clone(),
                            applied: vec![0],
                            template: b"p/{id}".to_vec(),
                            patch_format,
                            cff_off: None,
                            cff2_off: None,
                        });
                    }
                }
            }
        }
    }
    // applied-bit states: three fixed ones for every config ...
    let applied_few = [0u8, 0b0000_0100, 0b0101_1010];
    run.count("f1_tables_glyph_feature_maps", (configs.len() * applied_few.len()) as u64);
    run.sample(json!({"space":"f1","table": configs[configs.len() / 2], "definitions": defs.len()}));
    {
        let (configs, defs, sds, pairs) = (&configs, &defs, &sds, &pairs);
        par_for(configs.len(), |i| {
            let mut l = Local::default();
            for ap in applied_few {
                let mut t = configs[i].clone();
                t.applied = vec![ap];
                let t = TableModel::F1(t);
                let fc = FontCase {
                    kind: "f1",
                    ift: Some(&t),
                    iftx: None,
                };
                check_font(ctx, base, &fc, defs, sds, pairs, &mut l);
            }
            ctx.merge(l);
        });
    }
    // ... and every one of the 128 states of bits 0..6 for a fixed family of maps
    let mut fam: Vec<T1> = vec![];
    for fm in [&fmaps[0], &fmaps[4], &fmaps[11]] {
        for entry_index in [vec![1u16, 2, 3, 1, 0], vec![3, 3, 2, 1, 1]] {
            for patch_format in [3u8, 2] {
                fam.push(T1 {
                    compat: [1, 2, 3, 4],
                    max_entry_index: 6,
                    max_glyph_map_entry_index: 3,
                    glyph_count: 6,
                    first_mapped_glyph: 1,
                    entry_index: entry_index.clone(),
                    feature_map: fm.clone(),
                    applied: vec![0],
                    template: b"p/{id}".to_vec(),
                    patch_format,
                    cff_off: None,
                    cff2_off: None,
                });
            }
        }
    }
    run.count("f1_tables_all_applied_states", (fam.len() * 128) as u64);
    {
        let (fam, defs, sds, pairs) = (&fam, &defs, &sds, &pairs);
        par_for(fam.len() * 128, |k| {
            let mut l = Local::default();
            let mut t = fam[k / 128].clone();
            t.applied = vec![(k % 128) as u8];
            let t = TableModel::F1(t);
            let fc = FontCase {
                kind: "f1-applied",
                ift: Some(&t),
                iftx: None,
            };
            check_font(ctx, base, &fc, defs, sds, pairs, &mut l);
            ctx.merge(l);
        });
    }
    // wide (u16) entry indices: entries {0,1,256,300}, feature entries 301..
    let mut wide: Vec<T1> = vec![];
    let alpha = [0u16, 1, 256, 300];
    for code in 0..4u32.pow(3) {
        let entry_index: Vec<u16> = (0..3).map(|k| alpha[((code >> (2 * k)) & 3) as usize]).collect();
        for fm in [
            None,
            Some(vec![
                FRec {
                    tag: DLIG,
                    first_new: 301,
                    maps: vec![(1, 256)],
                },
                FRec {
                    tag: LIGA,
                    first_new: 302,
                    maps: vec![(256, 300), (0, 0)],
                },
            ]),
        ] {
            for bit in [None, Some(256u16), Some(303), Some(1)] {
                let mut applied = vec![0u8; bitmap_len(310)];
                if let Some(b) = bit {
                    applied[b as usize / 8] |= 1 << (b % 8);
                }
                wide.push(T1 {
                    compat: [1, 2, 3, 4],
                    max_entry_index: 310,
                    max_glyph_map_entry_index: 300,
                    glyph_count: 6,
                    first_mapped_glyph: 3,
                    entry_index: entry_index.clone(),
                    feature_map: fm.clone(),
                    applied,
                    template: b"p/{id}".to_vec(),
                    patch_format: 3,
                    cff_off: None,
                    cff2_off: None,
                });
            }
        }
    }
    // malformed headers the reference rejects
    let mut bad = configs[0].clone();
    bad.glyph_count = 7;
    bad.entry_index.push(0);
    wide.push(bad);
    let mut bad = configs[0].clone();
    bad.max_glyph_map_entry_index = 7;
    wide.push(bad);
    let mut bad = configs[0].clone();
    bad.patch_format = 4;
    wide.push(bad);
    let mut bad = configs[0].clone();
    bad.template = vec![0x80, 0x81];
    wide.push(bad);
    run.count("f1_tables_wide_and_malformed", wide.len() as u64);
    {
        let (wide, defs, sds, pairs) = (&wide, &defs, &sds, &pairs);
        par_for(wide.len(), |i| {
            let mut l = Local::default();
            let t = TableModel::F1(wide[i].clone());
            let fc = FontCase {
                kind: "f1-wide",
                ift: Some(&t),
                iftx: None,
            };
            check_font(ctx, base, &fc, defs, sds, pairs, &mut l);
            ctx.merge(l);
        });
    }
}

/// fonts carrying both IFT and IFTX (format 2 + format 1 / format 2), equal and different compat ids
fn spaces_two(ctx: &Ctx, base: &BaseTables) {
    let defs = defs_f2(true);
    let sds: Vec<_> = defs.iter().map(to_subset_definition).collect();
    let pairs = subset_pairs(&defs);
    let shapes = with_ignored(&own_shapes(false));
    let f1s: Vec<T1> = {
        let mut v = vec![];
        for applied in [0u8, 0b10] {
            for fm in [None, Some(vec![FRec { tag: LIGA, first_new: 4, maps: vec![(1, 2)] }])] {
                v.push(T1 {
                    compat: [9, 9, 9, 9],
                    max_entry_index: 6,
                    max_glyph_map_entry_index: 3,
                    glyph_count: 6,
                    first_mapped_glyph: 1,
                    entry_index: vec![1, 2, 3, 1, 0],
                    feature_map: fm,
                    applied: vec![applied],
                    template: b"q/{id}".to_vec(),
                    patch_format: 3,
                    cff_off: None,
                    cff2_off: None,
                });
            }
        }
        v
    };
    let mut cases: Vec<(TableModel, TableModel)> = vec![];
    for s in &shapes {
        for compat in [[1u32, 2, 3, 4], [9, 9, 9, 9]] {
            let mut t = t2_of(vec![s.clone()]);
            t.compat = compat;
            for f1 in &f1s {
                cases.push((TableModel::F2(t.clone()), TableModel::F1(f1.clone())));
                cases.push((TableModel::F1(f1.clone()), TableModel::F2(t.clone())));
            }
            for s2 in &shapes {
                let mut t2 = t2_of(vec![s2.clone()]);
                t2.template = b"q/{id}".to_vec();
                t2.compat = [9, 9, 9, 9];
                cases.push((TableModel::F2(t.clone()), TableModel::F2(t2)));
            }
        }
    }
    ctx.run.count("two_table_fonts", cases.len() as u64);
    ctx.run.sample(json!({"space":"two","ift": cases[5].0, "iftx": cases[5].1}));
    let (cases, defs, sds, pairs) = (&cases, &defs, &sds, &pairs);
    par_for(cases.len(), |i| {
        let mut l = Local::default();
        let fc = FontCase {
            kind: "two",
            ift: Some(&cases[i].0),
            iftx: Some(&cases[i].1),
        };
        check_font(ctx, base, &fc, defs, sds, pairs, &mut l);
        // IFTX alone as well
        let fc = FontCase {
            kind: "iftx-only",
            ift: None,
            iftx: Some(&cases[i].1),
        };
        check_font(ctx, base, &fc, defs, sds, pairs, &mut l);
        ctx.merge(l);
    });
}
