//! Index-boundary families (added by the coverage audit, see ../AUDIT.md).
//!
//!  N. every index the variable-paint code follows: varIndexBase (+k), DeltaSetIndexMap entry
//!     (format 0 and 1, entry sizes 1-4, inner bit counts), outer index against itemVariationDataCount
//!     {0, 1, 2, null subtable offsets}, inner index against itemCount, wordDeltaCount / LONG_WORDS
//!     row layouts; each at seven locations (four of which make every region scalar 0).
//!  P. every index the non-variable lookups follow: BaseGlyphList / BaseGlyph (v0) binary searches,
//!     ClipList range search, PaintColrGlyph targets, PaintColrLayers ranges against the LayerList length.
//!  S. colour-line stop counts around the inline capacity of the traversal's stop vector (32), for
//!     every gradient kind, variable and not, and pairs of gradients in one glyph (buffer reuse).
//!
//! All of them use a painter that records VALUES (transform matrices, clip boxes, brushes), so that
//! "an out-of-range delta set contributes nothing" and "the right record was found" can be decided.

use super::{dyck, Ev, LIMIT_MSG};
use crate::graph::*;
use font_types::{F2Dot14, FWord, GlyphId16};
use rayon::prelude::*;
use read_fonts::FontRef;
use serde_json::{json, Value};
use skrifa::color::{Brush, ColorGlyphFormat, ColorPainter, CompositeMode, PaintCachedColorGlyph, PaintError, Transform};
use skrifa::instance::LocationRef;
use skrifa::{GlyphId, MetadataProvider};
use std::collections::HashSet;
use std::sync::atomic::{AtomicU64, Ordering};
use vcore::*;
use write_fonts::tables::colr::*;
use write_fonts::tables::variations::{DeltaSetIndexMap, ItemVariationData, ItemVariationStore, RegionAxisCoordinates, VariationRegion, VariationRegionList};
use write_fonts::FontBuilder;

// ---------------------------------------------------------------------------
// value-recording painter
// ---------------------------------------------------------------------------

/// bits of an f32 with -0.0 folded into 0.0
fn fb(v: f32) -> u32 {
    (v + 0.0).to_bits()
}

#[derive(Clone, Debug, PartialEq, Eq, Hash)]
pub struct BrushSig {
    pub kind: u8,
    pub geom: Vec<u32>,
    /// (offset bits, palette index, alpha bits)
    pub stops: Vec<(u32, u16, u32)>,
    pub extend: u8,
}

fn brush_sig(b: &Brush<'_>) -> BrushSig {
    let st = |s: &[skrifa::color::ColorStop]| s.iter().map(|c| (fb(c.offset), c.palette_index, fb(c.alpha))).collect::<Vec<_>>();
    match b {
        Brush::Solid { palette_index, alpha } => BrushSig { kind: 0, geom: vec![*palette_index as u32, fb(*alpha)], stops: vec![], extend: 0 },
        Brush::LinearGradient { p0, p1, color_stops, extend } => BrushSig { kind: 1, geom: vec![fb(p0.x), fb(p0.y), fb(p1.x), fb(p1.y)], stops: st(color_stops), extend: *extend as u8 },
        Brush::RadialGradient { c0, r0, c1, r1, color_stops, extend } => BrushSig { kind: 2, geom: vec![fb(c0.x), fb(c0.y), fb(*r0), fb(c1.x), fb(c1.y), fb(*r1)], stops: st(color_stops), extend: *extend as u8 },
        Brush::SweepGradient { c0, start_angle, end_angle, color_stops, extend } => BrushSig { kind: 3, geom: vec![fb(c0.x), fb(c0.y), fb(*start_angle), fb(*end_angle)], stops: st(color_stops), extend: *extend as u8 },
    }
}

fn xf_sig(t: &Transform) -> [u32; 6] {
    [fb(t.xx), fb(t.yx), fb(t.xy), fb(t.yy), fb(t.dx), fb(t.dy)]
}

#[derive(Clone, Debug, PartialEq, Eq, Hash)]
pub enum VEv {
    PushTransform([u32; 6]),
    PopTransform,
    PushClipGlyph(u32),
    PushClipBox([u32; 4]),
    PopClip,
    PushLayer(u8),
    PopLayer,
    Fill(BrushSig),
    FillGlyph(u32, Option<[u32; 6]>, BrushSig),
    Cached(u32),
}

impl VEv {
    fn plain(&self) -> Ev {
        match self {
            VEv::PushTransform(_) => Ev::PushTransform,
            VEv::PopTransform => Ev::PopTransform,
            VEv::PushClipGlyph(g) => Ev::PushClipGlyph(*g),
            VEv::PushClipBox(_) => Ev::PushClipBox,
            VEv::PopClip => Ev::PopClip,
            VEv::PushLayer(m) => Ev::PushLayer(*m),
            VEv::PopLayer => Ev::PopLayer,
            VEv::Fill(b) => Ev::Fill(b.kind),
            VEv::FillGlyph(g, t, b) => Ev::FillGlyph(*g, t.is_some(), b.kind),
            VEv::Cached(g) => Ev::Cached(*g),
        }
    }
}

struct VRec {
    events: Vec<VEv>,
    cache_ok: bool,
    limit: usize,
}
impl VRec {
    fn ev(&mut self, e: VEv) {
        self.events.push(e);
        if self.events.len() > self.limit {
            panic!("{}", LIMIT_MSG);
        }
    }
}
impl ColorPainter for VRec {
    fn push_transform(&mut self, t: Transform) {
        self.ev(VEv::PushTransform(xf_sig(&t)))
    }
    fn pop_transform(&mut self) {
        self.ev(VEv::PopTransform)
    }
    fn push_clip_glyph(&mut self, g: GlyphId) {
        self.ev(VEv::PushClipGlyph(g.to_u32()))
    }
    fn push_clip_box(&mut self, b: read_fonts::types::BoundingBox<f32>) {
        self.ev(VEv::PushClipBox([fb(b.x_min), fb(b.y_min), fb(b.x_max), fb(b.y_max)]))
    }
    fn pop_clip(&mut self) {
        self.ev(VEv::PopClip)
    }
    fn fill(&mut self, b: Brush<'_>) {
        self.ev(VEv::Fill(brush_sig(&b)))
    }
    fn fill_glyph(&mut self, glyph_id: GlyphId, brush_transform: Option<Transform>, brush: Brush<'_>) {
        self.ev(VEv::FillGlyph(glyph_id.to_u32(), brush_transform.map(|t| xf_sig(&t)), brush_sig(&brush)))
    }
    fn paint_cached_color_glyph(&mut self, g: GlyphId) -> Result<PaintCachedColorGlyph, PaintError> {
        self.ev(VEv::Cached(g.to_u32()));
        Ok(if self.cache_ok { PaintCachedColorGlyph::Ok } else { PaintCachedColorGlyph::Unimplemented })
    }
    fn push_layer(&mut self, m: CompositeMode) {
        self.ev(VEv::PushLayer(m as u8))
    }
    fn pop_layer(&mut self) {
        self.ev(VEv::PopLayer)
    }
}

/// the client that keeps the trait's provided `fill_glyph`
struct VRecDefault(VRec);
impl ColorPainter for VRecDefault {
    fn push_transform(&mut self, t: Transform) {
        self.0.push_transform(t)
    }
    fn pop_transform(&mut self) {
        self.0.pop_transform()
    }
    fn push_clip_glyph(&mut self, g: GlyphId) {
        self.0.push_clip_glyph(g)
    }
    fn push_clip_box(&mut self, b: read_fonts::types::BoundingBox<f32>) {
        self.0.push_clip_box(b)
    }
    fn pop_clip(&mut self) {
        self.0.pop_clip()
    }
    fn fill(&mut self, b: Brush<'_>) {
        self.0.fill(b)
    }
    fn paint_cached_color_glyph(&mut self, g: GlyphId) -> Result<PaintCachedColorGlyph, PaintError> {
        self.0.paint_cached_color_glyph(g)
    }
    fn push_layer(&mut self, m: CompositeMode) {
        self.0.push_layer(m)
    }
    fn pop_layer(&mut self) {
        self.0.pop_layer()
    }
}

#[derive(Debug, Clone, PartialEq, Eq, Hash)]
pub struct PaintedV {
    /// None: no colour glyph for that id; Some(true): Ok
    pub result: Option<Result<(), String>>,
    pub events: Vec<VEv>,
}

pub fn paint_v(font_bytes: &[u8], gid: u32, format: Option<ColorGlyphFormat>, coords: &[f32], cache_ok: bool, decompose: bool, limit: usize) -> Result<PaintedV, PanicInfo> {
    guard(|| {
        let font = FontRef::new(font_bytes).expect("FontBuilder output parses");
        let coords: Vec<skrifa::instance::NormalizedCoord> = coords.iter().map(|c| skrifa::instance::NormalizedCoord::from_f32(*c)).collect();
        let glyphs = font.color_glyphs();
        let cg = match format {
            Some(f) => glyphs.get_with_format(GlyphId::new(gid), f),
            None => glyphs.get(GlyphId::new(gid)),
        };
        let rec = VRec { events: vec![], cache_ok, limit };
        if decompose {
            let mut rec = VRecDefault(rec);
            let result = cg.map(|cg| cg.paint(LocationRef::new(&coords), &mut rec).map_err(|e| format!("{e:?}")));
            PaintedV { result, events: rec.0.events }
        } else {
            let mut rec = rec;
            let result = cg.map(|cg| cg.paint(LocationRef::new(&coords), &mut rec).map_err(|e| format!("{e:?}")));
            PaintedV { result, events: rec.events }
        }
    })
}

#[derive(Default)]
pub struct VAcc {
    all: HashSet<u64>,
    nontrivial: HashSet<u64>,
    runs: u64,
    ok: u64,
    err: u64,
    none: u64,
    trans: u64,
}

fn vflush(run: &Run, a: VAcc, pre: &str) {
    run.observe_many(&a.all, &a.nontrivial);
    run.evals(a.runs);
    run.trans(a.trans);
    run.count(&format!("{pre}.paint_runs"), a.runs);
    run.count(&format!("{pre}.ok"), a.ok);
    run.count(&format!("{pre}.err"), a.err);
    run.count(&format!("{pre}.no_colour_glyph"), a.none);
}

/// one paint run with the property's own oracles: returns, no panic, bounded callbacks, Ok => Dyck word
fn paint_checked(run: &Run, font: &[u8], gid: u32, format: Option<ColorGlyphFormat>, coords: &[f32], cache_ok: bool, decompose: bool, limit: usize, case: &dyn Fn() -> Value, tag: &str, key: u64, acc: &mut VAcc) -> Option<PaintedV> {
    acc.runs += 1;
    match paint_v(font, gid, format, coords, cache_ok, decompose, limit) {
        Ok(p) => {
            acc.trans += p.events.len() as u64 + 1;
            let plain: Vec<Ev> = p.events.iter().map(|e| e.plain()).collect();
            let d = dyck(&plain);
            match &p.result {
                Some(Ok(())) => {
                    acc.ok += 1;
                    if let Err(why) = &d {
                        run.violation(&format!("ColorGlyph::paint Ok with unbalanced callbacks: {why}"), &format!("{tag} {}: {:?}", case(), plain), case());
                    }
                }
                Some(Err(_)) => acc.err += 1,
                None => acc.none += 1,
            }
            let dg = digest_of(&(tag, key, p.result.as_ref().map(|r| r.is_ok()), &p.events));
            acc.all.insert(dg);
            if d.map(|n| n > 0).unwrap_or(false) {
                acc.nontrivial.insert(dg);
            }
            Some(p)
        }
        Err(pi) if pi.message == LIMIT_MSG => {
            run.violation("ColorGlyph::paint emits more callbacks than the paint graph has root paths", &format!("{tag} {}: more than {limit} callbacks", case()), case());
            None
        }
        Err(pi) => {
            run.violation(&format!("ColorGlyph::paint panic: {} in {}", pi.kind(), pi.site()), &format!("{tag} {}: {} at {}:{}", case(), pi.message, pi.file, pi.line), case());
            None
        }
    }
}

fn f2(v: f32) -> F2Dot14 {
    F2Dot14::from_f32(v)
}
fn fw(v: i16) -> FWord {
    FWord::new(v)
}

fn font_of(colr: &Colr) -> Result<Vec<u8>, String> {
    let head = write_fonts::tables::head::Head { units_per_em: 1000, ..Default::default() };
    let mut b = FontBuilder::new();
    b.add_table(&head).map_err(|e| format!("head: {e:?}"))?;
    b.add_table(colr).map_err(|e| format!("COLR: {e:?}"))?;
    Ok(b.build())
}

// ---------------------------------------------------------------------------
// family N: variable index sweep
// ---------------------------------------------------------------------------

/// Store shapes. The region list always has one axis and two regions, (0, 1, 1) and (0, 0.5, 1): no
/// region has peak 0, so every region scalar is 0 at coordinates <= 0.
/// Per subtable: Some((item count, word delta count, region index count)) or None for a null offset.
pub const STORE_SHAPES: usize = 15;
fn store_layout(shape: usize) -> Option<Vec<Option<(u16, u16, u16)>>> {
    Some(match shape {
        0 => return None,                              // no ItemVariationStore
        1 => vec![],                                   // itemVariationDataCount 0
        2 => vec![Some((4, 1, 2))],                    // one subtable, 4 rows
        3 => vec![Some((4, 1, 2)), Some((2, 1, 2))],   // two subtables, 4 and 2 rows
        4 => vec![None, Some((2, 1, 2))],              // null offset first
        5 => vec![Some((4, 1, 2)), None],              // null offset last
        6 => vec![Some((0, 1, 2))],                    // itemCount 0
        7 => vec![Some((4, 0, 0))],                    // no regions referenced
        8 => vec![Some((4, 0, 2))],                    // all deltas 8-bit
        9 => vec![Some((4, 2, 2))],                    // all deltas 16-bit
        10 => vec![Some((4, 3, 2))],                   // wordDeltaCount > regionIndexCount (malformed)
        11 => vec![Some((4, 0x8000, 2))],              // LONG_WORDS, all 16-bit
        12 => vec![Some((4, 0x8001, 2))],              // LONG_WORDS, one 32-bit + one 16-bit
        13 => vec![Some((4, 0x8002, 2))],              // LONG_WORDS, all 32-bit
        _ => vec![Some((4, 0x8003, 2))],               // LONG_WORDS, wordDeltaCount > regionIndexCount
    })
}

fn build_store(shape: usize) -> Option<ItemVariationStore> {
    let layout = store_layout(shape)?;
    let regions = vec![
        VariationRegion::new(vec![RegionAxisCoordinates::new(f2(0.0), f2(1.0), f2(1.0))]),
        VariationRegion::new(vec![RegionAxisCoordinates::new(f2(0.0), f2(0.5), f2(1.0))]),
    ];
    let subs: Vec<Option<ItemVariationData>> = layout
        .iter()
        .enumerate()
        .map(|(o, s)| {
            s.map(|(rows, wdc, nreg)| {
                let long = wdc & 0x8000 != 0;
                let words = (wdc & 0x7FFF) as usize;
                let (wsize, ssize) = if long { (4usize, 2usize) } else { (2, 1) };
                let mut data = vec![];
                for i in 0..rows as usize {
                    // the row as the spec lays it out: `words` big deltas, then the rest small ones;
                    // every delta is a small positive number, so an in-range row is never all zero
                    let cols = (nreg as usize).max(words);
                    for r in 0..cols {
                        let v = (10 * (o + 1) + 2 * i + r + 1) as u32;
                        let size = if r < words { wsize } else { ssize };
                        data.extend_from_slice(&v.to_be_bytes()[4 - size..]);
                    }
                }
                ItemVariationData::new(rows, wdc, (0..nreg).collect(), data)
            })
        })
        .collect();
    Some(ItemVariationStore::new(VariationRegionList::new(1, regions), subs))
}

/// DeltaSetIndexMap shape: every entry is (0, 0) except those set to `probe`
#[derive(Clone, Copy, Debug, PartialEq, Eq, Hash)]
pub struct MapShape {
    pub format: u8,
    pub count: u32,
    pub entry_size: u8,
    pub inner_bits: u8,
    /// true: every entry is the probe; false: only the last entry is
    pub all_probe: bool,
    pub probe: (u16, u16),
}

impl MapShape {
    fn entries(&self) -> Vec<(u16, u16)> {
        (0..self.count).map(|i| if self.all_probe || i + 1 == self.count { self.probe } else { (0, 0) }).collect()
    }
    fn build(&self) -> DeltaSetIndexMap {
        let fmt = read_fonts::tables::variations::EntryFormat::from_bits_truncate(((self.entry_size - 1) << 4) | (self.inner_bits - 1));
        let mut data = vec![];
        for (o, i) in self.entries() {
            let entry: u64 = ((o as u64) << self.inner_bits) | i as u64;
            data.extend_from_slice(&(entry as u32).to_be_bytes()[4 - self.entry_size as usize..]);
        }
        if self.format == 0 {
            DeltaSetIndexMap::format_0(fmt, self.count as u16, data)
        } else {
            DeltaSetIndexMap::format_1(fmt, self.count, data)
        }
    }
    fn to_json(&self) -> Value {
        json!([self.format, self.count, self.entry_size, self.inner_bits, self.all_probe, self.probe.0, self.probe.1])
    }
    fn from_json(v: &Value) -> Option<MapShape> {
        Some(MapShape {
            format: v[0].as_u64()? as u8,
            count: v[1].as_u64()? as u32,
            entry_size: v[2].as_u64()? as u8,
            inner_bits: v[3].as_u64()? as u8,
            all_probe: v[4].as_bool()?,
            probe: (v[5].as_u64()? as u16, v[6].as_u64()? as u16),
        })
    }
}

/// variable roots: (name, node, variable clip box, number of consecutive delta sets the widest record uses)
fn var_roots() -> Vec<(String, Node, bool, u32)> {
    let solid = || Node::Fill(Fill::Solid);
    let n_of = |u: Un| match u {
        Un::VarTransform => 6,
        Un::VarTranslate | Un::VarScale | Un::VarSkew => 2,
        Un::VarScaleAroundCenter | Un::VarSkewAroundCenter => 4,
        Un::VarScaleUniform | Un::VarRotate => 1,
        Un::VarScaleUniformAroundCenter | Un::VarRotateAroundCenter => 3,
        _ => 0,
    };
    let mut v = vec![];
    for u in UNARIES.iter().filter(|u| format!("{u:?}").starts_with("Var")) {
        v.push((format!("{u:?}"), Node::Unary(*u, Box::new(solid())), false, n_of(*u)));
        v.push((format!("Glyph>{u:?}"), Node::Unary(Un::Glyph, Box::new(Node::Unary(*u, Box::new(solid())))), false, n_of(*u)));
    }
    // fills: the gradient record itself and its VarColorStops (2 delta sets each) all get the same base
    for (f, n) in [(Fill::VarSolid, 1u32), (Fill::VarLinear, 6), (Fill::VarRadial, 6), (Fill::VarSweep, 4)] {
        v.push((format!("{f:?}"), Node::Fill(f), false, n));
        v.push((format!("Glyph>{f:?}"), Node::Unary(Un::Glyph, Box::new(Node::Fill(f))), false, n));
    }
    v.push(("VarClipBox".into(), solid(), true, 4));
    v.push(("VarClipBox+VarTranslate".into(), Node::Unary(Un::VarTranslate, Box::new(solid())), true, 4));
    v
}

/// sets the varIndexBase of every variable record in the tree (incl. VarColorStops)
fn set_var_base(p: &mut Paint, vb: u32) {
    macro_rules! un {
        ($x:expr) => {{
            $x.var_index_base = vb;
            set_var_base(&mut $x.paint, vb);
        }};
    }
    macro_rules! plain {
        ($x:expr) => {
            set_var_base(&mut $x.paint, vb)
        };
    }
    macro_rules! grad {
        ($x:expr) => {{
            $x.var_index_base = vb;
            for s in $x.color_line.color_stops.iter_mut() {
                s.var_index_base = vb;
            }
        }};
    }
    match p {
        Paint::VarSolid(x) => x.var_index_base = vb,
        Paint::VarLinearGradient(x) => grad!(x),
        Paint::VarRadialGradient(x) => grad!(x),
        Paint::VarSweepGradient(x) => grad!(x),
        Paint::VarTransform(x) => {
            x.transform.var_index_base = vb;
            set_var_base(&mut x.paint, vb);
        }
        Paint::VarTranslate(x) => un!(x),
        Paint::VarScale(x) => un!(x),
        Paint::VarScaleAroundCenter(x) => un!(x),
        Paint::VarScaleUniform(x) => un!(x),
        Paint::VarScaleUniformAroundCenter(x) => un!(x),
        Paint::VarRotate(x) => un!(x),
        Paint::VarRotateAroundCenter(x) => un!(x),
        Paint::VarSkew(x) => un!(x),
        Paint::VarSkewAroundCenter(x) => un!(x),
        Paint::Glyph(x) => plain!(x),
        Paint::Transform(x) => plain!(x),
        Paint::Translate(x) => plain!(x),
        Paint::Scale(x) => plain!(x),
        Paint::ScaleAroundCenter(x) => plain!(x),
        Paint::ScaleUniform(x) => plain!(x),
        Paint::ScaleUniformAroundCenter(x) => plain!(x),
        Paint::Rotate(x) => plain!(x),
        Paint::RotateAroundCenter(x) => plain!(x),
        Paint::Skew(x) => plain!(x),
        Paint::SkewAroundCenter(x) => plain!(x),
        Paint::Composite(x) => {
            set_var_base(&mut x.source_paint, vb);
            set_var_base(&mut x.backdrop_paint, vb);
        }
        _ => {}
    }
}

#[derive(Clone, Debug)]
pub struct VarCase {
    pub root: usize,
    pub base: u32,
    pub store: usize,
    pub map: Option<MapShape>,
}

impl VarCase {
    fn to_json(&self, roots: &[(String, Node, bool, u32)]) -> Value {
        json!({"kind":"varidx","root":self.root,"root_name":roots[self.root].0,"var_index_base":self.base,"store_shape":self.store,
               "store_subtables(itemCount,wordDeltaCount,regionIndexCount)": store_layout(self.store).map(|l| l.iter().map(|s| s.map(|(a,b,c)| vec![a,b,c])).collect::<Vec<_>>()),
               "map(format,count,entry_size,inner_bits,all_probe,probe_outer,probe_inner)": self.map.map(|m| m.to_json())})
    }
    fn from_json(v: &Value) -> Option<VarCase> {
        let m = &v["map(format,count,entry_size,inner_bits,all_probe,probe_outer,probe_inner)"];
        Some(VarCase { root: v["root"].as_u64()? as usize, base: v["var_index_base"].as_u64()? as u32, store: v["store_shape"].as_u64()? as usize, map: if m.is_null() { None } else { Some(MapShape::from_json(m)?) } })
    }
    fn build(&self, roots: &[(String, Node, bool, u32)]) -> Result<Vec<u8>, String> {
        let (_, node, clip_var, _) = &roots[self.root];
        let mut paint = to_paint(node);
        set_var_base(&mut paint, self.base);
        let mut colr = Colr::new(0, None, None, 0);
        colr.base_glyph_list = Some(BaseGlyphList::new(1, vec![BaseGlyphPaint::new(GlyphId16::new(1), paint)])).into();
        if *clip_var {
            let clips = vec![Clip::new(GlyphId16::new(1), GlyphId16::new(1), ClipBox::format_2(fw(0), fw(0), fw(500), fw(500), self.base))];
            colr.clip_list = Some(ClipList::new(1, 1, clips)).into();
        }
        if let Some(store) = build_store(self.store) {
            colr.item_variation_store = Some(store).into();
        }
        if let Some(m) = &self.map {
            colr.var_index_map = Some(m.build()).into();
        }
        font_of(&colr)
    }

    /// From the OpenType text: Some(true) when every delta set this paint looks up is absent (no store,
    /// the 0xFFFFFFFF sentinel, outer index >= itemVariationDataCount, a null subtable offset, inner index
    /// >= itemCount, no regions), so that the paint must come out exactly as at the default location;
    /// Some(false) when at least one is present; None where the text leaves the lookup open (no map and
    /// an index >= 0x10000; a map with no entries).
    fn all_absent(&self, n_fields: u32) -> Option<bool> {
        let Some(layout) = store_layout(self.store) else { return Some(true) };
        if self.base == 0xFFFF_FFFF {
            return Some(true);
        }
        let absent = |o: u16, i: u16| match layout.get(o as usize) {
            None | Some(None) => true,
            Some(Some((rows, _, nreg))) => i >= *rows || *nreg == 0,
        };
        let mut any_present = false;
        let mut open = false;
        for k in 0..n_fields as u64 {
            let v = self.base as u64 + k;
            match &self.map {
                None => {
                    if v >= 0x10000 {
                        open = true;
                    } else if !absent(0, v as u16) {
                        any_present = true;
                    }
                }
                Some(m) => {
                    if m.count == 0 {
                        open = true;
                    } else {
                        let e = m.entries()[v.min(m.count as u64 - 1) as usize];
                        if !absent(e.0, e.1) {
                            any_present = true;
                        }
                    }
                }
            }
        }
        if any_present {
            Some(false)
        } else if open {
            None
        } else {
            Some(true)
        }
    }
}

/// locations at which every region scalar is 0 (coordinate <= 0 on the only axis the regions use);
/// the first is the default location itself
const ZERO_LOCS: [&[f32]; 4] = [&[], &[0.0], &[-1.0], &[0.0, 0.5]];
const NONZERO_LOCS: [&[f32]; 3] = [&[0.5], &[1.0], &[0.5, 0.25]];

#[derive(Default)]
struct NStats {
    fonts: u64,
    absent_asserted: u64,
    present: u64,
    present_and_differs: u64,
    open: u64,
}

fn judge_var_case(run: &Run, c: &VarCase, roots: &[(String, Node, bool, u32)], decomposes: &[bool], acc: &mut VAcc, st: &mut NStats) {
    let font = match guard(|| c.build(roots)) {
        Ok(Ok(f)) => f,
        Ok(Err(e)) => {
            run.machinery_error(&format!("family N: write-fonts cannot build {}: {e}", c.to_json(roots)));
            return;
        }
        Err(p) => {
            run.machinery_error(&format!("family N: write-fonts panicked building {}: {}", c.to_json(roots), p.message));
            return;
        }
    };
    st.fonts += 1;
    let n_fields = roots[c.root].3;
    let absent = c.all_absent(n_fields);
    match absent {
        Some(true) => st.absent_asserted += 1,
        Some(false) => st.present += 1,
        None => st.open += 1,
    }
    for &decompose in decomposes {
        let mut default: Option<PaintedV> = None;
        let mut differs = false;
        for (li, loc) in ZERO_LOCS.iter().chain(NONZERO_LOCS.iter()).enumerate() {
            let case = || {
                let mut j = c.to_json(roots);
                j["coords"] = json!(loc);
                j["decompose_fill_glyph"] = json!(decompose);
                j
            };
            let Some(p) = paint_checked(run, &font, 1, Some(ColorGlyphFormat::ColrV1), loc, false, decompose, 64, &case, "N", digest_of(&(c.root, c.base, c.store, c.map, li, decompose)), acc) else { continue };
            if p.result.is_none() {
                run.machinery_error(&format!("family N: no colour glyph 1 in {}", c.to_json(roots)));
                return;
            }
            if li == 0 {
                default = Some(p);
                continue;
            }
            let Some(d) = &default else { continue };
            if &p == d {
                continue;
            }
            if li < ZERO_LOCS.len() {
                run.violation(
                    "variable paint: a location at which every region scalar is 0 paints differently from the default location",
                    &format!("{}: default location gives {:?} {:?}, location {:?} gives {:?} {:?}", c.to_json(roots), d.result, d.events, loc, p.result, p.events),
                    case(),
                );
            } else if absent == Some(true) {
                run.violation(
                    "variable paint: a delta-set index that addresses no delta set changes the painted values",
                    &format!("{}: default location gives {:?} {:?}, location {:?} gives {:?} {:?}", c.to_json(roots), d.result, d.events, loc, p.result, p.events),
                    case(),
                );
            } else {
                differs = true;
            }
        }
        if differs && decompose == decomposes[0] {
            st.present_and_differs += 1;
        }
    }
}

fn n1_bases() -> Vec<u32> {
    vec![0, 1, 2, 3, 4, 5, 6, 0xFFFE, 0xFFFF, 0x10000, 0x10003, 0x10004, 0xFFFF_FFF9, 0xFFFF_FFFA, 0xFFFF_FFFE, 0xFFFF_FFFF]
}

/// (entry size, inner bit count)
const LAYOUTS: [(u8, u8); 6] = [(1, 4), (2, 8), (2, 16), (3, 16), (4, 16), (4, 1)];

fn map_shapes(store: usize, thorough: bool) -> Vec<MapShape> {
    let subtables = store_layout(store).map(|l| l.len()).unwrap_or(0) as u32;
    let mut out = vec![];
    for format in [0u8, 1] {
        for (entry_size, inner_bits) in LAYOUTS {
            if !thorough && format == 1 && !matches!((entry_size, inner_bits), (2, 8) | (4, 16)) {
                continue;
            }
            let outer_bits = (entry_size as u32 * 8 - inner_bits as u32).min(16);
            let omax = ((1u32 << outer_bits) - 1) as u16;
            let imax = ((1u32 << inner_bits) - 1) as u16;
            // outer: 0, count-1, count, count+1, widest; inner: around the row counts 2 and 4, widest
            let mut outers: Vec<u16> = [0, subtables.saturating_sub(1), subtables, subtables + 1, omax as u32].iter().map(|o| (*o).min(omax as u32) as u16).collect();
            outers.sort();
            outers.dedup();
            let mut inners: Vec<u16> = [0u16, 1, 2, 3, 4, 5, imax].iter().map(|i| (*i).min(imax)).collect();
            inners.sort();
            inners.dedup();
            out.push(MapShape { format, count: 0, entry_size, inner_bits, all_probe: true, probe: (0, 0) });
            for count in [1u32, 2, 5] {
                for all_probe in [true, false] {
                    if count == 1 && !all_probe {
                        continue;
                    }
                    for o in &outers {
                        for i in &inners {
                            out.push(MapShape { format, count, entry_size, inner_bits, all_probe, probe: (*o, *i) });
                        }
                    }
                }
            }
        }
    }
    out
}

fn map_bases(count: u32) -> Vec<u32> {
    let mut v = vec![0, count.saturating_sub(1), count, count + 1, 0xFFFF, 0xFFFF_FFFA, 0xFFFF_FFFE, 0xFFFF_FFFF];
    v.sort();
    v.dedup();
    v
}

pub fn family_var_indices(run: &Run) {
    let roots = var_roots();
    let thorough = run.tier == Tier::Thorough;
    // N1: no DeltaSetIndexMap: every root x every store shape x base
    let mut cases: Vec<(VarCase, bool)> = vec![];
    for root in 0..roots.len() {
        for store in 0..STORE_SHAPES {
            for base in n1_bases() {
                cases.push((VarCase { root, base, store, map: None }, true));
            }
        }
    }
    let n1 = cases.len();
    // N2: with a DeltaSetIndexMap: representative roots (quick) / all roots (thorough) x the store shapes
    // that differ in subtable count or presence x map shapes x bases around the map count
    let rep_names = ["VarTranslate", "Glyph>VarTransform", "VarLinear", "VarClipBox"];
    let rep: Vec<usize> = (0..roots.len()).filter(|r| thorough || rep_names.contains(&roots[*r].0.as_str())).collect();
    let n2_stores: Vec<usize> = if thorough { (0..STORE_SHAPES).collect() } else { vec![0, 1, 2, 3, 4, 5, 6, 7, 12] };
    for &root in &rep {
        for &store in &n2_stores {
            for m in map_shapes(store, thorough) {
                for base in map_bases(m.count) {
                    cases.push((VarCase { root, base, store, map: Some(m) }, false));
                }
            }
        }
    }
    run.bound(
        "N.var_indices",
        json!({
            "roots": roots.iter().map(|r| r.0.clone()).collect::<Vec<_>>(),
            "store_shapes(itemCount,wordDeltaCount,regionIndexCount per subtable; null = null offset)": (0..STORE_SHAPES).map(|s| json!(store_layout(s).map(|l| l.iter().map(|x| x.map(|(a,b,c)| vec![a,b,c])).collect::<Vec<_>>()))).collect::<Vec<_>>(),
            "regions": "one axis; (0,1,1) and (0,0.5,1)",
            "N1.no_map.var_index_bases": n1_bases(),
            "N2.map.roots": rep.iter().map(|r| roots[*r].0.clone()).collect::<Vec<_>>(),
            "N2.map.store_shapes": n2_stores,
            "N2.map.formats": [0, 1],
            "N2.map.entry_size_inner_bits": LAYOUTS.iter().map(|l| vec![l.0, l.1]).collect::<Vec<_>>(),
            "N2.map.format1_layouts_in_quick": [[2, 8], [4, 16]],
            "N2.map.counts": [0, 1, 2, 5],
            "N2.map.probe_outer": "0, subtables-1, subtables, subtables+1, widest representable",
            "N2.map.probe_inner": "0..=5 (row counts are 2 and 4), widest representable",
            "N2.map.probe_position": ["every entry", "last entry only (others (0,0))"],
            "N2.map.var_index_bases": "0, count-1, count, count+1, 0xFFFF, 0xFFFFFFFA, 0xFFFFFFFE, 0xFFFFFFFF",
            "locations_with_all_scalars_zero": ZERO_LOCS,
            "other_locations": NONZERO_LOCS,
            "fill_glyph": "N1: default and overridden; N2: default",
        }),
    );
    let fonts = AtomicU64::new(0);
    let asserted = AtomicU64::new(0);
    let present = AtomicU64::new(0);
    let differs = AtomicU64::new(0);
    let open = AtomicU64::new(0);
    cases.par_chunks(256).for_each(|chunk| {
        let mut acc = VAcc::default();
        let mut st = NStats::default();
        for (c, both) in chunk {
            judge_var_case(run, c, &roots, if *both { &[true, false] } else { &[true] }, &mut acc, &mut st);
        }
        fonts.fetch_add(st.fonts, Ordering::Relaxed);
        asserted.fetch_add(st.absent_asserted, Ordering::Relaxed);
        present.fetch_add(st.present, Ordering::Relaxed);
        differs.fetch_add(st.present_and_differs, Ordering::Relaxed);
        open.fetch_add(st.open, Ordering::Relaxed);
        vflush(run, acc, "N");
    });
    run.count("N.fonts", fonts.load(Ordering::Relaxed));
    run.count("N.fonts_without_index_map", n1 as u64);
    run.count("N.fonts_with_index_map", (cases.len() - n1) as u64);
    run.count("N.fonts_where_every_looked_up_delta_set_is_absent(zero delta asserted)", asserted.load(Ordering::Relaxed));
    run.count("N.fonts_with_a_present_delta_set", present.load(Ordering::Relaxed));
    run.count("N.fonts_with_a_present_delta_set_that_paint_differently_off_default", differs.load(Ordering::Relaxed));
    run.count("N.fonts_where_the_lookup_is_left_open_by_the_text", open.load(Ordering::Relaxed));
    if let Some((c, _)) = cases.get(n1 + 7) {
        run.sample(json!({"family":"N","example": c.to_json(&roots)}));
    }
    // vacuity gate: the families must contain present delta sets that really move values
    if differs.load(Ordering::Relaxed) == 0 {
        run.machinery_error("family N: no font paints differently away from the default location — the stores are not being reached");
    }
}

pub fn replay_var_case(run: &Run, case: &Value) {
    let roots = var_roots();
    let Some(c) = VarCase::from_json(case) else {
        println!("replay: cannot parse varidx case");
        return;
    };
    let mut acc = VAcc::default();
    let mut st = NStats::default();
    judge_var_case(run, &c, &roots, &[true, false], &mut acc, &mut st);
    println!("replay: {} paint runs, ok={} err={}", acc.runs, acc.ok, acc.err);
}

// ---------------------------------------------------------------------------
// family P: record lookups
// ---------------------------------------------------------------------------

/// glyph ids painted / referred to for a record list with gids 2, 4, .., 2n
fn probe_gids(n: usize) -> Vec<u32> {
    let mut v: Vec<u32> = (0..=(2 * n as u32 + 3)).collect();
    v.extend([0xFFFE, 0xFFFF, 0x10000, 0xFFFF_FFFF]);
    v
}

/// clip ranges for pattern `p` over record gids 2j+2 (sorted, disjoint)
fn clip_ranges(p: usize, n: usize) -> Option<Vec<(u16, u16)>> {
    let g = |j: usize| (2 * j + 2) as u16;
    Some(match p {
        0 => return None,
        1 => vec![],
        2 => (0..n).map(|j| (g(j), g(j))).collect(),
        3 => (0..n).map(|j| (g(j), g(j) + 1)).collect(),
        4 => vec![(0, 0xFFFF)],
        5 => vec![(g(0), g(0))],
        6 => vec![(g(n - 1), g(n - 1))],
        7 => (0..n).step_by(2).map(|j| (g(j), g(j))).collect(),
        8 => (0..n).map(|j| (g(j) - 1, g(j))).collect(),
        _ => vec![(1, 1), (g(n - 1) + 1, 0xFFFF)],
    })
}
const CLIP_PATTERNS: usize = 10;
const RECORD_COUNTS: [usize; 7] = [1, 2, 3, 4, 5, 8, 9];

fn clip_box_of(ranges: &Option<Vec<(u16, u16)>>, gid: u32) -> Option<[u32; 4]> {
    let r = ranges.as_ref()?;
    let k = r.iter().position(|(a, b)| gid >= *a as u32 && gid <= *b as u32)?;
    Some([fb(100.0 + k as f32), fb(0.0), fb(500.0), fb(500.0)])
}

fn lookup_colr(n: usize, clip_pattern: usize, root_target: Option<u16>, v0: bool) -> Colr {
    let g = |j: usize| GlyphId16::new((2 * j + 2) as u16);
    let mut colr = if v0 {
        Colr::new(
            n as u16,
            Some((0..n).map(|j| BaseGlyph::new(g(j), j as u16, 1)).collect()),
            Some((0..n).map(|j| Layer::new(GlyphId16::new(100 + j as u16), j as u16)).collect()),
            n as u16,
        )
    } else {
        Colr::new(0, None, None, 0)
    };
    if !v0 || root_target.is_some() {
        let mut recs: Vec<BaseGlyphPaint> = vec![];
        if let Some(t) = root_target {
            recs.push(BaseGlyphPaint::new(GlyphId16::new(1), Paint::colr_glyph(GlyphId16::new(t))));
        }
        if !v0 {
            for j in 0..n {
                recs.push(BaseGlyphPaint::new(g(j), Paint::solid(j as u16, f2(1.0))));
            }
        }
        colr.base_glyph_list = Some(BaseGlyphList::new(recs.len() as u32, recs)).into();
    }
    if let Some(ranges) = clip_ranges(clip_pattern, n) {
        let clips: Vec<Clip> = ranges.iter().enumerate().map(|(k, (a, b))| Clip::new(GlyphId16::new(*a), GlyphId16::new(*b), ClipBox::format_1(fw(100 + k as i16), fw(0), fw(500), fw(500)))).collect();
        colr.clip_list = Some(ClipList::new(1, clips.len() as u32, clips)).into();
    }
    colr
}

fn solid_sig(palette: u16) -> BrushSig {
    BrushSig { kind: 0, geom: vec![palette as u32, fb(1.0)], stops: vec![], extend: 0 }
}

pub fn family_lookups(run: &Run) {
    run.bound(
        "P.lookups",
        json!({
            "record_counts": RECORD_COUNTS, "record_glyph_ids": "2, 4, .., 2n (paint j = PaintSolid palette j)",
            "glyph_ids_painted_and_referred_to": "0..=2n+3, 0xFFFE, 0xFFFF, 0x10000, 0xFFFFFFFF",
            "clip_patterns": ["no ClipList", "empty ClipList", "[g,g] per record", "[g,g+1] per record", "[0,0xFFFF]", "first record only", "last record only", "every second record", "[g-1,g] per record (adjacent ranges)", "[1,1] and [last+1,0xFFFF]"],
            "P1": "paint every probe gid of a v1 BaseGlyphList", "P2": "glyph 1 = PaintColrGlyph(every probe gid), both cache answers",
            "P3": "paint every probe gid of a v0 BaseGlyph record list through get_with_format(V0) and get()",
            "P4": {"layer_list_len": ["absent", 0, 1, 2, 3], "first_layer_index": "0, L-1, L, L+1, 0xFFFF, 0x10000, 0xFFFFFFFE, 0xFFFFFFFF", "num_layers": [0, 1, 2, 3, 255]},
        }),
    );
    let mut jobs: Vec<(usize, usize)> = vec![];
    for n in RECORD_COUNTS {
        for p in 0..CLIP_PATTERNS {
            jobs.push((n, p));
        }
    }
    let fonts = AtomicU64::new(0);
    jobs.par_iter().for_each(|(n, p)| {
        let mut acc = VAcc::default();
        let (n, p) = (*n, *p);
        let ranges = clip_ranges(p, n);
        let record_of = |gid: u32| -> Option<u16> { (gid >= 2 && gid <= 2 * n as u32 && gid % 2 == 0).then(|| (gid / 2 - 1) as u16) };
        // P1: v1 list, every probe gid
        let Ok(font) = font_of(&lookup_colr(n, p, None, false)) else {
            run.machinery_error(&format!("family P: cannot build n={n} clip pattern {p}"));
            return;
        };
        fonts.fetch_add(1, Ordering::Relaxed);
        for gid in probe_gids(n) {
            for format in [Some(ColorGlyphFormat::ColrV1), None] {
                let case = || json!({"kind":"lookup","sub":"P1","records":n,"clip_pattern":p,"gid":gid,"via_get":format.is_none()});
                let Some(got) = paint_checked(run, &font, gid, format, &[], false, true, 64, &case, "P1", digest_of(&(n, p, gid, format.is_none())), &mut acc) else { continue };
                let exp = record_of(gid).map(|j| {
                    let mut ev = vec![];
                    let cb = clip_box_of(&ranges, gid);
                    if let Some(b) = cb {
                        ev.push(VEv::PushClipBox(b));
                    }
                    ev.push(VEv::Fill(solid_sig(j)));
                    if cb.is_some() {
                        ev.push(VEv::PopClip);
                    }
                    ev
                });
                check_lookup(run, &got, exp.map(|e| (true, e)), &case, "BaseGlyphList / ClipList lookup");
            }
        }
        // P2: glyph 1 -> PaintColrGlyph(t)
        for t in probe_gids(n).into_iter().filter(|t| *t <= 0xFFFF) {
            let Ok(font) = font_of(&lookup_colr(n, p, Some(t as u16), false)) else { continue };
            fonts.fetch_add(1, Ordering::Relaxed);
            for cache_ok in [false, true] {
                let case = || json!({"kind":"lookup","sub":"P2","records":n,"clip_pattern":p,"target":t,"cache_ok":cache_ok});
                let Some(got) = paint_checked(run, &font, 1, Some(ColorGlyphFormat::ColrV1), &[], cache_ok, true, 64, &case, "P2", digest_of(&(n, p, t, cache_ok)), &mut acc) else { continue };
                let root_clip = clip_box_of(&ranges, 1);
                let mut ev = vec![];
                if let Some(b) = root_clip {
                    ev.push(VEv::PushClipBox(b));
                }
                let ok;
                if t == 1 {
                    ok = false; // the root refers to itself
                } else if let Some(j) = record_of(t) {
                    ok = true;
                    ev.push(VEv::Cached(t));
                    if !cache_ok {
                        let cb = clip_box_of(&ranges, t);
                        if let Some(b) = cb {
                            ev.push(VEv::PushClipBox(b));
                        }
                        ev.push(VEv::Fill(solid_sig(j)));
                        if cb.is_some() {
                            ev.push(VEv::PopClip);
                        }
                    }
                    if root_clip.is_some() {
                        ev.push(VEv::PopClip);
                    }
                } else {
                    ok = false; // no such base glyph
                }
                check_lookup(run, &got, Some((ok, ev)), &case, "PaintColrGlyph target lookup");
            }
        }
        // P3: v0 records (clip lists do not apply to v0 glyphs)
        if p == 0 {
            let Ok(font) = font_of(&lookup_colr(n, 0, None, true)) else { return };
            fonts.fetch_add(1, Ordering::Relaxed);
            for gid in probe_gids(n) {
                for format in [Some(ColorGlyphFormat::ColrV0), None] {
                    for decompose in [true, false] {
                        let case = || json!({"kind":"lookup","sub":"P3","records":n,"gid":gid,"via_get":format.is_none(),"decompose_fill_glyph":decompose});
                        let Some(got) = paint_checked(run, &font, gid, format, &[], false, decompose, 64, &case, "P3", digest_of(&(n, gid, format.is_none(), decompose)), &mut acc) else { continue };
                        let exp = record_of(gid).map(|j| {
                            if decompose {
                                vec![VEv::PushClipGlyph(100 + j as u32), VEv::Fill(solid_sig(j)), VEv::PopClip]
                            } else {
                                vec![VEv::FillGlyph(100 + j as u32, None, solid_sig(j))]
                            }
                        });
                        check_lookup(run, &got, exp.map(|e| (true, e)), &case, "COLR v0 BaseGlyph lookup");
                    }
                }
            }
        }
        vflush(run, acc, "P");
    });
    // P4: PaintColrLayers ranges against the layer list length
    let mut acc = VAcc::default();
    for l in [None, Some(0u32), Some(1), Some(2), Some(3)] {
        let len = l.unwrap_or(0);
        let mut firsts = vec![0u32, len.saturating_sub(1), len, len + 1, 0xFFFF, 0x10000, 0xFFFF_FFFE, 0xFFFF_FFFF];
        firsts.sort();
        firsts.dedup();
        for first in firsts {
            for count in [0u8, 1, 2, 3, 255] {
                let mut colr = Colr::new(0, None, None, 0);
                colr.base_glyph_list = Some(BaseGlyphList::new(1, vec![BaseGlyphPaint::new(GlyphId16::new(1), Paint::colr_layers(count, first))])).into();
                if let Some(n) = l {
                    colr.layer_list = Some(LayerList::new(n, (0..n).map(|i| Paint::solid(i as u16, f2(1.0))).collect())).into();
                }
                let Ok(font) = font_of(&colr) else {
                    run.machinery_error(&format!("family P4: cannot build layer list {l:?} first {first} count {count}"));
                    continue;
                };
                fonts.fetch_add(1, Ordering::Relaxed);
                let case = || json!({"kind":"lookup","sub":"P4","layer_list_len":l,"first_layer_index":first,"num_layers":count});
                let Some(got) = paint_checked(run, &font, 1, Some(ColorGlyphFormat::ColrV1), &[], false, true, 600, &case, "P4", digest_of(&(l, first, count)), &mut acc) else { continue };
                // the layers that exist are painted in order up to the first missing one
                let mut ev = vec![];
                let mut ok = true;
                for i in first as u64..first as u64 + count as u64 {
                    if i < len as u64 {
                        ev.push(VEv::Fill(solid_sig(i as u16)));
                    } else {
                        ok = false;
                        break;
                    }
                }
                check_lookup(run, &got, Some((ok, ev)), &case, "PaintColrLayers range against the LayerList");
            }
        }
    }
    vflush(run, acc, "P");
    run.count("P.fonts", fonts.load(Ordering::Relaxed));
}

/// `exp`: None = no colour glyph expected; Some((ok, events))
fn check_lookup(run: &Run, got: &PaintedV, exp: Option<(bool, Vec<VEv>)>, case: &dyn Fn() -> Value, what: &str) {
    match (&got.result, &exp) {
        (None, None) => {}
        (Some(_), None) => run.violation(&format!("{what}: a colour glyph is returned for a glyph id that has no record"), &format!("{}: painted {:?} {:?}", case(), got.result, got.events), case()),
        (None, Some(_)) => run.violation(&format!("{what}: no colour glyph is returned for a glyph id that has a record"), &format!("{}", case()), case()),
        (Some(r), Some((ok, ev))) => {
            if r.is_ok() != *ok {
                let id = if *ok { format!("{what}: paint fails although every record referred to exists") } else { format!("{what}: paint returns Ok although a record referred to does not exist (or the glyph refers to itself)") };
                run.violation(&id, &format!("{}: result {:?}, callbacks {:?}; expected {:?}", case(), r, got.events, ev), case());
            } else if *ok && &got.events != ev {
                run.violation(&format!("{what}: a different record is painted"), &format!("{}: callbacks {:?}; expected {:?}", case(), got.events, ev), case());
            }
        }
    }
}

// ---------------------------------------------------------------------------
// family S: colour-line stop counts around the inline capacity (32)
// ---------------------------------------------------------------------------

#[derive(Clone, Copy, Debug)]
struct StopSpec {
    kind: u8, // 0 linear 1 radial 2 sweep
    var: bool,
    n: u16,
    pattern: u8, // 0 ascending distinct, 1 all 0.5, 2 descending, 3 two clusters (0.25 / 0.75)
    extend: u8,
}

fn stop_offset(s: &StopSpec, i: u16) -> f32 {
    let den = (s.n.max(2) - 1) as f32;
    match s.pattern {
        0 => i as f32 / den,
        1 => 0.5,
        2 => 1.0 - i as f32 / den,
        _ => if i % 2 == 0 { 0.25 } else { 0.75 },
    }
}

fn stop_paint(s: &StopSpec) -> Paint {
    let extend = [Extend::Pad, Extend::Repeat, Extend::Reflect][s.extend as usize % 3];
    if s.var {
        let line = VarColorLine::new(extend, s.n, (0..s.n).map(|i| VarColorStop::new(f2(stop_offset(s, i)), i, f2(1.0), (i % 4) as u32)).collect());
        match s.kind {
            0 => Paint::var_linear_gradient(line, fw(0), fw(0), fw(100), fw(0), fw(0), fw(100), 0),
            1 => Paint::var_radial_gradient(line, fw(0), fw(0), font_types::UfWord::new(10), fw(50), fw(50), font_types::UfWord::new(100), 0),
            _ => Paint::var_sweep_gradient(line, fw(10), fw(10), f2(-0.5), f2(0.5), 0),
        }
    } else {
        let line = ColorLine::new(extend, s.n, (0..s.n).map(|i| ColorStop::new(f2(stop_offset(s, i)), i, f2(1.0))).collect());
        match s.kind {
            0 => Paint::linear_gradient(line, fw(0), fw(0), fw(100), fw(0), fw(0), fw(100)),
            1 => Paint::radial_gradient(line, fw(0), fw(0), font_types::UfWord::new(10), fw(50), fw(50), font_types::UfWord::new(100)),
            _ => Paint::sweep_gradient(line, fw(10), fw(10), f2(-0.5), f2(0.5)),
        }
    }
}

/// the stops a gradient brush may carry for this colour line: the n stops of the font (as a multiset of
/// palette indices; every stop has its own), plus one copy of one of them when all offsets coincide
/// and the extend mode is Pad (the traversal documents that it appends one)
fn stops_ok(s: &StopSpec, b: &BrushSig) -> Result<(), String> {
    if b.kind == 0 {
        return Ok(()); // a solid replacement (degenerate geometry / single colour): nothing to count
    }
    let mut pals: Vec<u16> = b.stops.iter().map(|x| x.1).collect();
    pals.sort();
    let want: Vec<u16> = (0..s.n).collect();
    if pals == want {
        return Ok(());
    }
    if s.extend % 3 == 0 && pals.len() == want.len() + 1 {
        let mut d = pals.clone();
        d.dedup();
        if d == want {
            return Ok(());
        }
    }
    Err(format!("{} stops in the font, the brush carries palette indices {:?}", s.n, pals))
}

const STOP_COUNTS: [u16; 11] = [0, 1, 2, 3, 31, 32, 33, 34, 64, 65, 255];

pub fn family_stop_counts(run: &Run) {
    let mut specs = vec![];
    for kind in 0..3u8 {
        for var in [false, true] {
            for n in STOP_COUNTS {
                for pattern in 0..4u8 {
                    for extend in 0..3u8 {
                        specs.push(StopSpec { kind, var, n, pattern, extend });
                    }
                }
            }
        }
    }
    run.bound(
        "S.stop_counts",
        json!({"stop_counts": STOP_COUNTS, "inline_capacity_of_the_stop_vector": 32, "gradient_kinds": ["linear","radial","sweep"], "variable": [false, true],
               "offset_patterns": ["ascending distinct", "all 0.5", "descending", "alternating 0.25/0.75"], "extend": ["Pad","Repeat","Reflect"],
               "wrappers": ["root", "PaintGlyph", "second layer after a gradient of m stops, m in the same counts (buffer reuse)"],
               "locations_for_variable_lines": [[], [0.5]], "specs": specs.len()}),
    );
    let store = || build_store(2).unwrap();
    let fonts = AtomicU64::new(0);
    specs.par_chunks(8).for_each(|chunk| {
        let mut acc = VAcc::default();
        for s in chunk {
            // (a) alone, as root and below PaintGlyph
            for wrap in [false, true] {
                let p = stop_paint(s);
                let p = if wrap { Paint::glyph(p, GlyphId16::new(PLAIN_GID)) } else { p };
                let mut colr = Colr::new(0, None, None, 0);
                colr.base_glyph_list = Some(BaseGlyphList::new(1, vec![BaseGlyphPaint::new(GlyphId16::new(1), p)])).into();
                if s.var {
                    colr.item_variation_store = Some(store()).into();
                }
                let Ok(font) = font_of(&colr) else {
                    run.machinery_error(&format!("family S: cannot build {s:?}"));
                    continue;
                };
                fonts.fetch_add(1, Ordering::Relaxed);
                let locs: &[&[f32]] = if s.var { &[&[], &[0.5]] } else { &[&[]] };
                for loc in locs {
                    for decompose in [true, false] {
                        let case = || json!({"kind":"stops","sub":"single","gradient":s.kind,"variable":s.var,"stops":s.n,"pattern":s.pattern,"extend":s.extend,"below_paint_glyph":wrap,"coords":loc,"decompose_fill_glyph":decompose});
                        let Some(got) = paint_checked(run, &font, 1, Some(ColorGlyphFormat::ColrV1), loc, false, decompose, 64, &case, "S", digest_of(&(s.kind, s.var, s.n, s.pattern, s.extend, wrap, loc.len(), decompose)), &mut acc) else { continue };
                        judge_stops(run, &got, &[*s], &case);
                    }
                }
            }
            // (b) as the second of two layers: the first gradient leaves m stops in the shared buffer
            for m in STOP_COUNTS {
                let first = StopSpec { kind: (s.kind + 1) % 3, var: false, n: m, pattern: 0, extend: 1 };
                let mut colr = Colr::new(0, None, None, 0);
                colr.base_glyph_list = Some(BaseGlyphList::new(1, vec![BaseGlyphPaint::new(GlyphId16::new(1), Paint::colr_layers(2, 0))])).into();
                colr.layer_list = Some(LayerList::new(2, vec![stop_paint(&first), stop_paint(s)])).into();
                if s.var {
                    colr.item_variation_store = Some(store()).into();
                }
                let Ok(font) = font_of(&colr) else { continue };
                fonts.fetch_add(1, Ordering::Relaxed);
                let case = || json!({"kind":"stops","sub":"pair","first_stops":m,"gradient":s.kind,"variable":s.var,"stops":s.n,"pattern":s.pattern,"extend":s.extend});
                let loc: &[f32] = if s.var { &[0.5] } else { &[] };
                let Some(got) = paint_checked(run, &font, 1, Some(ColorGlyphFormat::ColrV1), loc, false, true, 64, &case, "S", digest_of(&(s.kind, s.var, s.n, s.pattern, s.extend, m)), &mut acc) else { continue };
                judge_stops(run, &got, &[first, *s], &case);
            }
        }
        vflush(run, acc, "S");
    });
    run.count("S.fonts", fonts.load(Ordering::Relaxed));
}

/// the gradient brushes delivered, in order, must carry the stops of the colour lines in `lines` (a
/// line may legitimately produce no fill at all, or a solid replacement)
fn judge_stops(run: &Run, got: &PaintedV, lines: &[StopSpec], case: &dyn Fn() -> Value) {
    if !matches!(got.result, Some(Ok(()))) {
        run.violation("gradient colour line: paint fails on a well-formed colour line", &format!("{}: {:?}", case(), got.result), case());
        return;
    }
    let brushes: Vec<&BrushSig> = got.events.iter().filter_map(|e| match e { VEv::Fill(b) | VEv::FillGlyph(_, _, b) => Some(b), _ => None }).collect();
    if brushes.len() > lines.len() {
        run.violation("gradient colour line: more fills than gradients", &format!("{}: {:?}", case(), got.events), case());
        return;
    }
    // each brush is matched to the first not yet used line of its kind (a line may be skipped: nothing drawn)
    let mut li = 0;
    for b in brushes {
        let mut matched = false;
        while li < lines.len() {
            let l = &lines[li];
            li += 1;
            if b.kind == 0 || b.kind == l.kind + 1 {
                if let Err(why) = stops_ok(l, b) {
                    run.violation("gradient colour line: the brush handed to the painter loses or invents colour stops", &format!("{}: {why}", case()), case());
                }
                matched = true;
                break;
            }
        }
        if !matched {
            run.violation("gradient colour line: a fill that belongs to no gradient of the glyph", &format!("{}: {:?}", case(), got.events), case());
        }
    }
}

// ---------------------------------------------------------------------------
// family T: a client that implements `pop_layer_with_mode` and leaves `pop_layer` at its provided
// (empty) default — the trait documents that only one of the two needs to be implemented. Such a
// client sees a pop only through `pop_layer_with_mode`, and it sees the mode: every popped layer must
// carry the mode of the layer it closes (last in, first out).
// ---------------------------------------------------------------------------

struct ModeRec {
    events: Vec<Ev>,
    layer_stack: Vec<CompositeMode>,
    offence: Option<String>,
    cache_ok: bool,
}
impl ColorPainter for ModeRec {
    fn push_transform(&mut self, _t: Transform) {
        self.events.push(Ev::PushTransform)
    }
    fn pop_transform(&mut self) {
        self.events.push(Ev::PopTransform)
    }
    fn push_clip_glyph(&mut self, g: GlyphId) {
        self.events.push(Ev::PushClipGlyph(g.to_u32()))
    }
    fn push_clip_box(&mut self, _b: read_fonts::types::BoundingBox<f32>) {
        self.events.push(Ev::PushClipBox)
    }
    fn pop_clip(&mut self) {
        self.events.push(Ev::PopClip)
    }
    fn fill(&mut self, _b: Brush<'_>) {
        self.events.push(Ev::Fill(0))
    }
    fn paint_cached_color_glyph(&mut self, g: GlyphId) -> Result<PaintCachedColorGlyph, PaintError> {
        self.events.push(Ev::Cached(g.to_u32()));
        Ok(if self.cache_ok { PaintCachedColorGlyph::Ok } else { PaintCachedColorGlyph::Unimplemented })
    }
    fn push_layer(&mut self, m: CompositeMode) {
        self.events.push(Ev::PushLayer(m as u8));
        self.layer_stack.push(m);
    }
    // pop_layer: NOT overridden
    fn pop_layer_with_mode(&mut self, m: CompositeMode) {
        self.events.push(Ev::PopLayer);
        match self.layer_stack.pop() {
            Some(top) if top == m => {}
            Some(top) => {
                self.offence.get_or_insert(format!("pop_layer_with_mode({m:?}) closes a layer pushed with {top:?}"));
            }
            None => {}
        }
    }
}

fn paint_mode_client(run: &Run, font: &[u8], cache_ok: bool, case: &dyn Fn() -> Value, key: u64, acc: &mut VAcc) {
    acc.runs += 1;
    let r = guard(|| {
        let f = FontRef::new(font).expect("font parses");
        let mut rec = ModeRec { events: vec![], layer_stack: vec![], offence: None, cache_ok };
        let res = f.color_glyphs().get_with_format(GlyphId::new(1), ColorGlyphFormat::ColrV1).map(|cg| cg.paint(LocationRef::default(), &mut rec).is_ok());
        (res, rec.events, rec.offence)
    });
    match r {
        Ok((res, events, offence)) => {
            acc.trans += events.len() as u64 + 1;
            match res {
                Some(true) => {
                    acc.ok += 1;
                    if let Err(why) = dyck(&events) {
                        run.violation(&format!("ColorGlyph::paint Ok with unbalanced callbacks (client implementing pop_layer_with_mode only): {why}"), &format!("{}: {:?}", case(), events), case());
                    } else if let Some(o) = offence {
                        run.violation("ColorGlyph::paint Ok but layers are not popped last-in-first-out: the mode handed to pop_layer_with_mode is not the mode of the layer it closes", &format!("{}: {o}; {:?}", case(), events), case());
                    }
                }
                Some(false) => acc.err += 1,
                None => acc.none += 1,
            }
            let dg = digest_of(&("T", key, res, &events));
            acc.all.insert(dg);
            if events.iter().any(|e| matches!(e, Ev::PushLayer(_))) {
                acc.nontrivial.insert(dg);
            }
        }
        Err(pi) => run.violation(&format!("ColorGlyph::paint panic: {} in {}", pi.kind(), pi.site()), &format!("T {}: {}", case(), pi.message), case()),
    }
}

fn has_composite(n: &Node) -> bool {
    match n {
        Node::Composite(..) => true,
        Node::Unary(_, c) | Node::Xf(_, _, c) => has_composite(c),
        _ => false,
    }
}

pub fn family_mode_client(run: &Run) {
    let mut acc = VAcc::default();
    // T1: PaintComposite(Solid, Solid) with every value of the compositeMode byte
    let mut t1 = 0u64;
    match super::truncation_table(32, false, false) {
        Ok((bytes, _, _, _, p, _)) => {
            for mode in 0..=255u8 {
                let mut b = bytes.clone();
                b[p + 4] = mode;
                let font = super::font_with_colr(&b);
                for cache_ok in [false, true] {
                    let case = || json!({"kind":"mode_client","sub":"T1","composite_mode_byte":mode,"cache_ok":cache_ok});
                    paint_mode_client(run, &font, cache_ok, &case, digest_of(&(mode, cache_ok)), &mut acc);
                    t1 += 1;
                }
            }
        }
        Err(e) => run.machinery_error(&format!("family T: {e}")),
    }
    // T2: every tree of <= 4 nodes over {Solid, ColrGlyph(1) (the root itself), ColrGlyph(5) (missing),
    // ColrLayers(0,1)} / {Translate, Glyph} / Composite that contains a PaintComposite; layer 0 = Solid
    let al = Alphabet { leaves: vec![Node::Fill(Fill::Solid), Node::ColrGlyph(1), Node::ColrGlyph(5), Node::ColrLayers(0, 1)], unaries: vec![Un::Translate, Un::Glyph], xfs: vec![] };
    let trees = trees_up_to(&al, 4);
    let graphs: Vec<Graph> = trees
        .iter()
        .flatten()
        .filter(|t| has_composite(t) || matches!(t, Node::Composite(..)))
        .map(|t| Graph { bases: vec![t.clone()], layers: vec![Node::Fill(Fill::Solid)], clip: false, var_store: false, v0: None, var_map: None, store_empty: false, clip_var: false, store_shape: None })
        .collect();
    run.bound("T.mode_client", json!({"T1": "compositeMode byte 0..=255 on PaintComposite(Solid, Solid)", "T2.trees_max_nodes": 4, "T2.leaves": ["Solid", "ColrGlyph(1)", "ColrGlyph(5)", "ColrLayers(0,1)"], "T2.unaries": ["Translate", "Glyph"], "T2.graphs_with_a_composite": graphs.len(), "cache_answers": [false, true], "client": "implements pop_layer_with_mode, keeps the provided empty pop_layer"}));
    vflush(run, acc, "T");
    graphs.par_chunks(64).for_each(|chunk| {
        let mut acc = VAcc::default();
        for g in chunk {
            let Ok(font) = build_font(g) else { continue };
            for cache_ok in [false, true] {
                let case = || json!({"kind":"mode_client","sub":"T2","graph":g.to_json(),"cache_ok":cache_ok});
                paint_mode_client(run, &font, cache_ok, &case, digest_of(&(g, cache_ok)), &mut acc);
            }
        }
        vflush(run, acc, "T");
    });
    run.count("T.composite_mode_bytes", t1 / 2);
    run.count("T.graphs", graphs.len() as u64);
}
