//! C13 — colour glyph painting terminates with balanced, correctly nested callbacks.
//! See DESIGN.md §3 C13.
//!
//! Every case is a real font (head + COLR built with write-fonts, assembled by FontBuilder) painted
//! through `skrifa::color::ColorGlyph::paint` with a recording `ColorPainter`.
//! Families (all enumerated exhaustively in a fixed order):
//!  A. structural: every forest of paint trees (base glyph 1 [+ base glyph 2] [+ layer 0 [+ layer 1]])
//!     with at most n nodes in total over the structural alphabet {Solid, PaintColrGlyph(1|2|5),
//!     PaintColrLayers(first 0..=2, count 0..=3), PaintTranslate, PaintGlyph, PaintComposite}
//!     x clip list absent/present x cache answer Ok/Unimplemented x fill_glyph default/overridden;
//!  G. multi-kind products: every forest of at most 3 (quick) / 4 (thorough) nodes in which each node
//!     ranges over the full alphabet (10 fills incl. variable and degenerate ones, 21 unary kinds,
//!     ColrGlyph x3, ColrLayers x12, Composite); graphs with a variable paint with and without a
//!     variation store, at two locations;
//!  H. degenerate gradient geometry and colour lines (coincident points, zero radii, 0/360 degree
//!     sweeps, empty/single/unordered/duplicate/out-of-range stops) x extend modes x 4 wrappers;
//!  J. PaintGlyph -> chain of 1..=2 (quick) / 3 (thorough) transform paints of every kind with identity
//!     parameters and with pairs whose product is exactly the identity -> fill / layers / colr glyph;
//!  K. every colour glyph of every bundled COLR font, unmodified, with and without the provided
//!     default `fill_glyph` (the real one: `RecDefault` does not override it);
//!  L. truncation: for each of the 32 paint formats, rooted directly and below a PaintTranslate, every
//!     prefix of the compiled table, and the record moved to the table end with 0..=4 bytes missing;
//!  M. every variable paint kind, VarColorStop fills and the variable ClipBox x VarIndexMap {absent, map
//!     count 0/1/2/12} x entry sizes 1-4 x inner bit counts x store {absent, no regions, normal};
//!  I. fonts where glyph 1 has both a COLR v0 record and a v1 paint, painted via get(), v1 and v0;
//!  C. COLR v0 base glyph / layer records incl. out-of-range ranges;
//!  D. chains of depth 63, 64, 65 and 1000 for every unary kind, both composite operands, layer chains
//!     and PaintColrGlyph chains, each painted in a worker subprocess under a watchdog;
//!  E. nested PaintGlyph chains of depth 8..=20 timed in-process (growth-rate test);
//!  F. one-byte deviations (5 values) of the first bytes of every corpus COLR table, up to 24 evenly
//!     spaced colour glyphs painted under both cache answers, in supervised worker processes (silence watchdog).
//!  N. (varidx.rs) every index the variable-paint code follows (varIndexBase, index-map entries of both
//!     formats, outer / inner delta-set indices against 0/1/2 subtables incl. null offsets, wordDeltaCount
//!     layouts) at seven locations, with a from-spec "absent delta set => paints like the default" oracle;
//!  P. (varidx.rs) record lookups: base glyph lists of 1-9 records, clip range patterns, PaintColrGlyph
//!     targets, PaintColrLayers ranges against the layer list length, exact value stream expected;
//!  R. one format / flag / count / index / offset field of a compiled table set to boundary values;
//!  S. (varidx.rs) colour lines of 0..255 stops around the inline capacity (32) of the stop vector;
//!  T. (varidx.rs) a client implementing `pop_layer_with_mode` only: pops carry the mode of their push.
//! See AUDIT.md for the site-by-site table these families come from.

mod graph;
mod varidx;

use graph::*;
use rayon::prelude::*;
use read_fonts::FontRef;
use serde_json::{json, Value};
use skrifa::color::{Brush, ColorGlyphFormat, ColorPainter, CompositeMode, PaintCachedColorGlyph, PaintError, Transform};
use skrifa::instance::LocationRef;
use skrifa::{GlyphId, MetadataProvider};
use std::collections::HashSet;
use std::sync::atomic::{AtomicU64, Ordering};
use std::sync::Mutex;
use std::time::{Duration, Instant};
use vcore::*;

fn main() {
    if let Ok(spec) = std::env::var("C13_WORKER") {
        worker(&spec);
        return;
    }
    main_for("C13", body)
}

/// CPU time consumed by the calling thread. All time-based oracles use CPU time, not wall time, so
/// that a heavily loaded machine cannot produce a false alarm.
fn thread_cpu() -> Duration {
    let mut ts = libc::timespec { tv_sec: 0, tv_nsec: 0 };
    // SAFETY: plain syscall writing into a local struct
    unsafe { libc::clock_gettime(libc::CLOCK_THREAD_CPUTIME_ID, &mut ts) };
    Duration::new(ts.tv_sec as u64, ts.tv_nsec as u32)
}

// ---------------------------------------------------------------------------
// recording painter
// ---------------------------------------------------------------------------

#[derive(Clone, Copy, Debug, PartialEq, Eq, Hash)]
enum Ev {
    PushTransform,
    PopTransform,
    PushClipGlyph(u32),
    PushClipBox,
    PopClip,
    PushLayer(u8),
    PopLayer,
    Fill(u8),
    FillGlyph(u32, bool, u8),
    Cached(u32),
}

struct Rec {
    events: Vec<Ev>,
    cache_ok: bool,
    /// true: painted through `RecDefault`, i.e. the trait's provided `fill_glyph` runs
    #[allow(dead_code)]
    decompose: bool,
    /// the painter aborts the traversal (by unwinding) once more callbacks than this have arrived, so
    /// that a traversal that blows up cannot hang the check
    limit: usize,
}

const LIMIT_MSG: &str = "C13 callback limit exceeded";

impl Rec {
    fn ev(&mut self, e: Ev) {
        self.events.push(e);
        if self.events.len() > self.limit {
            panic!("{}", LIMIT_MSG);
        }
    }
}

fn brush_kind(b: &Brush<'_>) -> u8 {
    match b {
        Brush::Solid { .. } => 0,
        Brush::LinearGradient { .. } => 1,
        Brush::RadialGradient { .. } => 2,
        Brush::SweepGradient { .. } => 3,
    }
}

impl ColorPainter for Rec {
    fn push_transform(&mut self, _t: Transform) {
        self.ev(Ev::PushTransform)
    }
    fn pop_transform(&mut self) {
        self.ev(Ev::PopTransform)
    }
    fn push_clip_glyph(&mut self, g: GlyphId) {
        self.ev(Ev::PushClipGlyph(g.to_u32()))
    }
    fn push_clip_box(&mut self, _b: read_fonts::types::BoundingBox<f32>) {
        self.ev(Ev::PushClipBox)
    }
    fn pop_clip(&mut self) {
        self.ev(Ev::PopClip)
    }
    fn fill(&mut self, b: Brush<'_>) {
        self.ev(Ev::Fill(brush_kind(&b)))
    }
    fn fill_glyph(&mut self, glyph_id: GlyphId, brush_transform: Option<Transform>, brush: Brush<'_>) {
        // the overriding client: one atomic callback
        self.ev(Ev::FillGlyph(glyph_id.to_u32(), brush_transform.is_some(), brush_kind(&brush)));
    }
    fn paint_cached_color_glyph(&mut self, g: GlyphId) -> Result<PaintCachedColorGlyph, PaintError> {
        self.ev(Ev::Cached(g.to_u32()));
        Ok(if self.cache_ok { PaintCachedColorGlyph::Ok } else { PaintCachedColorGlyph::Unimplemented })
    }
    fn push_layer(&mut self, m: CompositeMode) {
        self.ev(Ev::PushLayer(m as u8))
    }
    fn pop_layer(&mut self) {
        self.ev(Ev::PopLayer)
    }
}

/// A client that does NOT override `fill_glyph`: the trait's own provided default runs (the real one,
/// not a copy), decomposing into push_clip_glyph / push_transform / fill / pop_transform / pop_clip.
struct RecDefault(Rec);
impl ColorPainter for RecDefault {
    fn push_transform(&mut self, t: Transform) {
        self.0.push_transform(t)
    }
    fn pop_transform(&mut self) {
        self.0.pop_transform()
    }
    fn push_clip_glyph(&mut self, g: GlyphId) {
        self.0.push_clip_glyph(g)
    }
    fn push_clip_box(&mut self, b: read_fonts::types::BoundingBox<f32>) {
        self.0.push_clip_box(b)
    }
    fn pop_clip(&mut self) {
        self.0.pop_clip()
    }
    fn fill(&mut self, b: Brush<'_>) {
        self.0.fill(b)
    }
    fn paint_cached_color_glyph(&mut self, g: GlyphId) -> Result<PaintCachedColorGlyph, PaintError> {
        self.0.paint_cached_color_glyph(g)
    }
    fn push_layer(&mut self, m: CompositeMode) {
        self.0.push_layer(m)
    }
    fn pop_layer(&mut self) {
        self.0.pop_layer()
    }
}

/// Dyck check over {transform, clip, layer}: Err(stable description of the first offence)
fn dyck(events: &[Ev]) -> Result<usize, String> {
    let mut stack: Vec<&'static str> = vec![];
    let mut pushes = 0;
    for e in events {
        let (push, kind) = match e {
            Ev::PushTransform => (true, "transform"),
            Ev::PushClipGlyph(_) | Ev::PushClipBox => (true, "clip"),
            Ev::PushLayer(_) => (true, "layer"),
            Ev::PopTransform => (false, "transform"),
            Ev::PopClip => (false, "clip"),
            Ev::PopLayer => (false, "layer"),
            _ => continue,
        };
        if push {
            pushes += 1;
            stack.push(kind);
        } else {
            match stack.pop() {
                None => return Err(format!("pop_{kind} with nothing pushed")),
                Some(top) if top != kind => return Err(format!("pop_{kind} while the innermost open scope is a {top}")),
                _ => {}
            }
        }
    }
    if let Some(top) = stack.last() {
        return Err(format!("{top} pushed but never popped"));
    }
    Ok(pushes)
}

#[derive(Debug)]
struct Painted {
    /// None: no colour glyph for that id
    result: Option<Result<(), String>>,
    events: Vec<Ev>,
}

fn paint(font_bytes: &[u8], gid: u32, format: Option<ColorGlyphFormat>, coords: &[f32], cache_ok: bool, decompose: bool, limit: usize) -> Result<Painted, PanicInfo> {
    guard(|| {
        let font = FontRef::new(font_bytes).expect("FontBuilder output parses");
        let coords: Vec<skrifa::instance::NormalizedCoord> = coords.iter().map(|c| skrifa::instance::NormalizedCoord::from_f32(*c)).collect();
        let glyphs = font.color_glyphs();
        let cg = match format {
            Some(f) => glyphs.get_with_format(GlyphId::new(gid), f),
            None => glyphs.get(GlyphId::new(gid)),
        };
        let rec = Rec { events: vec![], cache_ok, decompose, limit };
        if decompose {
            let mut rec = RecDefault(rec);
            let result = cg.map(|cg| cg.paint(LocationRef::new(&coords), &mut rec).map_err(|e| format!("{e:?}")));
            Painted { result, events: rec.0.events }
        } else {
            let mut rec = rec;
            let result = cg.map(|cg| cg.paint(LocationRef::new(&coords), &mut rec).map_err(|e| format!("{e:?}")));
            Painted { result, events: rec.events }
        }
    })
}

// ---------------------------------------------------------------------------
// in-process watchdog: every paint run registers itself; a monitor thread reports a run that has
// not returned after STUCK_S seconds as a violation (with the in-flight case) and ends the process
// ---------------------------------------------------------------------------

const STUCK_S: u64 = 60;
type Slot = Mutex<Option<(Instant, Graph, Vec<f32>, bool, bool)>>;
static SLOTS: std::sync::OnceLock<Vec<Slot>> = std::sync::OnceLock::new();

struct InFlight(usize);
impl InFlight {
    fn enter(g: &Graph, coords: &[f32], cache_ok: bool, decompose: bool) -> Option<InFlight> {
        let slots = SLOTS.get()?;
        let i = rayon::current_thread_index().map(|i| i + 1).unwrap_or(0);
        let slot = slots.get(i)?;
        *slot.lock().unwrap() = Some((Instant::now(), g.clone(), coords.to_vec(), cache_ok, decompose));
        Some(InFlight(i))
    }
}
impl Drop for InFlight {
    fn drop(&mut self) {
        if let Some(slots) = SLOTS.get() {
            *slots[self.0].lock().unwrap() = None;
        }
    }
}

fn start_watchdog(run: &'static Run) {
    let _ = SLOTS.set((0..130).map(|_| Mutex::new(None)).collect());
    std::thread::spawn(move || loop {
        std::thread::sleep(Duration::from_millis(500));
        for slot in SLOTS.get().unwrap() {
            let stuck = {
                let g = slot.lock().unwrap();
                match &*g {
                    Some((t0, graph, coords, cache_ok, decompose)) if t0.elapsed() > Duration::from_secs(STUCK_S) => {
                        Some(json!({"kind":"graph","graph":graph.to_json(),"coords":coords,"cache_ok":cache_ok,"decompose_fill_glyph":decompose}))
                    }
                    _ => None,
                }
            };
            if let Some(case) = stuck {
                run.violation(
                    "ColorGlyph::paint does not return within the watchdog on a small paint graph",
                    &format!("paint run still executing after {STUCK_S} s: {case}"),
                    case,
                );
                run.cap_hit("watchdog ended the run: a paint call did not return");
                let code = run.finish();
                std::process::exit(code.max(1));
            }
        }
    });
}

// ---------------------------------------------------------------------------
// oracle
// ---------------------------------------------------------------------------

struct Acc {
    all: HashSet<u64>,
    nontrivial: HashSet<u64>,
    runs: u64,
    ok: u64,
    err: u64,
    cyclic_err: u64,
    unexpected_err: u64,
    max_events: u64,
    simulated: u64,
}
impl Acc {
    fn new() -> Self {
        Acc { all: HashSet::new(), nontrivial: HashSet::new(), runs: 0, ok: 0, err: 0, cyclic_err: 0, unexpected_err: 0, max_events: 0, simulated: 0 }
    }
}

fn flush(run: &Run, a: Acc, pre: &str) {
    run.observe_many(&a.all, &a.nontrivial);
    run.evals(a.runs);
    run.count(&format!("{pre}.paint_runs"), a.runs);
    run.count(&format!("{pre}.ok"), a.ok);
    run.count(&format!("{pre}.err"), a.err);
    run.count(&format!("{pre}.err_on_cyclic_graph"), a.cyclic_err);
    run.count(&format!("{pre}.runs_compared_with_reference_interpreter"), a.simulated);
    run.count(&format!("{pre}.err_although_reference_sees_no_cycle_or_bad_reference"), a.unexpected_err);
    let k = format!("{pre}.max_callbacks");
    let cur = run.counter(&k);
    if a.max_events > cur {
        run.count(&k, a.max_events - cur);
    }
}

/// paint one built graph under one (cache, decompose, coords) choice and apply the three oracles
fn judge(run: &Run, g: &Graph, font: &[u8], coords: &[f32], cache_ok: bool, decompose: bool, acc: &mut Acc) {
    let case = || json!({"kind":"graph","graph":g.to_json(),"coords":coords,"cache_ok":cache_ok,"decompose_fill_glyph":decompose});
    let an = analyze(g, 0, cache_ok);
    acc.runs += 1;
    // the decycler compares a new paint id only with the id at half the current depth (Brent style), so
    // a cycle is reported up to one lap late: cyclic graphs get a 64x looser bound
    let bound = (8 * an.visits + 8) * if an.cyclic { 64 } else { 1 };
    let _inflight = InFlight::enter(g, coords, cache_ok, decompose);
    let t0 = thread_cpu();
    let p = match paint(font, 1, Some(ColorGlyphFormat::ColrV1), coords, cache_ok, decompose, bound as usize) {
        Ok(p) => p,
        Err(pi) if pi.message == LIMIT_MSG => {
            run.violation(
                "ColorGlyph::paint emits more callbacks than the paint graph has root paths",
                &format!("more than {} callbacks; reference tree unfolding has {} node visits", bound, an.visits),
                case(),
            );
            return;
        }
        Err(pi) => {
            run.violation(&format!("ColorGlyph::paint panic: {} in {}", pi.kind(), pi.site()), &format!("{} at {}:{}", pi.message, pi.file, pi.line), case());
            return;
        }
    };
    let dt = thread_cpu().saturating_sub(t0);
    run.trans(p.events.len() as u64 + 1);
    acc.max_events = acc.max_events.max(p.events.len() as u64);
    let Some(result) = p.result else {
        run.machinery_error(&format!("no colour glyph for gid 1 in a synthesised font: {}", g.to_json()));
        return;
    };
    // (1) termination: callbacks bounded by the size of the (truncated) tree unfolding (enforced by
    // the painter's limit above); time
    if dt > Duration::from_secs(2) {
        run.violation(
            "ColorGlyph::paint takes more than 2 s of CPU time on a graph of at most 70 nodes",
            &format!("{:.2}s for a graph of {} nodes", dt.as_secs_f64(), g.nodes()),
            case(),
        );
    }
    // (2a) graphs without PaintGlyph: result and callback stream must equal the reference interpreter's
    // exactly (so a cycle reported late, a spurious cycle error and an extra lap are all seen)
    if let Some((exp_result, exp_events)) = simulate(g, cache_ok, decompose) {
        acc.simulated += 1;
        let got_events: Option<Vec<SimEv>> = p
            .events
            .iter()
            .map(|e| match e {
                Ev::PushTransform => Some(SimEv::PushTransform),
                Ev::PopTransform => Some(SimEv::PopTransform),
                Ev::PushClipBox => Some(SimEv::PushClipBox),
                Ev::PopClip => Some(SimEv::PopClip),
                Ev::PushLayer(_) => Some(SimEv::PushLayer),
                Ev::PopLayer => Some(SimEv::PopLayer),
                Ev::Fill(_) => Some(SimEv::Fill),
                Ev::Cached(g) => Some(SimEv::Cached(*g)),
                Ev::PushClipGlyph(_) => Some(SimEv::PushClipGlyph),
                Ev::FillGlyph(_, has_xf, _) => Some(SimEv::FillGlyph(*has_xf)),
            })
            .collect();
        if exp_result.is_ok() != result.is_ok() {
            let id = match exp_result {
                Err(SimErr::Cycle) => "ColorGlyph::paint returns Ok on a cyclic paint graph".to_string(),
                Err(e) => format!("ColorGlyph::paint returns Ok where the reference traversal fails ({e:?})"),
                Ok(()) => "ColorGlyph::paint reports an error on a paint graph the reference traversal paints".to_string(),
            };
            run.violation(&id, &format!("graph {} cache_ok={cache_ok}: got {:?} with callbacks {:?}; reference {:?} with {:?}", g.to_json(), result, p.events, exp_result, exp_events), case());
        } else if got_events.as_ref() != Some(&exp_events) {
            run.violation(
                "ColorGlyph::paint visits different nodes than the reference traversal",
                &format!("graph {} cache_ok={cache_ok}: result {:?}; callbacks {:?}; reference {:?}", g.to_json(), result, p.events, exp_events),
                case(),
            );
        }
    }
    // (2b) the root refers to itself before any other paint id is on the path: always an error
    if result.is_ok() && g.v0.is_none() && direct_self_reference(&g.bases[0]) {
        run.violation(
            "ColorGlyph::paint returns Ok on a cyclic paint graph",
            &format!("graph {} cache_ok={cache_ok}: glyph 1 refers to itself directly but paint returned Ok with callbacks {:?}", g.to_json(), p.events),
            case(),
        );
    }
    // (2) cyclic => Err
    match &result {
        Ok(()) => {
            acc.ok += 1;
            if an.cyclic {
                run.violation(
                    "ColorGlyph::paint returns Ok on a cyclic paint graph",
                    &format!("graph {} has a reachable cycle but paint returned Ok with {} callbacks", g.to_json(), p.events.len()),
                    case(),
                );
            }
            // (3) Ok => balanced
            if let Err(why) = dyck(&p.events) {
                run.violation(
                    &format!("ColorGlyph::paint Ok with unbalanced callbacks: {why}"),
                    &format!("graph {} callbacks {:?}", g.to_json(), p.events),
                    case(),
                );
            }
        }
        Err(_) => {
            acc.err += 1;
            if an.cyclic {
                acc.cyclic_err += 1;
            } else if !an.invalid && !an.too_deep {
                acc.unexpected_err += 1;
                if !cache_ok && std::env::var("C13_DEBUG").is_ok() && run.counter("debug_unexpected") < 12 {
                    run.count("debug_unexpected", 1);
                    eprintln!("[c13] unexpected Err {:?}: {} clip={}", result, g.to_json(), g.clip);
                }
            }
        }
    }
    let d = digest_of(&(g, coords.iter().map(|c| c.to_bits()).collect::<Vec<_>>(), cache_ok, decompose, result.is_ok(), &p.events));
    acc.all.insert(d);
    if p.events.iter().any(|e| matches!(e, Ev::PushTransform | Ev::PushClipGlyph(_) | Ev::PushClipBox | Ev::PushLayer(_))) {
        acc.nontrivial.insert(d);
    }
}

fn judge_all_modes(run: &Run, g: &Graph, coords_list: &[Vec<f32>], acc: &mut Acc) {
    let font = match guard(|| build_font(g)) {
        Ok(Ok(f)) => f,
        Ok(Err(e)) => {
            run.count("graphs_not_buildable", 1);
            if run.counter("graphs_not_buildable") < 3 {
                eprintln!("[c13] not buildable: {e} {}", g.to_json());
            }
            return;
        }
        Err(p) => {
            run.machinery_error(&format!("write-fonts panicked building {}: {}", g.to_json(), p.message));
            return;
        }
    };
    for coords in coords_list {
        for cache_ok in [false, true] {
            for decompose in [true, false] {
                judge(run, g, &font, coords, cache_ok, decompose, acc);
            }
        }
    }
}

// ---------------------------------------------------------------------------
// families A and B
// ---------------------------------------------------------------------------

fn structural_alphabet() -> Alphabet {
    let mut leaves = vec![Node::Fill(Fill::Solid), Node::ColrGlyph(1), Node::ColrGlyph(2), Node::ColrGlyph(5)];
    for first in 0..=2u32 {
        for count in 0..=3u8 {
            leaves.push(Node::ColrLayers(first, count));
        }
    }
    Alphabet { leaves, unaries: vec![Un::Translate, Un::Glyph], xfs: vec![] }
}

/// all size tuples (each >= 1) of length k with sum <= n
fn compositions(k: usize, n: usize) -> Vec<Vec<usize>> {
    fn rec(k: usize, left: usize, cur: &mut Vec<usize>, out: &mut Vec<Vec<usize>>) {
        if cur.len() == k {
            out.push(cur.clone());
            return;
        }
        let remaining_slots = k - cur.len() - 1;
        let mut s = 1;
        while s + remaining_slots <= left {
            cur.push(s);
            rec(k, left - s, cur, out);
            cur.pop();
            s += 1;
        }
    }
    let mut out = vec![];
    rec(k, n, &mut vec![], &mut out);
    out
}

/// call f for every forest (nb bases, nl layers) with total size <= n; parallel over the first tree
fn for_each_forest(trees: &[Vec<Node>], n: usize, f: &(dyn Fn(&Graph, &mut Acc) + Sync), run: &Run, pre: &str) -> u64 {
    let total = AtomicU64::new(0);
    for (nb, nl) in [(1usize, 0usize), (2, 0), (1, 1), (1, 2), (2, 1), (2, 2)] {
        let k = nb + nl;
        for sizes in compositions(k, n) {
            let first = &trees[sizes[0]];
            first.par_iter().for_each(|t0| {
                let mut acc = Acc::new();
                let mut slots: Vec<Node> = vec![t0.clone()];
                fn rec(trees: &[Vec<Node>], sizes: &[usize], slots: &mut Vec<Node>, nb: usize, f: &(dyn Fn(&Graph, &mut Acc) + Sync), acc: &mut Acc, count: &mut u64) {
                    if slots.len() == sizes.len() {
                        for clip in [false, true] {
                            let g = Graph { bases: slots[..nb].to_vec(), layers: slots[nb..].to_vec(), clip, var_store: false, v0: None, var_map: None, store_empty: false, clip_var: false, store_shape: None };
                            f(&g, acc);
                            *count += 1;
                        }
                        return;
                    }
                    for t in &trees[sizes[slots.len()]] {
                        slots.push(t.clone());
                        rec(trees, sizes, slots, nb, f, acc, count);
                        slots.pop();
                    }
                }
                let mut count = 0u64;
                rec(trees, &sizes, &mut slots, nb, f, &mut acc, &mut count);
                total.fetch_add(count, Ordering::Relaxed);
                flush(run, acc, pre);
            });
        }
    }
    total.load(Ordering::Relaxed)
}

#[allow(dead_code)]
/// all single substitutions of a Translate by another transform kind / a Solid by another fill
fn substitutions(n: &Node) -> Vec<(Node, bool)> {
    // returns (tree, uses_var)
    let mut out = vec![];
    match n {
        Node::Fill(Fill::Solid) => {
            for f in FILLS.iter().filter(|f| **f != Fill::Solid) {
                out.push((Node::Fill(*f), format!("{f:?}").starts_with("Var")));
            }
        }
        Node::Unary(u, c) => {
            if *u == Un::Translate {
                for v in UNARIES.iter().filter(|v| **v != Un::Translate && **v != Un::Glyph) {
                    out.push((Node::Unary(*v, c.clone()), format!("{v:?}").starts_with("Var")));
                }
            }
            for (s, var) in substitutions(c) {
                out.push((Node::Unary(*u, Box::new(s)), var));
            }
        }
        Node::Composite(a, b) => {
            for (s, var) in substitutions(a) {
                out.push((Node::Composite(Box::new(s), b.clone()), var));
            }
            for (s, var) in substitutions(b) {
                out.push((Node::Composite(a.clone(), Box::new(s)), var));
            }
        }
        _ => {}
    }
    out
}

// ---------------------------------------------------------------------------
// chains (families D, E)
// ---------------------------------------------------------------------------

fn chain_graph(kind: &str, depth: usize) -> Graph {
    let solid = || Node::Fill(Fill::Solid);
    let mut g = Graph { bases: vec![], layers: vec![], clip: false, var_store: false, v0: None, var_map: None, store_empty: false, clip_var: false, store_shape: None };
    match kind {
        "ColrLayers" => {
            g.bases.push(Node::ColrLayers(0, 1));
            for i in 0..depth {
                g.layers.push(if i + 1 < depth { Node::ColrLayers(i as u32 + 1, 1) } else { solid() });
            }
        }
        "ColrGlyph" => {
            for i in 0..depth {
                g.bases.push(Node::ColrGlyph(i as u16 + 2));
            }
            g.bases.push(solid());
        }
        "CompositeSource" | "CompositeBackdrop" => {
            let mut n = solid();
            for _ in 0..depth {
                n = if kind == "CompositeSource" { Node::Composite(Box::new(n), Box::new(solid())) } else { Node::Composite(Box::new(solid()), Box::new(n)) };
            }
            g.bases.push(n);
        }
        u => {
            let un = *UNARIES.iter().find(|x| format!("{x:?}") == u).expect("chain kind");
            let mut n = solid();
            for _ in 0..depth {
                n = Node::Unary(un, Box::new(n));
            }
            g.bases.push(n);
        }
    }
    g
}

/// worker subprocess: paints one chain, prints one RESULT line
fn worker(spec: &str) {
    let v: Value = serde_json::from_str(spec).expect("worker spec");
    if v["dev_font"].is_string() {
        worker_dev(&v);
        return;
    }
    let kind = v["chain"].as_str().unwrap();
    let depth = v["depth"].as_u64().unwrap() as usize;
    let cache_ok = v["cache_ok"].as_bool().unwrap();
    let decompose = v["decompose"].as_bool().unwrap();
    // deep recursion in write-fonts while serialising a 1000-deep tree: give it room
    let r = std::thread::Builder::new()
        .stack_size(256 << 20)
        .spawn({
            let kind = kind.to_string();
            move || build_font(&chain_graph(&kind, depth))
        })
        .unwrap()
        .join();
    let font = match r {
        Ok(Ok(f)) => f,
        other => {
            println!("BUILD-FAILED {:?}", other.map(|r| r.map(|f| f.len())));
            return;
        }
    };
    println!("BUILT {}", font.len());
    install_panic_hook();
    // the paint call gets CHAIN_CPU_S seconds of CPU time; the kernel ends the process with SIGXCPU
    // after that (load independent), the supervisor's wall-clock watchdog is only a backstop
    let used = unsafe {
        let mut ru: libc::rusage = std::mem::zeroed();
        libc::getrusage(libc::RUSAGE_SELF, &mut ru);
        (ru.ru_utime.tv_sec + ru.ru_stime.tv_sec) as u64 + 1
    };
    let lim = libc::rlimit { rlim_cur: used + CHAIN_CPU_S, rlim_max: used + CHAIN_CPU_S + 1 };
    unsafe { libc::setrlimit(libc::RLIMIT_CPU, &lim) };
    let t0 = Instant::now();
    match paint(&font, 1, Some(ColorGlyphFormat::ColrV1), &[], cache_ok, decompose, usize::MAX) {
        Ok(p) => {
            let d = dyck(&p.events);
            println!(
                "RESULT {}",
                json!({"ok": matches!(p.result, Some(Ok(()))), "err": p.result.and_then(|r| r.err()), "events": p.events.len(), "balanced": d.is_ok(),
                       "unbalanced": d.as_ref().err(), "pushes": d.unwrap_or(0), "ms": t0.elapsed().as_secs_f64()*1000.0})
            );
        }
        Err(pi) => println!("PANIC {}", json!({"kind": pi.kind(), "site": pi.site(), "message": pi.message})),
    }
}

enum WorkerOutcome {
    Result(Value),
    Panic(Value),
    BuildFailed(String),
    TimedOut { built: bool },
    Crashed(String),
}

fn run_worker(spec: &Value, watchdog: Duration) -> WorkerOutcome {
    use std::io::Read;
    use std::process::{Command, Stdio};
    let exe = std::env::current_exe().expect("current_exe");
    let mut child = Command::new(exe)
        .env("C13_WORKER", spec.to_string())
        .stdout(Stdio::piped())
        .stderr(Stdio::null())
        .spawn()
        .expect("spawn worker");
    let t0 = Instant::now();
    let mut timed_out = false;
    let status = loop {
        match child.try_wait() {
            Ok(Some(st)) => break Some(st),
            Ok(None) => {
                if t0.elapsed() > watchdog {
                    let _ = child.kill();
                    let _ = child.wait();
                    timed_out = true;
                    break None;
                }
                std::thread::sleep(Duration::from_millis(5));
            }
            Err(_) => break None,
        }
    };
    let mut out = String::new();
    if let Some(mut so) = child.stdout.take() {
        let _ = so.read_to_string(&mut out);
    }
    if timed_out {
        return WorkerOutcome::TimedOut { built: out.contains("BUILT") };
    }
    {
        use std::os::unix::process::ExitStatusExt;
        if let Some(sig) = status.and_then(|s| s.signal()) {
            if sig == libc::SIGXCPU || sig == libc::SIGKILL {
                // CPU limit reached
                return WorkerOutcome::TimedOut { built: out.contains("BUILT") };
            }
        }
    }
    for line in out.lines() {
        if let Some(r) = line.strip_prefix("RESULT ") {
            return WorkerOutcome::Result(serde_json::from_str(r).unwrap_or(Value::Null));
        }
        if let Some(r) = line.strip_prefix("PANIC ") {
            return WorkerOutcome::Panic(serde_json::from_str(r).unwrap_or(Value::Null));
        }
        if line.starts_with("BUILD-FAILED") {
            return WorkerOutcome::BuildFailed(line.to_string());
        }
    }
    if !out.contains("BUILT") {
        return WorkerOutcome::BuildFailed(format!("worker died while building: status {status:?}"));
    }
    WorkerOutcome::Crashed(format!("status {status:?} output {out:?}"))
}


// ---------------------------------------------------------------------------
// family F: one-byte deviations of the corpus COLR tables (X3), in supervised workers
// ---------------------------------------------------------------------------

const DEV_CALLBACK_CAP: usize = 200_000;

fn deviations(orig: u8) -> Vec<u8> {
    let mut v = vec![0x00, 0xff, orig ^ 1, orig.wrapping_add(1), orig ^ 0x80];
    v.retain(|x| *x != orig);
    v.sort();
    v.dedup();
    v
}

fn colr_range(bytes: &[u8]) -> Option<(usize, usize)> {
    let font = FontRef::new(bytes).ok()?;
    let rec = font.table_directory.table_records().iter().find(|r| r.tag() == font_types::Tag::new(b"COLR"))?;
    Some((rec.offset() as usize, rec.length() as usize))
}

/// gids painted for every deviation: up to 24 glyphs, evenly spaced among those that have a colour
/// glyph in the unmodified font
fn colour_gids(bytes: &[u8]) -> Vec<u32> {
    let Ok(font) = FontRef::new(bytes) else { return vec![] };
    let n = read_fonts::TableProvider::maxp(&font).map(|m| m.num_glyphs()).unwrap_or(0) as u32;
    let cg = font.color_glyphs();
    let all: Vec<u32> = (0..n).filter(|g| cg.get(GlyphId::new(*g)).is_some()).collect();
    if all.len() <= 24 {
        return all;
    }
    (0..24).map(|i| all[i * (all.len() - 1) / 23]).collect()
}

/// prints "S off val" before and "D off val digest ok err capped" after every deviation;
/// "V off val gid cache why" for an unbalanced Ok stream, "P off val gid kind|site" for a panic
fn worker_dev(v: &Value) {
    install_panic_hook();
    // a range of 128 offsets costs well under a second of CPU; 30 s of CPU means a paint call hangs
    let lim = libc::rlimit { rlim_cur: 30, rlim_max: 31 };
    unsafe { libc::setrlimit(libc::RLIMIT_CPU, &lim) };
    let rel = v["dev_font"].as_str().unwrap();
    let from = v["from"].as_u64().unwrap() as usize;
    let to = v["to"].as_u64().unwrap() as usize;
    let skip_vals_at_from = v["skip_values_upto"].as_i64().unwrap_or(-1);
    let bytes = std::fs::read(repo_root().join(rel)).expect("read corpus font");
    let Some((base, len)) = colr_range(&bytes) else {
        println!("NOCOLR");
        return;
    };
    let gids = colour_gids(&bytes);
    let mut work = bytes.clone();
    for off in from..to.min(len) {
        let orig = bytes[base + off];
        for val in deviations(orig) {
            if off == from && (val as i64) <= skip_vals_at_from {
                continue;
            }
            println!("S {off} {val}");
            work[base + off] = val;
            let mut h = Fnv::new();
            let (mut ok, mut err, mut capped) = (0u32, 0u32, 0u32);
            for gid in &gids {
                for cache_ok in [false, true] {
                    match paint(&work, *gid, None, &[], cache_ok, true, DEV_CALLBACK_CAP) {
                        Ok(p) => {
                            h.u64(digest_of(&(gid, cache_ok, p.result.as_ref().map(|r| r.is_ok()), &p.events)));
                            match p.result {
                                Some(Ok(())) => {
                                    ok += 1;
                                    if let Err(why) = dyck(&p.events) {
                                        println!("V {off} {val} {gid} {cache_ok} {why}");
                                    }
                                }
                                Some(Err(_)) => err += 1,
                                None => {}
                            }
                        }
                        Err(pi) if pi.message == LIMIT_MSG => capped += 1,
                        Err(pi) => println!("P {off} {val} {gid} {}|{}", pi.kind(), pi.site()),
                    }
                }
            }
            println!("D {off} {val} {:x} {ok} {err} {capped}", h.finish());
        }
        work[base + off] = orig;
    }
    println!("END");
}

#[derive(Default)]
struct DevStats {
    cases: u64,
    ok: u64,
    err: u64,
    capped: u64,
    digests: HashSet<u64>,
    nontrivial: HashSet<u64>,
}

/// supervise one (font, offset range): restart after a kill, report the in-flight case
fn supervise_dev(run: &Run, rel: &str, from: usize, to: usize, silence: Duration, st: &mut DevStats) {
    use std::io::{BufRead, BufReader};
    use std::process::{Command, Stdio};
    use std::sync::mpsc;
    let mut from = from;
    let mut skip: i64 = -1;
    let mut restarts = 0;
    while from < to && restarts < 50 {
        let spec = json!({"dev_font": rel, "from": from, "to": to, "skip_values_upto": skip});
        let mut child = Command::new(std::env::current_exe().unwrap())
            .env("C13_WORKER", spec.to_string())
            .stdout(Stdio::piped())
            .stderr(Stdio::null())
            .spawn()
            .expect("spawn dev worker");
        let out = child.stdout.take().unwrap();
        let (tx, rx) = mpsc::channel::<String>();
        let reader = std::thread::spawn(move || {
            for line in BufReader::new(out).lines().map_while(Result::ok) {
                if tx.send(line).is_err() {
                    break;
                }
            }
        });
        let mut inflight: Option<(usize, u8)> = None;
        let mut finished = false;
        let mut killed = false;
        loop {
            match rx.recv_timeout(silence) {
                Ok(line) => {
                    let f: Vec<&str> = line.split(' ').collect();
                    match f[0] {
                        "S" => inflight = Some((f[1].parse().unwrap(), f[2].parse().unwrap())),
                        "D" => {
                            st.cases += 1;
                            let d = u64::from_str_radix(f[3], 16).unwrap_or(0);
                            let d = digest_of(&(rel, d)); // outcome of all paints of that font, independent of where the byte was changed
                            st.digests.insert(d);
                            let ok: u64 = f[4].parse().unwrap_or(0);
                            st.ok += ok;
                            st.err += f[5].parse::<u64>().unwrap_or(0);
                            st.capped += f[6].parse::<u64>().unwrap_or(0);
                            if ok > 0 {
                                st.nontrivial.insert(d);
                            }
                            inflight = None;
                        }
                        "V" => run.violation(
                            &format!("ColorGlyph::paint Ok with unbalanced callbacks: {}", f[5..].join(" ")),
                            &format!("{rel}: COLR byte +{} set to {} , glyph {} cache_ok={}", f[1], f[2], f[3], f[4]),
                            json!({"kind":"dev","font":rel,"offset":f[1].parse::<usize>().unwrap_or(0),"value":f[2].parse::<u8>().unwrap_or(0)}),
                        ),
                        "P" => run.violation(
                            &format!("ColorGlyph::paint panic: {}", f[4..].join(" ").replace('|', " in ")),
                            &format!("{rel}: COLR byte +{} set to {}, glyph {}", f[1], f[2], f[3]),
                            json!({"kind":"dev","font":rel,"offset":f[1].parse::<usize>().unwrap_or(0),"value":f[2].parse::<u8>().unwrap_or(0)}),
                        ),
                        "END" | "NOCOLR" => {
                            finished = true;
                            break;
                        }
                        _ => {}
                    }
                }
                Err(mpsc::RecvTimeoutError::Timeout) => {
                    let _ = child.kill();
                    killed = true;
                    break;
                }
                Err(mpsc::RecvTimeoutError::Disconnected) => break,
            }
        }
        let status = child.wait().ok();
        let _ = reader.join();
        if finished {
            return;
        }
        restarts += 1;
        match inflight {
            Some((off, val)) => {
                use std::os::unix::process::ExitStatusExt;
                let cpu_limit = status.and_then(|s| s.signal()).map(|sig| sig == libc::SIGXCPU || sig == libc::SIGKILL).unwrap_or(false) && !killed;
                let killed = killed || cpu_limit;
                let what = if cpu_limit {
                    "worker used 30 s of CPU time without finishing this case".to_string()
                } else if killed {
                    format!("no output for {:.0} s; worker killed", silence.as_secs_f64())
                } else {
                    format!("worker died ({status:?}): stack overflow or abort")
                };
                run.violation(
                    &if killed { "ColorGlyph::paint does not return within the watchdog: corpus COLR deviation".to_string() } else { "ColorGlyph::paint crashes the process: corpus COLR deviation".to_string() },
                    &format!("{rel}: COLR byte +{off} set to {val}: {what}"),
                    json!({"kind":"dev","font":rel,"offset":off,"value":val}),
                );
                from = off;
                skip = val as i64;
            }
            None => {
                run.machinery_error(&format!("dev worker for {rel} ended without END and without an in-flight case ({status:?})"));
                return;
            }
        }
    }
}

fn family_dev(run: &Run) {
    let n_bytes = run.tier.pick(3072usize, 65536usize);
    let fonts: Vec<String> = corpus_fonts().into_iter().filter(|(_, b)| colr_range(b).is_some()).map(|(p, _)| p).collect();
    run.bound("F.corpus_deviations", json!({"fonts": fonts, "colr_bytes_deviated": n_bytes, "values_per_byte": "0x00, 0xff, orig^1, orig+1, orig^0x80", "glyphs_painted": "up to 24 colour glyphs, evenly spaced", "cache_answers": [false,true], "cpu_limit_s_per_worker": 30, "silence_backstop_s": 120, "callback_cap_per_paint": DEV_CALLBACK_CAP}));
    let mut jobs = vec![];
    for f in &fonts {
        let mut a = 0;
        while a < n_bytes {
            jobs.push((f.clone(), a, (a + 128).min(n_bytes)));
            a += 128;
        }
    }
    let total: Mutex<DevStats> = Mutex::new(DevStats::default());
    jobs.par_iter().for_each(|(f, a, b)| {
        let mut st = DevStats::default();
        supervise_dev(run, f, *a, *b, Duration::from_secs(120), &mut st);
        let mut t = total.lock().unwrap();
        t.cases += st.cases;
        t.ok += st.ok;
        t.err += st.err;
        t.capped += st.capped;
        t.digests.extend(st.digests);
        t.nontrivial.extend(st.nontrivial);
    });
    let t = total.into_inner().unwrap();
    run.evals(t.cases);
    run.trans(t.ok + t.err + t.capped);
    run.count("F.deviation_cases", t.cases);
    run.count("F.paint_ok", t.ok);
    run.count("F.paint_err", t.err);
    run.count("F.paint_stopped_at_callback_cap", t.capped);
    run.count("F.fonts", fonts.len() as u64);
    run.count("F.distinct_outcomes", t.digests.len() as u64);
    run.observe_many(&t.digests, &t.nontrivial);
}

const CHAIN_CPU_S: u64 = 5;
const EXP_IDENTITY: &str = "ColorGlyph::paint exponential time: nested PaintGlyph chain";

fn chain_case(run: &Run, kind: &str, depth: usize, cache_ok: bool, decompose: bool, watchdog: Duration) -> String {
    let spec = json!({"chain": kind, "depth": depth, "cache_ok": cache_ok, "decompose": decompose});
    let case = json!({"kind":"chain","spec":spec.clone()});
    run.eval();
    match run_worker(&spec, watchdog) {
        WorkerOutcome::Result(r) => {
            run.trans(r["events"].as_u64().unwrap_or(0) + 1);
            let ok = r["ok"].as_bool().unwrap_or(false);
            if ok && !r["balanced"].as_bool().unwrap_or(false) {
                run.violation(
                    &format!("ColorGlyph::paint Ok with unbalanced callbacks: {}", r["unbalanced"].as_str().unwrap_or("?")),
                    &format!("chain of {depth} {kind}: {r}"),
                    case.clone(),
                );
            }
            // a path of more than 65 nested paints is too deep for any reading of the limit of 64
            let effective_depth = if kind == "ColrGlyph" && cache_ok { 1 } else { depth };
            if ok && effective_depth > 65 {
                run.violation(
                    "ColorGlyph::paint returns Ok on a paint graph deeper than the traversal limit",
                    &format!("chain of {depth} {kind} painted successfully: {r}"),
                    case,
                );
            }
            let d = digest_of(&(kind, depth, cache_ok, decompose, r.to_string().replace(|c: char| c.is_ascii_digit() || c == '.', "")));
            run.observe(d, r["pushes"].as_u64().unwrap_or(0) > 0);
            format!("{}", if ok { "Ok".to_string() } else { r["err"].as_str().unwrap_or("Err").to_string() })
        }
        WorkerOutcome::Panic(p) => {
            run.violation(
                &format!("ColorGlyph::paint panic: {} in {}", p["kind"].as_str().unwrap_or("?"), p["site"].as_str().unwrap_or("?")),
                &format!("chain of {depth} {kind}: {p}"),
                case,
            );
            "panic".into()
        }
        WorkerOutcome::BuildFailed(why) => {
            // write-fonts could not serialise the chain: not a statement about painting
            run.count("chains.not_buildable", 1);
            eprintln!("[c13] chain {kind} depth {depth}: {why}");
            "not buildable".into()
        }
        WorkerOutcome::TimedOut { built } => {
            if !built {
                run.count("chains.not_buildable", 1);
                eprintln!("[c13] chain {kind} depth {depth}: build did not finish within the watchdog");
                return "not buildable".into();
            }
            let id = if kind == "Glyph" { EXP_IDENTITY.to_string() } else { format!("ColorGlyph::paint does not return within the watchdog: chain of {kind}") };
            run.violation(
                &id,
                &format!("a chain of {depth} nested {kind} paints (one root path, {} nodes) did not finish painting within {} s of CPU time; worker ended", depth + 1, CHAIN_CPU_S),
                case,
            );
            "timeout".into()
        }
        WorkerOutcome::Crashed(why) => {
            run.violation(
                &format!("ColorGlyph::paint crashes the process: chain of {kind}"),
                &format!("chain of {depth} {kind}: worker ended without a result ({why}) — stack overflow or abort"),
                case,
            );
            "crash".into()
        }
    }
}

/// family E: time nested PaintGlyph chains in-process; violation when time grows ~2^depth
fn glyph_chain_timing(run: &Run) {
    let depths = [8usize, 10, 12, 14, 16, 18, 20];
    let mut times = vec![];
    for d in depths {
        let g = chain_graph("Glyph", d);
        let font = build_font(&g).expect("chain builds");
        let mut best = f64::MAX;
        let mut events = 0;
        for _ in 0..3 {
            let t0 = thread_cpu();
            let p = paint(&font, 1, Some(ColorGlyphFormat::ColrV1), &[], false, true, usize::MAX);
            best = best.min(thread_cpu().saturating_sub(t0).as_secs_f64());
            events = p.map(|p| p.events.len()).unwrap_or(0);
            run.eval();
        }
        times.push((d, best, events));
    }
    run.extra("glyph_chain_timing", json!(times.iter().map(|(d, t, e)| json!({"depth": d, "seconds": t, "callbacks": e})).collect::<Vec<_>>()));
    let t14 = times.iter().find(|t| t.0 == 14).unwrap().1.max(1e-7);
    let t20 = times.iter().find(|t| t.0 == 20).unwrap().1;
    let ratio = t20 / t14;
    let per_level = ratio.powf(1.0 / 6.0);
    run.extra("glyph_chain_growth_per_level", json!(per_level));
    // linear work would give a ratio of about 1.4 over these six levels, doubling per level gives 64
    if ratio >= 16.0 && t20 >= 0.002 {
        let extrap = t20 * per_level.powi(44);
        run.violation(
            EXP_IDENTITY,
            &format!(
                "painting a chain of d nested PaintGlyph nodes (one root path, 2d+1 callbacks) takes {:?} s for d = {:?}: x{:.2} per level, i.e. about {:.1e} s at the depth limit of 64",
                times.iter().map(|t| (t.1 * 1e6).round() / 1e6).collect::<Vec<_>>(),
                depths,
                per_level,
                extrap
            ),
            json!({"kind":"glyph_chain_timing"}),
        );
    }
}

// ---------------------------------------------------------------------------
// body
// ---------------------------------------------------------------------------

fn body(run: &Run, replay: Option<&Value>) {
    run.rule("a case is one paint run: (paint graph realised as a real COLR table in a FontBuilder font, clip list on/off, variation location, cache answer, fill_glyph default/overridden); distinct = distinct (graph, mode, result kind, callback stream) digests; non-trivial = the stream contains at least one push");
    run.assume("reference: cycle reachability and tree-unfolding size are computed on the abstract graph by a 40-line DFS (graph.rs::analyze); with the cache answer Ok, PaintColrGlyph edges are not followed by the reference, so no Err is demanded for cycles that exist only behind them");
    run.assume("termination oracle: callbacks <= 8 x (node visits of the depth-64-truncated, cycle-cut tree unfolding) + 8, wall time <= 2 s in-process / the worker watchdog for chains; 'too deep' is only asserted for chains of 1000 nodes (the exact limit of 64 is not part of the statement)");
    if let Some(case) = replay {
        replay_case(run, case);
        return;
    }
    // SAFETY of the 'static borrow: main_for never returns (it exits the process), so `run` lives
    // until exit; the monitor thread only reads it.
    let run_static: &'static Run = unsafe { &*(run as *const Run) };
    start_watchdog(run_static);
    if std::env::var("C13_ONLY_NEW").is_ok() {
        // development aid: only the families added by the coverage audit (R, N, P, S, T)
        family_rare_values(run);
        varidx::family_var_indices(run);
        varidx::family_lookups(run);
        varidx::family_stop_counts(run);
        varidx::family_mode_client(run);
        run.cap_hit("C13_ONLY_NEW set: families A-M not run");
        return;
    }
    let n = run.tier.pick(4usize, 5usize);
    let al = structural_alphabet();
    let trees = trees_up_to(&al, n);
    run.bound(
        "A.structural",
        json!({"max_total_nodes": n, "leaves": al.leaves.iter().map(|l| l.to_json()).collect::<Vec<_>>(), "unaries": ["Translate","Glyph"], "binary": ["Composite"],
               "slots": "base glyph 1, optional base glyph 2, optional layers 0 and 1", "trees_by_size": trees.iter().map(|t| t.len()).collect::<Vec<_>>(),
               "clip_list": [false,true], "cache_answers": ["Unimplemented","Ok"], "fill_glyph": ["default (decomposed)","overridden"]}),
    );
    let coords0: Vec<Vec<f32>> = vec![vec![]];
    let graphs_a = for_each_forest(&trees, n, &|g, acc| judge_all_modes(run, g, &coords0, acc), run, "A");
    run.count("A.graphs", graphs_a);
    eprintln!("[c13] A done at {:.1}s: {} graphs", run.elapsed(), graphs_a);
    run.sample(json!({"family":"A","example": Graph{bases:vec![Node::Unary(Un::Glyph, Box::new(Node::ColrLayers(0,2)))], layers: vec![Node::Fill(Fill::Solid), Node::ColrLayers(0,1)], clip:true, var_store:false, v0: None, var_map: None, store_empty: false, clip_var: false, store_shape: None}.to_json()}));

    // G: multi-kind products: every forest in which EACH node ranges over the full alphabet (all fills
    // incl. variable and degenerate ones, all 21 unary kinds, ColrGlyph x3, ColrLayers x12, Composite).
    // Graphs containing a variable paint are painted with a variation store at [] and [0.5] and also
    // without a store at [].
    let ng = run.tier.pick(3usize, 4usize);
    let mut full_leaves: Vec<Node> = FILLS.iter().map(|f| Node::Fill(*f)).collect();
    full_leaves.extend(al.leaves.iter().filter(|l| !matches!(l, Node::Fill(_))).cloned());
    // every transform kind also with identity parameters (translate 0, scale 1, rotate 0, skew 0, identity matrix)
    let identity_xfs: Vec<(Un, u8)> = UNARIES.iter().filter(|u| **u != Un::Glyph).map(|u| (*u, 0u8)).collect();
    let full = Alphabet { leaves: full_leaves, unaries: UNARIES.to_vec(), xfs: identity_xfs };
    let full_trees = trees_up_to(&full, ng);
    let coords_var: Vec<Vec<f32>> = vec![vec![], vec![0.5]];
    run.bound(
        "G.multi_kind_products",
        json!({"max_total_nodes": ng, "leaves": full.leaves.len(), "unary_kinds": full.unaries.len(), "identity_parameter_transform_kinds": full.xfs.len(), "binary": ["Composite"], "trees_by_size": full_trees.iter().map(|t| t.len()).collect::<Vec<_>>(),
               "locations_for_graphs_with_variable_paints": [[], [0.5]], "clip_list": [false, true]}),
    );
    let graphs_g = for_each_forest(&full_trees, ng, &|g, acc| {
        let var = g.bases.iter().chain(g.layers.iter()).any(uses_var);
        if var {
            let mut g2 = g.clone();
            g2.var_store = true;
            judge_all_modes(run, &g2, &coords_var, acc);
        }
        judge_all_modes(run, g, &coords0, acc);
    }, run, "G");
    run.count("G.graphs", graphs_g);
    eprintln!("[c13] G done at {:.1}s: {} graphs", run.elapsed(), graphs_g);

    // J: PaintGlyph over transform chains with identity / cancelling parameters
    family_glyph_transform_chains(run);
    eprintln!("[c13] J done at {:.1}s", run.elapsed());

    // K: the bundled COLR fonts, unmodified
    family_corpus_baseline(run);
    eprintln!("[c13] K done at {:.1}s", run.elapsed());

    // L: truncated tables for every paint format
    family_truncation(run);
    eprintln!("[c13] L done at {:.1}s", run.elapsed());

    // M: variable paints x VarIndexMap shapes x store shapes
    family_var_index_map(run);
    eprintln!("[c13] M done at {:.1}s", run.elapsed());

    // N: every index the variable-paint code follows; P: record lookups; S: stop counts
    family_rare_values(run);
    eprintln!("[c13] R done at {:.1}s", run.elapsed());
    varidx::family_var_indices(run);
    eprintln!("[c13] N done at {:.1}s", run.elapsed());
    varidx::family_lookups(run);
    eprintln!("[c13] P done at {:.1}s", run.elapsed());
    varidx::family_stop_counts(run);
    eprintln!("[c13] S done at {:.1}s", run.elapsed());
    varidx::family_mode_client(run);
    eprintln!("[c13] T done at {:.1}s", run.elapsed());

    // H: degenerate gradient geometry and colour lines ("returns and is balanced" only)
    family_gradients(run);
    eprintln!("[c13] H done at {:.1}s", run.elapsed());

    // I: fonts where glyph 1 has both a COLR v0 record and a v1 paint
    family_mixed(run);
    eprintln!("[c13] I done at {:.1}s", run.elapsed());

    // C: COLR v0
    family_v0(run);

    // D: chains in worker subprocesses
    let watchdog = Duration::from_secs(120);
    let mut kinds: Vec<String> = UNARIES.iter().map(|u| format!("{u:?}")).collect();
    kinds.extend(["CompositeSource", "CompositeBackdrop", "ColrLayers", "ColrGlyph"].map(String::from));
    let depths: Vec<usize> = vec![63, 64, 65, 70, 1000];
    run.bound("D.chains", json!({"kinds": kinds, "depths": depths, "cache_answers": [false,true], "cpu_limit_s_per_paint": CHAIN_CPU_S, "wall_backstop_s": watchdog.as_secs(), "note": "each case in its own worker process"}));
    let mut jobs = vec![];
    for k in &kinds {
        for d in &depths {
            // the Glyph chain is already known to be exponential from d ~ 30: one watchdog kill per
            // depth is enough in the quick tier
            for cache_ok in [false, true] {
                jobs.push((k.clone(), *d, cache_ok));
            }
        }
    }
    let outcomes: Mutex<Vec<(String, usize, bool, String)>> = Mutex::new(vec![]);
    jobs.par_iter().for_each(|(k, d, c)| {
        let o = chain_case(run, k, *d, *c, true, watchdog);
        outcomes.lock().unwrap().push((k.clone(), *d, *c, o));
    });
    let mut o = outcomes.into_inner().unwrap();
    o.sort();
    run.count("D.chain_cases", o.len() as u64);
    run.extra("D.chain_outcomes", json!(o.iter().map(|(k, d, c, r)| format!("{k} depth {d} cache_ok={c}: {r}")).collect::<Vec<_>>()));
    eprintln!("[c13] D done at {:.1}s", run.elapsed());

    // E: growth of the nested PaintGlyph chain
    glyph_chain_timing(run);
    eprintln!("[c13] E done at {:.1}s", run.elapsed());

    // F: corpus deviations
    family_dev(run);
    eprintln!("[c13] F done at {:.1}s", run.elapsed());
}



/// J: PaintGlyph -> chain of 1..=k transform paints -> fill, every transform kind (variable ones too)
/// with identity parameters, and with a pair of parameter sets whose product is exactly the identity.
/// This is where the brush transform handed to `fill_glyph` can be the identity.
fn family_glyph_transform_chains(run: &Run) {
    let k = run.tier.pick(2usize, 3usize);
    let kinds: Vec<Un> = UNARIES.iter().copied().filter(|u| *u != Un::Glyph).collect();
    let mut xfs: Vec<(Un, u8)> = vec![];
    for u in &kinds {
        for p in 0..3u8 {
            xfs.push((*u, p));
        }
    }
    let n = xfs.len();
    // leaf shapes: (leaf node, extra base glyph 2, layers)
    let leaves: Vec<(Node, Option<Node>, Vec<Node>)> = vec![
        (Node::Fill(Fill::Solid), None, vec![]),
        (Node::Fill(Fill::Linear), None, vec![]),
        (Node::ColrLayers(0, 1), None, vec![Node::Fill(Fill::Solid)]),
        (Node::ColrGlyph(2), Some(Node::Fill(Fill::Solid)), vec![]),
    ];
    run.bound(
        "J.glyph_transform_chains",
        json!({"max_chain_length": k, "transform_kinds": kinds.len(), "parameter_sets": ["identity", "A", "B (A*B = identity for translate/matrix/scale kinds)"],
               "leaves": ["Solid", "LinearGradient", "ColrLayers[Solid]", "ColrGlyph -> Solid"], "locations_for_variable_kinds": [[], [0.5]]}),
    );
    let coords0: Vec<Vec<f32>> = vec![vec![]];
    let coords_var: Vec<Vec<f32>> = vec![vec![], vec![0.5]];
    let total = AtomicU64::new(0);
    let identity_fills = AtomicU64::new(0);
    for len in 1..=k {
        let count = (n as u64).pow(len as u32);
        (0..n).into_par_iter().for_each(|first| {
            let mut acc = Acc::new();
            let rest = (n as u64).pow(len as u32 - 1);
            let mut idx = vec![first; len];
            let mut graphs = 0u64;
            for c in 0..rest {
                let mut x = c;
                for i in (1..len).rev() {
                    idx[i] = (x % n as u64) as usize;
                    x /= n as u64;
                }
                for (leaf, base2, layers) in &leaves {
                    let mut node = leaf.clone();
                    for i in idx.iter().rev() {
                        node = Node::Xf(xfs[*i].0, xfs[*i].1, Box::new(node));
                    }
                    let root = Node::Unary(Un::Glyph, Box::new(node));
                    let mut bases = vec![root];
                    if let Some(b2) = base2 {
                        bases.push(b2.clone());
                    }
                    let mut g = Graph { bases, layers: layers.clone(), clip: false, var_store: false, v0: None, var_map: None, store_empty: false, clip_var: false, store_shape: None };
                    graphs += 1;
                    let before = acc.ok;
                    if uses_var(&g.bases[0]) {
                        g.var_store = true;
                        judge_all_modes(run, &g, &coords_var, &mut acc);
                        g.var_store = false;
                    }
                    judge_all_modes(run, &g, &coords0, &mut acc);
                    if acc.ok > before && idx.iter().all(|i| xfs[*i].1 == 0) {
                        identity_fills.fetch_add(1, Ordering::Relaxed);
                    }
                }
            }
            total.fetch_add(graphs, Ordering::Relaxed);
            flush(run, acc, "J");
        });
        let _ = count;
    }
    run.count("J.graphs", total.load(Ordering::Relaxed));
    run.count("J.graphs_with_all_identity_transforms_painted_ok", identity_fills.load(Ordering::Relaxed));
}

/// K: every colour glyph of every bundled font with a COLR table, unmodified, painted with and
/// without the provided default `fill_glyph`, both cache answers: returns, and Ok => balanced.
fn family_corpus_baseline(run: &Run) {
    let fonts: Vec<(String, Vec<u8>)> = corpus_fonts().into_iter().filter(|(_, b)| colr_range(b).is_some()).collect();
    run.bound("K.corpus_baseline", json!({"fonts": fonts.iter().map(|f| f.0.clone()).collect::<Vec<_>>(), "glyphs": "every glyph id with a colour glyph", "callback_cap": 2_000_000}));
    let glyphs = AtomicU64::new(0);
    fonts.par_iter().for_each(|(rel, bytes)| {
        let mut acc = Acc::new();
        let Ok(font) = FontRef::new(bytes) else { return };
        let n = read_fonts::TableProvider::maxp(&font).map(|m| m.num_glyphs()).unwrap_or(0) as u32;
        let cg = font.color_glyphs();
        let gids: Vec<u32> = (0..n).filter(|g| cg.get(GlyphId::new(*g)).is_some()).collect();
        glyphs.fetch_add(gids.len() as u64, Ordering::Relaxed);
        for gid in gids {
            for cache_ok in [false, true] {
                for decompose in [true, false] {
                    acc.runs += 1;
                    let case = json!({"kind":"corpus","font":rel,"gid":gid,"cache_ok":cache_ok,"decompose_fill_glyph":decompose});
                    match paint(bytes, gid, None, &[], cache_ok, decompose, 2_000_000) {
                        Ok(p) => {
                            run.trans(p.events.len() as u64 + 1);
                            acc.max_events = acc.max_events.max(p.events.len() as u64);
                            match &p.result {
                                Some(Ok(())) => {
                                    acc.ok += 1;
                                    if let Err(why) = dyck(&p.events) {
                                        run.violation(&format!("ColorGlyph::paint Ok with unbalanced callbacks: {why}"), &format!("{rel} glyph {gid} cache_ok={cache_ok} default fill_glyph={decompose}: {:?}", &p.events[..p.events.len().min(40)]), case.clone());
                                    }
                                }
                                Some(Err(_)) => acc.err += 1,
                                None => {}
                            }
                            let d = digest_of(&(rel, gid, cache_ok, decompose, p.result.as_ref().map(|r| r.is_ok()), &p.events));
                            acc.all.insert(d);
                            if dyck(&p.events).map(|n| n > 0).unwrap_or(false) {
                                acc.nontrivial.insert(d);
                            }
                        }
                        Err(pi) if pi.message == LIMIT_MSG => {
                            run.count("K.stopped_at_callback_cap", 1);
                        }
                        Err(pi) => run.violation(&format!("ColorGlyph::paint panic: {} in {}", pi.kind(), pi.site()), &format!("{rel} glyph {gid}: {}", pi.message), case),
                    }
                }
            }
        }
        flush(run, acc, "K");
    });
    run.count("K.colour_glyphs", glyphs.load(Ordering::Relaxed));
}


// ---------------------------------------------------------------------------
// family L: truncation. For every paint format 1..=32 a small COLR v1 table (compiled by write-fonts)
// in which glyph 1's paint is of that format (directly, and below a PaintTranslate) is painted
//  (a) for every prefix length of the table (so every record of the table, the target paint, its colour
//      line / affine matrix / children, is cut at every byte), and
//  (b) with a copy of the target record appended as the very last object, the referring offset moved
//      to it, and the last 0..=4 bytes of that copy missing.
// Oracle: no panic, Ok only with a well-nested stream, bounded callbacks.
// ---------------------------------------------------------------------------

/// (format number, record size in bytes, root node, extra base glyph 2, layers)
fn format_table() -> Vec<(u8, usize, Node, Option<Node>, Vec<Node>)> {
    let solid = || Node::Fill(Fill::Solid);
    let un = |u: Un| Node::Unary(u, Box::new(solid()));
    let mut v: Vec<(u8, usize, Node, Option<Node>, Vec<Node>)> = vec![
        (1, 6, Node::ColrLayers(0, 1), None, vec![solid()]),
        (2, 5, solid(), None, vec![]),
        (3, 9, Node::Fill(Fill::VarSolid), None, vec![]),
        (4, 16, Node::Fill(Fill::Linear), None, vec![]),
        (5, 20, Node::Fill(Fill::VarLinear), None, vec![]),
        (6, 16, Node::Fill(Fill::Radial), None, vec![]),
        (7, 20, Node::Fill(Fill::VarRadial), None, vec![]),
        (8, 12, Node::Fill(Fill::Sweep), None, vec![]),
        (9, 16, Node::Fill(Fill::VarSweep), None, vec![]),
        (10, 6, un(Un::Glyph), None, vec![]),
        (11, 3, Node::ColrGlyph(2), Some(solid()), vec![]),
    ];
    let unary: [(u8, usize, Un); 20] = [
        (12, 7, Un::Transform),
        (13, 7, Un::VarTransform),
        (14, 8, Un::Translate),
        (15, 12, Un::VarTranslate),
        (16, 8, Un::Scale),
        (17, 12, Un::VarScale),
        (18, 12, Un::ScaleAroundCenter),
        (19, 16, Un::VarScaleAroundCenter),
        (20, 6, Un::ScaleUniform),
        (21, 10, Un::VarScaleUniform),
        (22, 10, Un::ScaleUniformAroundCenter),
        (23, 14, Un::VarScaleUniformAroundCenter),
        (24, 6, Un::Rotate),
        (25, 10, Un::VarRotate),
        (26, 10, Un::RotateAroundCenter),
        (27, 14, Un::VarRotateAroundCenter),
        (28, 8, Un::Skew),
        (29, 12, Un::VarSkew),
        (30, 12, Un::SkewAroundCenter),
        (31, 16, Un::VarSkewAroundCenter),
    ];
    for (f, s, u) in unary {
        v.push((f, s, un(u), None, vec![]));
    }
    v.push((32, 8, Node::Composite(Box::new(solid()), Box::new(solid())), None, vec![]));
    v
}

fn be32(b: &[u8], at: usize) -> usize {
    u32::from_be_bytes([b[at], b[at + 1], b[at + 2], b[at + 3]]) as usize
}
fn be24(b: &[u8], at: usize) -> usize {
    ((b[at] as usize) << 16) | ((b[at + 1] as usize) << 8) | b[at + 2] as usize
}

/// font whose COLR table is exactly `colr`
fn font_with_colr(colr: &[u8]) -> Vec<u8> {
    let head = write_fonts::tables::head::Head { units_per_em: 1000, ..Default::default() };
    let mut b = write_fonts::FontBuilder::new();
    b.add_table(&head).unwrap();
    b.add_raw(font_types::Tag::new(b"COLR"), colr.to_vec());
    b.build()
}

/// paint glyph 1 of a font with that COLR table under both cache answers; reports violations
fn judge_raw(run: &Run, colr: &[u8], case: &Value, acc: &mut Acc) {
    judge_raw_at(run, colr, case, &[], acc);
}

/// as `judge_raw`, at the given location; returns the number of runs that painted Ok
fn judge_raw_at(run: &Run, colr: &[u8], case: &Value, coords: &[f32], acc: &mut Acc) -> u32 {
    let font = font_with_colr(colr);
    let ok_before = acc.ok;
    for cache_ok in [false, true] {
        acc.runs += 1;
        let mut case = case.clone();
        case["cache_ok"] = json!(cache_ok);
        match paint(&font, case["gid"].as_u64().unwrap_or(1) as u32, None, coords, cache_ok, true, 10_000) {
            Ok(p) => {
                run.trans(p.events.len() as u64 + 1);
                match &p.result {
                    Some(Ok(())) => {
                        acc.ok += 1;
                        if let Err(why) = dyck(&p.events) {
                            run.violation(&format!("ColorGlyph::paint Ok with unbalanced callbacks: {why}"), &format!("truncated COLR {case}: {:?}", p.events), case.clone());
                        }
                    }
                    Some(Err(_)) => acc.err += 1,
                    None => {}
                }
                let d = digest_of(&("trunc", case["format"].as_u64(), case["wrapped"].as_bool(), case["mode"].as_str(), case["value"].as_u64(), p.result.as_ref().map(|r| r.is_ok()), &p.events, colr.len()));
                acc.all.insert(d);
                if dyck(&p.events).map(|n| n > 0).unwrap_or(false) {
                    acc.nontrivial.insert(d);
                }
            }
            Err(pi) if pi.message == LIMIT_MSG => run.violation("ColorGlyph::paint emits more callbacks than the paint graph has root paths", &format!("truncated COLR {case}"), case.clone()),
            Err(pi) => run.violation(
                &format!("ColorGlyph::paint panic: {} in {}", pi.kind(), pi.site()),
                &format!("truncated COLR {case} ({} bytes, hex {}): {} at {}:{}", colr.len(), hex(colr), pi.message, pi.file, pi.line),
                case.clone(),
            ),
        }
    }
    (acc.ok - ok_before) as u32
}

/// one (format, wrapped, var_store) table: returns (table bytes, position of the referring offset field,
/// its width (4 or 3), base the offset is relative to, position of the target record)
fn truncation_table(fmt: u8, wrapped: bool, var_store: bool) -> Result<(Vec<u8>, usize, usize, usize, usize, usize), String> {
    let (_, size, node, base2, layers) = format_table().into_iter().find(|e| e.0 == fmt).ok_or("format")?;
    let root = if wrapped { Node::Unary(Un::Translate, Box::new(node)) } else { node };
    let mut bases = vec![root];
    if let Some(b2) = base2 {
        bases.push(b2);
    }
    let g = Graph { bases, layers, clip: false, var_store, v0: None, var_map: None, store_empty: false, clip_var: false, store_shape: None };
    let bytes = write_fonts::dump_table(&build_colr(&g)).map_err(|e| format!("{e:?}"))?;
    let blist = be32(&bytes, 14);
    // record 0 of the BaseGlyphList is glyph 1: glyph id u16, paint offset u32
    let field = blist + 4 + 2;
    let p0 = blist + be32(&bytes, field);
    let (field, width, base, p) = if wrapped {
        // PaintTranslate: format u8, paint Offset24 ...
        (p0 + 1, 3, p0, p0 + be24(&bytes, p0 + 1))
    } else {
        (field, 4, blist, p0)
    };
    if bytes.get(p) != Some(&fmt) {
        return Err(format!("expected a paint of format {fmt} at {p}, found {:?}", bytes.get(p)));
    }
    Ok((bytes, field, width, base, p, size))
}

fn run_truncation(run: &Run, fmt: u8, wrapped: bool, var_store: bool, acc: &mut Acc) -> u64 {
    let (bytes, field, width, base, p, size) = match truncation_table(fmt, wrapped, var_store) {
        Ok(t) => t,
        Err(e) => {
            run.machinery_error(&format!("truncation family, format {fmt}: {e}"));
            return 0;
        }
    };
    let mut n = 0;
    // (a) every prefix
    for len in 0..=bytes.len() {
        let case = json!({"kind":"truncation","format":fmt,"wrapped":wrapped,"var_store":var_store,"mode":"prefix","len":len,"record_at":p,"record_size":size});
        judge_raw(run, &bytes[..len], &case, acc);
        n += 1;
    }
    // (b) the record as the last object, 0..=4 trailing bytes missing
    let mut moved = bytes.clone();
    let copy_at = moved.len();
    let rec: Vec<u8> = bytes[p..(p + size).min(bytes.len())].to_vec();
    moved.extend_from_slice(&rec);
    let rel = copy_at - base;
    if width == 4 {
        moved[field..field + 4].copy_from_slice(&(rel as u32).to_be_bytes());
    } else {
        moved[field..field + 3].copy_from_slice(&(rel as u32).to_be_bytes()[1..]);
    }
    for missing in 0..=4usize.min(size) {
        let case = json!({"kind":"truncation","format":fmt,"wrapped":wrapped,"var_store":var_store,"mode":"moved","missing":missing,"record_size":size});
        judge_raw(run, &moved[..moved.len() - missing], &case, acc);
        n += 1;
    }
    n
}

// ---------------------------------------------------------------------------
// family R: rarely used / reserved values of every format, flag and enum byte the paint code
// dispatches on. A table compiled by write-fonts is patched at one byte with all 256 values:
//  R1 the format byte of the paint record (each of the 32 formats, rooted directly and below a
//     PaintTranslate): every record is re-read as every other format and as unknown formats;
//  R2 PaintComposite.compositeMode; R3 ColorLine.extend of the six gradient formats;
//  R4 ClipBox.format; R5 DeltaSetIndexMap.format and .entryFormat (reserved bits, every entry size /
//  bit count) under a variable paint; R6 the low byte of ItemVariationStore.format and of
//  ItemVariationData.wordDeltaCount (high byte: LONG_WORDS flag) — R5/R6 painted at [] and [0.5].
// Oracle: no panic, bounded callbacks, Ok only with a well-nested stream; R2/R3/R4: every value
// still paints Ok (an unknown enum value is data for the client, not a structural error).
// ---------------------------------------------------------------------------

/// the structural fields of a paint record of format `f` (position relative to the record start, width
/// in bytes, Some(base) when it is an offset relative to the record start)
fn record_fields(f: u8, size: usize) -> Vec<(&'static str, usize, usize, bool)> {
    let mut v = vec![];
    match f {
        1 => {
            v.push(("PaintColrLayers.numLayers", 1, 1, false));
            v.push(("PaintColrLayers.firstLayerIndex", 2, 4, false));
        }
        2 | 3 => v.push(("PaintSolid.paletteIndex", 1, 2, false)),
        4..=9 => v.push(("gradient.colorLineOffset", 1, 3, true)),
        10 => {
            v.push(("PaintGlyph.paintOffset", 1, 3, true));
            v.push(("PaintGlyph.glyphID", 4, 2, false));
        }
        11 => v.push(("PaintColrGlyph.glyphID", 1, 2, false)),
        12 | 13 => {
            v.push(("PaintTransform.paintOffset", 1, 3, true));
            v.push(("PaintTransform.transformOffset", 4, 3, true));
        }
        14..=31 => v.push(("transform paint.paintOffset", 1, 3, true)),
        _ => {
            v.push(("PaintComposite.sourcePaintOffset", 1, 3, true));
            v.push(("PaintComposite.backdropPaintOffset", 5, 3, true));
        }
    }
    // variable formats other than VarTransform end with varIndexBase
    if f % 2 == 1 && f != 1 && f != 11 && f != 13 {
        v.push(("varIndexBase", size - 4, 4, false));
    }
    v
}

/// boundary values for a field of `width` bytes holding `orig`; `target_len`: for an offset, the
/// value that would point exactly at the end of the table
fn field_values(width: usize, orig: u64, target_len: Option<u64>) -> Vec<u64> {
    let max = if width >= 8 { u64::MAX } else { (1u64 << (8 * width)) - 1 };
    if width == 1 {
        return (0..=255).collect();
    }
    let mut v = vec![0, 1, 2, orig.saturating_sub(1), orig, orig + 1, orig + 2, max >> 1, (max >> 1) + 1, max - 1, max];
    if let Some(t) = target_len {
        v.extend([t.saturating_sub(2), t.saturating_sub(1), t, t + 1]);
    }
    v.retain(|x| *x <= max);
    v.sort();
    v.dedup();
    v
}

fn read_be(b: &[u8], pos: usize, width: usize) -> u64 {
    b[pos..pos + width].iter().fold(0u64, |a, x| (a << 8) | *x as u64)
}

struct RareJob {
    what: String,
    table: Vec<u8>,
    pos: usize,
    width: usize,
    /// for offsets: the position the offset is relative to
    offset_base: Option<usize>,
    locs: Vec<Vec<f32>>,
    must_ok: bool,
}

fn family_rare_values(run: &Run) {
    let mut jobs: Vec<RareJob> = vec![];
    let formats = format_table();
    let locs_var: Vec<Vec<f32>> = vec![vec![], vec![0.5]];
    for (f, size, node, _, _) in &formats {
        for wrapped in [false, true] {
            let var = uses_var(node);
            let Ok((bytes, field, width, base, p, _)) = truncation_table(*f, wrapped, var) else {
                run.machinery_error(&format!("family R: no table for format {f}"));
                continue;
            };
            let locs: Vec<Vec<f32>> = if var { locs_var.clone() } else { vec![vec![]] };
            let tag = format!("format {f}{}", if wrapped { " below PaintTranslate" } else { "" });
            jobs.push(RareJob { what: format!("R1 paint format byte ({tag})"), table: bytes.clone(), pos: p, width: 1, offset_base: None, locs: locs.clone(), must_ok: false });
            if *f == 32 {
                jobs.push(RareJob { what: format!("R2 composite mode ({tag})"), table: bytes.clone(), pos: p + 4, width: 1, offset_base: None, locs: locs.clone(), must_ok: true });
            }
            if (4..=9).contains(f) {
                let line = p + be24(&bytes, p + 1);
                jobs.push(RareJob { what: format!("R3 colour line extend ({tag})"), table: bytes.clone(), pos: line, width: 1, offset_base: None, locs: locs.clone(), must_ok: true });
                jobs.push(RareJob { what: format!("R8 colour line numStops ({tag})"), table: bytes.clone(), pos: line + 1, width: 2, offset_base: None, locs: locs.clone(), must_ok: false });
            }
            if !wrapped {
                for (name, rel, w, is_off) in record_fields(*f, *size) {
                    jobs.push(RareJob { what: format!("R8 {name} (format {f})"), table: bytes.clone(), pos: p + rel, width: w, offset_base: is_off.then_some(p), locs: locs.clone(), must_ok: false });
                }
                if *f == 13 {
                    let aff = p + be24(&bytes, p + 4);
                    jobs.push(RareJob { what: "R8 VarAffine2x3.varIndexBase".into(), table: bytes.clone(), pos: aff + 24, width: 4, offset_base: None, locs: locs.clone(), must_ok: false });
                }
                // the offset that refers to the record (BaseGlyphPaint.paintOffset)
                jobs.push(RareJob { what: format!("R8 BaseGlyphPaint.paintOffset (format {f})"), table: bytes.clone(), pos: field, width, offset_base: Some(base), locs: locs.clone(), must_ok: false });
            }
        }
    }
    // a table with every optional part: variable translate over a variable gradient, below a variable
    // clip box, VarIndexMap with 12 two-byte entries, a normal store; and one with a layer list
    let rich = Graph { bases: vec![Node::Unary(Un::VarTranslate, Box::new(Node::Fill(Fill::VarLinear))), Node::ColrLayers(0, 2)], layers: vec![Node::Fill(Fill::Solid), Node::Fill(Fill::VarSolid)], clip: true, var_store: true, v0: Some((0, 2, 2)), var_map: Some((12, 2, 8)), store_empty: false, clip_var: true, store_shape: None };
    match write_fonts::dump_table(&build_colr(&rich)) {
        Ok(bytes) => {
            let blist = be32(&bytes, 14);
            let llist = be32(&bytes, 18);
            let clip_list = be32(&bytes, 22);
            let clip_box = clip_list + be24(&bytes, clip_list + 5 + 4);
            let map = be32(&bytes, 26);
            let store = be32(&bytes, 30);
            let regions = store + be32(&bytes, store + 2);
            let ivd = store + be32(&bytes, store + 8);
            let mut add = |what: &str, pos: usize, width: usize, offset_base: Option<usize>, must_ok: bool| {
                jobs.push(RareJob { what: what.to_string(), table: bytes.clone(), pos, width, offset_base, locs: locs_var.clone(), must_ok });
            };
            add("R7 COLR.version (high byte)", 0, 1, None, false);
            add("R7 COLR.version (low byte)", 1, 1, None, false);
            add("R4 ClipBox.format", clip_box, 1, None, true);
            add("R4 ClipList.format", clip_list, 1, None, true);
            add("R5 DeltaSetIndexMap.format", map, 1, None, true);
            add("R5 DeltaSetIndexMap.entryFormat", map + 1, 1, None, true);
            add("R6 ItemVariationStore.format (low byte)", store + 1, 1, None, true);
            add("R6 ItemVariationData.wordDeltaCount (high byte, LONG_WORDS)", ivd + 2, 1, None, true);
            add("R6 ItemVariationData.wordDeltaCount (low byte)", ivd + 3, 1, None, true);
            add("R9 COLR.numBaseGlyphRecords", 2, 2, None, false);
            add("R9 COLR.baseGlyphRecordsOffset", 4, 4, Some(0), false);
            add("R9 COLR.layerRecordsOffset", 8, 4, Some(0), false);
            add("R9 COLR.numLayerRecords", 12, 2, None, false);
            add("R9 COLR.baseGlyphListOffset", 14, 4, Some(0), false);
            add("R9 COLR.layerListOffset", 18, 4, Some(0), false);
            add("R9 COLR.clipListOffset", 22, 4, Some(0), false);
            add("R9 COLR.varIndexMapOffset", 26, 4, Some(0), false);
            add("R9 COLR.itemVariationStoreOffset", 30, 4, Some(0), false);
            add("R9 BaseGlyphList.numBaseGlyphPaintRecords", blist, 4, None, false);
            add("R9 BaseGlyphPaint[0].glyphID", blist + 4, 2, None, false);
            add("R9 BaseGlyphPaint[1].glyphID", blist + 10, 2, None, false);
            add("R9 BaseGlyphPaint[1].paintOffset", blist + 12, 4, Some(blist), false);
            add("R9 LayerList.numLayers", llist, 4, None, false);
            add("R9 LayerList.paintOffsets[0]", llist + 4, 4, Some(llist), false);
            add("R9 LayerList.paintOffsets[1]", llist + 8, 4, Some(llist), false);
            add("R9 ClipList.numClips", clip_list + 1, 4, None, false);
            add("R9 Clip.startGlyphID", clip_list + 5, 2, None, false);
            add("R9 Clip.endGlyphID", clip_list + 7, 2, None, false);
            add("R9 Clip.clipBoxOffset", clip_list + 9, 3, Some(clip_list), false);
            add("R9 ClipBoxFormat2.varIndexBase", clip_box + 9, 4, None, true);
            add("R9 DeltaSetIndexMap.mapCount", map + 2, 2, None, true);
            add("R9 ItemVariationStore.variationRegionListOffset", store + 2, 4, Some(store), true);
            add("R9 ItemVariationStore.itemVariationDataCount", store + 6, 2, None, true);
            add("R9 ItemVariationStore.itemVariationDataOffsets[0]", store + 8, 4, Some(store), true);
            add("R9 VariationRegionList.axisCount", regions, 2, None, true);
            add("R9 VariationRegionList.regionCount", regions + 2, 2, None, true);
            add("R9 ItemVariationData.itemCount", ivd, 2, None, true);
            add("R9 ItemVariationData.regionIndexCount", ivd + 4, 2, None, true);
            add("R9 ItemVariationData.regionIndexes[0]", ivd + 6, 2, None, true);
        }
        Err(e) => run.machinery_error(&format!("family R: {e:?}")),
    }
    run.bound(
        "R.rare_values",
        json!({"one_byte_fields": "all 256 values", "wider_fields": "0, 1, 2, orig-1..orig+2, half range, half range + 1, max-1, max; offsets also the values that point 2 and 1 bytes before, exactly at, and 1 byte past the end of the table",
               "patched_fields": jobs.iter().map(|j| j.what.clone()).collect::<Vec<_>>(), "cache_answers": [false, true], "locations_for_variable_tables": [[], [0.5]],
               "glyphs_painted": "glyph 1 (and glyph 2 of the table with every optional part)"}),
    );
    let tables = AtomicU64::new(0);
    jobs.par_iter().for_each(|j| {
        let mut acc = Acc::new();
        let orig = read_be(&j.table, j.pos, j.width);
        let target_len = j.offset_base.map(|b| (j.table.len() - b) as u64);
        for v in field_values(j.width, orig, target_len) {
            let mut b = j.table.clone();
            b[j.pos..j.pos + j.width].copy_from_slice(&v.to_be_bytes()[8 - j.width..]);
            tables.fetch_add(1, Ordering::Relaxed);
            for loc in &j.locs {
                let case = json!({"kind":"rare","what":j.what,"mode":j.what,"value":v,"position":j.pos,"width":j.width,"coords":loc,"must_ok":j.must_ok,"gid":1,"colr_hex":hex(&b)});
                if j.what.starts_with("R9") {
                    // the table with every optional part: glyph 2 is the PaintColrLayers root
                    let mut c2 = case.clone();
                    c2["gid"] = json!(2);
                    c2["mode"] = json!(format!("{} gid 2", j.what));
                    judge_raw_at(run, &b, &c2, loc, &mut acc);
                }
                let ok = judge_raw_at(run, &b, &case, loc, &mut acc);
                if j.must_ok && ok != 2 {
                    run.violation(
                        &format!("ColorGlyph::paint fails on a value that is data, not structure: {}", j.what),
                        &format!("{} = {v} at COLR byte {}, location {loc:?}: {ok} of 2 paint runs returned Ok", j.what, j.pos),
                        case,
                    );
                }
            }
        }
        flush(run, acc, "R");
    });
    run.count("R.patched_fields", jobs.len() as u64);
    run.count("R.patched_tables", tables.load(Ordering::Relaxed));
}

fn family_truncation(run: &Run) {
    let formats = format_table();
    run.bound(
        "L.truncation",
        json!({"paint_formats": formats.iter().map(|f| f.0).collect::<Vec<_>>(), "record_sizes": formats.iter().map(|f| f.1).collect::<Vec<_>>(), "rooted": ["directly", "below PaintTranslate"],
               "variation_store": "absent; for variable formats also present", "a": "every prefix length 0..=len of the compiled table", "b": "record copied to the end of the table, referring offset moved, last 0..=4 bytes missing",
               "cache_answers": [false, true]}),
    );
    let mut jobs = vec![];
    for (f, _, node, _, _) in &formats {
        let var = uses_var(node);
        for wrapped in [false, true] {
            jobs.push((*f, wrapped, false));
            if var {
                jobs.push((*f, wrapped, true));
            }
        }
    }
    let total = AtomicU64::new(0);
    jobs.par_iter().for_each(|(f, wrapped, vs)| {
        let mut acc = Acc::new();
        let n = run_truncation(run, *f, *wrapped, *vs, &mut acc);
        total.fetch_add(n, Ordering::Relaxed);
        flush(run, acc, "L");
    });
    run.count("L.tables", jobs.len() as u64);
    run.count("L.truncated_tables", total.load(Ordering::Relaxed));
}


/// M: variable paints x VarIndexMap shapes x store shapes. Every variable paint kind (10 transform kinds,
/// 4 fills with VarColorStops) as root and below a PaintGlyph, and a variable ClipBox over a plain fill,
/// with VarIndexMap {absent, mapCount 0, 1, 2 (short: the index clamps to the last entry), 12} x entry
/// sizes 1..=4 bytes x inner bit counts {1, 4, 8, 16} (where they fit) x store {absent, no regions,
/// normal}, at the default and a non-default location, both client answers, both fill_glyph styles.
fn family_var_index_map(run: &Run) {
    let solid = || Node::Fill(Fill::Solid);
    let mut roots: Vec<(Node, bool)> = vec![]; // (root, variable clip box)
    for u in UNARIES.iter().filter(|u| format!("{u:?}").starts_with("Var")) {
        roots.push((Node::Unary(*u, Box::new(solid())), false));
        roots.push((Node::Unary(Un::Glyph, Box::new(Node::Unary(*u, Box::new(solid())))), false));
    }
    for f in [Fill::VarSolid, Fill::VarLinear, Fill::VarRadial, Fill::VarSweep] {
        roots.push((Node::Fill(f), false));
        roots.push((Node::Unary(Un::Glyph, Box::new(Node::Fill(f))), false));
    }
    roots.push((solid(), true));
    roots.push((Node::Unary(Un::VarTranslate, Box::new(solid())), true));
    let mut maps: Vec<Option<(u16, u8, u8)>> = vec![None];
    for count in [0u16, 1, 2, 12] {
        for entry_size in 1..=4u8 {
            for inner_bits in [1u8, 4, 8, 16] {
                if inner_bits as u32 <= entry_size as u32 * 8 {
                    maps.push(Some((count, entry_size, inner_bits)));
                }
            }
        }
    }
    // (var_store, store_empty)
    let stores = [(false, false), (true, true), (true, false)];
    run.bound(
        "M.var_index_map",
        json!({"roots": roots.len(), "variable_kinds": "10 variable transform kinds and 4 variable fills (VarColorStop), each as root and below PaintGlyph; variable ClipBox (format 2) over Solid and over VarTranslate",
               "var_index_map": {"absent": true, "map_counts": [0, 1, 2, 12], "entry_sizes": [1, 2, 3, 4], "inner_bit_counts": [1, 4, 8, 16], "shapes": maps.len()},
               "store": ["absent", "present with no regions", "one region, 12 rows"], "locations": [[], [0.5]]}),
    );
    let coords: Vec<Vec<f32>> = vec![vec![], vec![0.5]];
    let jobs: Vec<(usize, usize)> = (0..roots.len()).flat_map(|r| (0..maps.len()).map(move |mi| (r, mi))).collect();
    let graphs = AtomicU64::new(0);
    jobs.par_iter().for_each(|(r, mi)| {
        let mut acc = Acc::new();
        for (var_store, store_empty) in stores {
            let (root, clip_var) = &roots[*r];
            let g = Graph { bases: vec![root.clone()], layers: vec![], clip: *clip_var, var_store, v0: None, var_map: maps[*mi], store_empty, clip_var: *clip_var, store_shape: None };
            graphs.fetch_add(1, Ordering::Relaxed);
            judge_all_modes(run, &g, &coords, &mut acc);
        }
        flush(run, acc, "M");
    });
    // hand-shaped stores: region list axis count 0 / 1 / 2 (the location has one coordinate) x 0-2 regions x
    // region indices in and out of range, with and without a VarIndexMap
    let mut shapes = vec![];
    for axis_count in 0..=2u8 {
        for region_count in 0..=2u8 {
            for pattern in 0..4u8 {
                shapes.push((axis_count, region_count, pattern));
            }
        }
    }
    let jobs2: Vec<(usize, usize)> = (0..roots.len()).flat_map(|r| (0..shapes.len()).map(move |s| (r, s))).collect();
    jobs2.par_iter().for_each(|(r, si)| {
        let mut acc = Acc::new();
        for var_map in [None, Some((12u16, 1u8, 4u8)), Some((0u16, 2u8, 8u8))] {
            let (root, clip_var) = &roots[*r];
            let g = Graph { bases: vec![root.clone()], layers: vec![], clip: *clip_var, var_store: true, v0: None, var_map, store_empty: false, clip_var: *clip_var, store_shape: Some(shapes[*si]) };
            graphs.fetch_add(1, Ordering::Relaxed);
            judge_all_modes(run, &g, &coords, &mut acc);
        }
        flush(run, acc, "M");
    });
    run.bound("M.store_shapes", json!({"region_list_axis_count": [0, 1, 2], "region_count": [0, 1, 2], "item_variation_data_region_indexes": [[0], [1], [5], [0, 1]], "var_index_map": ["absent", "12 entries", "0 entries"], "location_coordinates": 1}));
    run.count("M.graphs", graphs.load(Ordering::Relaxed));
}

fn family_gradients(run: &Run) {
    let stops = grad_stop_lists().len() as u8;
    let mut specs = vec![];
    for kind in 0..3u8 {
        for geom in 0..grad_geom_count(kind) {
            for st in 0..stops {
                for extend in 0..3u8 {
                    specs.push(GradSpec { kind, geom, stops: st, extend });
                }
            }
        }
    }
    run.bound(
        "H.gradients",
        json!({"linear_points_p0_p1_p2_each_from": GRAD_POINTS, "radial": {"centres": [GRAD_POINTS[0], GRAD_POINTS[3]], "radii": GRAD_RADII}, "sweep_angles_f2dot14": GRAD_ANGLES,
               "stop_offset_lists": grad_stop_lists(), "extend": ["Pad","Repeat","Reflect"], "wrappers": ["root", "PaintGlyph", "PaintTranslate", "PaintGlyph(PaintScale)"], "specs": specs.len()}),
    );
    let coords0: Vec<Vec<f32>> = vec![vec![]];
    specs.par_chunks(64).for_each(|chunk| {
        let mut acc = Acc::new();
        for s in chunk {
            let leaf = Node::Grad(*s);
            for root in [
                leaf.clone(),
                Node::Unary(Un::Glyph, Box::new(leaf.clone())),
                Node::Unary(Un::Translate, Box::new(leaf.clone())),
                Node::Unary(Un::Glyph, Box::new(Node::Unary(Un::Scale, Box::new(leaf.clone())))),
            ] {
                let g = Graph { bases: vec![root], layers: vec![], clip: false, var_store: false, v0: None, var_map: None, store_empty: false, clip_var: false, store_shape: None };
                judge_all_modes(run, &g, &coords0, &mut acc);
            }
        }
        flush(run, acc, "H");
    });
    run.count("H.gradient_specs", specs.len() as u64);
}

/// glyph 1 exists both as a v0 base glyph and as a v1 base glyph paint: `get` must pick one
/// representation and each representation must paint balanced
fn family_mixed(run: &Run) {
    let al = structural_alphabet();
    let trees = trees_up_to(&al, 2);
    let mut graphs = vec![];
    for t in trees[1].iter().chain(trees[2].iter()) {
        for nrec in 0..=2u16 {
            for first in 0..=2u16 {
                for num in 0..=3u16 {
                    for nl in 0..=1usize {
                        graphs.push(Graph { bases: vec![t.clone()], layers: vec![Node::Fill(Fill::Solid); nl], clip: false, var_store: false, v0: Some((first, num, nrec)), var_map: None, store_empty: false, clip_var: false, store_shape: None });
                    }
                }
            }
        }
    }
    run.bound("I.mixed_v0_v1", json!({"v1_trees_max_nodes": 2, "v0_layer_records": "0..=2", "v0_first": "0..=2", "v0_num_layers": "0..=3", "layer_list_len": [0, 1], "fonts": graphs.len()}));
    graphs.par_chunks(256).for_each(|chunk| {
        let mut acc = Acc::new();
        for g in chunk {
            let Ok(Ok(font)) = guard(|| build_font(g)) else {
                run.count("graphs_not_buildable", 1);
                continue;
            };
            for cache_ok in [false, true] {
                let case = json!({"kind":"mixed","graph":g.to_json(),"cache_ok":cache_ok});
                let mut streams = vec![];
                for format in [None, Some(ColorGlyphFormat::ColrV1), Some(ColorGlyphFormat::ColrV0)] {
                    acc.runs += 1;
                    match paint(&font, 1, format, &[], cache_ok, true, 10_000) {
                        Ok(p) => {
                            run.trans(p.events.len() as u64 + 1);
                            if let Some(Ok(())) = &p.result {
                                acc.ok += 1;
                                if let Err(why) = dyck(&p.events) {
                                    run.violation(&format!("ColorGlyph::paint Ok with unbalanced callbacks: {why}"), &format!("mixed v0+v1 font {} format {:?}: {:?}", g.to_json(), format.map(|f| f as u8), p.events), case.clone());
                                }
                            } else if p.result.is_some() {
                                acc.err += 1;
                            }
                            let d = digest_of(&("mixed", g, cache_ok, format.map(|f| f as u8), p.result.as_ref().map(|r| r.is_ok()), &p.events));
                            acc.all.insert(d);
                            if dyck(&p.events).map(|n| n > 0).unwrap_or(false) {
                                acc.nontrivial.insert(d);
                            }
                            streams.push((p.result.map(|r| r.is_ok()), p.events));
                        }
                        Err(pi) => {
                            run.violation(&format!("ColorGlyph::paint panic: {} in {}", pi.kind(), pi.site()), &format!("mixed v0+v1 font {}: {}", g.to_json(), pi.message), case.clone());
                            streams.push((None, vec![]));
                        }
                    }
                }
                // `get` prefers the v1 representation: same outcome as get_with_format(ColrV1)
                // (recorded only: which representation `get` prefers is not part of the statement)
                if streams.len() == 3 && streams[0] != streams[1] {
                    run.count("I.get_differs_from_v1_representation", 1);
                }
            }
        }
        flush(run, acc, "I");
    });
    run.count("I.fonts", graphs.len() as u64);
}

fn family_v0(run: &Run) {
    use font_types::GlyphId16;
    use write_fonts::tables::colr::{BaseGlyph, Colr, Layer};
    let mut acc = Acc::new();
    let mut n = 0u64;
    for nrec in 0..=3u16 {
        for first in 0..=3u16 {
            for num in 0..=4u16 {
                for decompose in [true, false] {
                    let layers: Vec<Layer> = (0..nrec).map(|i| Layer::new(GlyphId16::new(PLAIN_GID + i), i)).collect();
                    let colr = Colr::new(1, Some(vec![BaseGlyph::new(GlyphId16::new(1), first, num)]), Some(layers), nrec);
                    let mut b = write_fonts::FontBuilder::new();
                    b.add_table(&colr).unwrap();
                    let font = b.build();
                    let case = json!({"kind":"v0","layer_records":nrec,"first":first,"num":num,"decompose":decompose});
                    n += 1;
                    acc.runs += 1;
                    match paint(&font, 1, Some(ColorGlyphFormat::ColrV0), &[], false, decompose, 1000) {
                        Ok(p) => {
                            run.trans(p.events.len() as u64 + 1);
                            match p.result {
                                Some(Ok(())) => {
                                    acc.ok += 1;
                                    if let Err(why) = dyck(&p.events) {
                                        run.violation(&format!("ColorGlyph::paint Ok with unbalanced callbacks: {why}"), &format!("COLR v0 {case}: {:?}", p.events), case.clone());
                                    }
                                    if p.events.len() as u64 > 5 * num as u64 + 1 {
                                        run.violation("ColorGlyph::paint emits more callbacks than the paint graph has root paths", &format!("COLR v0 {case}: {} callbacks", p.events.len()), case.clone());
                                    }
                                }
                                Some(Err(_)) => acc.err += 1,
                                None => {}
                            }
                            let d = digest_of(&("v0", nrec, first, num, decompose, &p.events));
                            acc.all.insert(d);
                            if dyck(&p.events).map(|p| p > 0).unwrap_or(false) {
                                acc.nontrivial.insert(d);
                            }
                        }
                        Err(pi) => run.violation(&format!("ColorGlyph::paint panic: {} in {}", pi.kind(), pi.site()), &pi.message, case),
                    }
                }
            }
        }
    }
    run.bound("C.v0", json!({"layer_records": "0..=3", "first_layer_index": "0..=3", "num_layers": "0..=4", "cases": n}));
    flush(run, acc, "C");
}

fn replay_case(run: &Run, case: &Value) {
    match case["kind"].as_str().unwrap_or("") {
        "graph" => {
            let Some(g) = Graph::from_json(&case["graph"]) else {
                println!("replay: cannot parse graph");
                return;
            };
            let coords: Vec<f32> = case["coords"].as_array().map(|a| a.iter().map(|v| v.as_f64().unwrap_or(0.0) as f32).collect()).unwrap_or_default();
            let font = build_font(&g).expect("graph builds");
            let mut acc = Acc::new();
            judge(run, &g, &font, &coords, case["cache_ok"].as_bool().unwrap_or(false), case["decompose_fill_glyph"].as_bool().unwrap_or(true), &mut acc);
            println!("replay: ok={} err={}", acc.ok, acc.err);
        }
        "chain" => {
            let s = &case["spec"];
            let o = chain_case(run, s["chain"].as_str().unwrap_or(""), s["depth"].as_u64().unwrap_or(0) as usize, s["cache_ok"].as_bool().unwrap_or(false), s["decompose"].as_bool().unwrap_or(true), Duration::from_secs(120));
            println!("replay: {o}");
        }
        "glyph_chain_timing" => glyph_chain_timing(run),
        "truncation" => {
            let mut acc = Acc::new();
            let n = run_truncation(run, case["format"].as_u64().unwrap_or(2) as u8, case["wrapped"].as_bool().unwrap_or(false), case["var_store"].as_bool().unwrap_or(false), &mut acc);
            println!("replay: {n} truncated tables of that format painted, ok={} err={}", acc.ok, acc.err);
        }
        "corpus" => {
            let rel = case["font"].as_str().unwrap_or("");
            let gid = case["gid"].as_u64().unwrap_or(0) as u32;
            let bytes = std::fs::read(repo_root().join(rel)).expect("corpus font");
            match paint(&bytes, gid, None, &[], case["cache_ok"].as_bool().unwrap_or(false), case["decompose_fill_glyph"].as_bool().unwrap_or(true), 2_000_000) {
                Ok(p) => {
                    println!("replay: result {:?}, {} callbacks, balanced: {:?}", p.result, p.events.len(), dyck(&p.events));
                    if let (Some(Ok(())), Err(why)) = (&p.result, dyck(&p.events)) {
                        run.violation(&format!("ColorGlyph::paint Ok with unbalanced callbacks: {why}"), &format!("{rel} glyph {gid}"), case.clone());
                    }
                }
                Err(pi) => run.violation(&format!("ColorGlyph::paint panic: {} in {}", pi.kind(), pi.site()), &pi.message, case.clone()),
            }
        }
        "mixed" => println!("replay: re-run the tier for the mixed v0+v1 family (graph: {})", case["graph"]),
        "dev" => {
            let rel = case["font"].as_str().unwrap_or("").to_string();
            let off = case["offset"].as_u64().unwrap_or(0) as usize;
            let val = case["value"].as_u64().unwrap_or(0) as i64;
            let mut st = DevStats::default();
            // re-run exactly that (offset, value): start at the offset, skipping smaller values
            let spec_from = off;
            let _ = val;
            supervise_dev(run, &rel, spec_from, off + 1, Duration::from_secs(120), &mut st);
            println!("replay: {} deviation cases at offset {off}", st.cases);
        }
        "v0" => println!("replay: re-run the tier for the v0 family"),
        "varidx" => varidx::replay_var_case(run, case),
        "rare" => {
            let colr: Vec<u8> = (0..case["colr_hex"].as_str().unwrap_or("").len() / 2).filter_map(|i| u8::from_str_radix(&case["colr_hex"].as_str().unwrap()[2 * i..2 * i + 2], 16).ok()).collect();
            let coords: Vec<f32> = case["coords"].as_array().map(|a| a.iter().map(|v| v.as_f64().unwrap_or(0.0) as f32).collect()).unwrap_or_default();
            let mut acc = Acc::new();
            let ok = judge_raw_at(run, &colr, case, &coords, &mut acc);
            let what = case["what"].as_str().unwrap_or("");
            if case["must_ok"].as_bool().unwrap_or(false) && ok != 2 {
                run.violation(&format!("ColorGlyph::paint fails on a value that is data, not structure: {what}"), &format!("{ok} of 2 paint runs returned Ok"), case.clone());
            }
            println!("replay: {ok} of 2 paint runs Ok");
        }
        "lookup" => {
            varidx::family_lookups(run);
            println!("replay: family P re-run");
        }
        "mode_client" => {
            varidx::family_mode_client(run);
            println!("replay: family T re-run");
        }
        "stops" => {
            varidx::family_stop_counts(run);
            println!("replay: family S re-run");
        }
        k => println!("replay: unknown kind {k}"),
    }
}
