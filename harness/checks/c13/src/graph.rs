//! Abstract COLR paint graphs, their realisation as a real COLR v1 table inside a font built by
//! `FontBuilder`, and the reference analysis (cycle reachability, tree-unfolding size).

use font_types::{F2Dot14, FWord, Fixed, GlyphId16};
use serde_json::{json, Value};
use write_fonts::tables::colr::*;
use write_fonts::tables::variations::ivs_builder::VariationStoreBuilder;
use write_fonts::tables::variations::{RegionAxisCoordinates, VariationRegion};
use write_fonts::FontBuilder;

/// leaf fills
#[derive(Clone, Copy, Debug, PartialEq, Eq, Hash)]
pub enum Fill {
    Solid,
    VarSolid,
    Linear,
    VarLinear,
    Radial,
    VarRadial,
    Sweep,
    VarSweep,
    /// linear gradient whose stops coincide (early-return paths in the traversal)
    LinearDegenerate,
    /// sweep gradient with no stops at all
    SweepEmpty,
}
pub const FILLS: [Fill; 10] = [
    Fill::Solid,
    Fill::VarSolid,
    Fill::Linear,
    Fill::VarLinear,
    Fill::Radial,
    Fill::VarRadial,
    Fill::Sweep,
    Fill::VarSweep,
    Fill::LinearDegenerate,
    Fill::SweepEmpty,
];

/// unary paints (one child)
#[derive(Clone, Copy, Debug, PartialEq, Eq, Hash)]
pub enum Un {
    Translate,
    VarTranslate,
    Transform,
    VarTransform,
    Scale,
    VarScale,
    ScaleAroundCenter,
    VarScaleAroundCenter,
    ScaleUniform,
    VarScaleUniform,
    ScaleUniformAroundCenter,
    VarScaleUniformAroundCenter,
    Rotate,
    VarRotate,
    RotateAroundCenter,
    VarRotateAroundCenter,
    Skew,
    VarSkew,
    SkewAroundCenter,
    VarSkewAroundCenter,
    Glyph,
}
pub const UNARIES: [Un; 21] = [
    Un::Translate,
    Un::VarTranslate,
    Un::Transform,
    Un::VarTransform,
    Un::Scale,
    Un::VarScale,
    Un::ScaleAroundCenter,
    Un::VarScaleAroundCenter,
    Un::ScaleUniform,
    Un::VarScaleUniform,
    Un::ScaleUniformAroundCenter,
    Un::VarScaleUniformAroundCenter,
    Un::Rotate,
    Un::VarRotate,
    Un::RotateAroundCenter,
    Un::VarRotateAroundCenter,
    Un::Skew,
    Un::VarSkew,
    Un::SkewAroundCenter,
    Un::VarSkewAroundCenter,
    Un::Glyph,
];

/// kind 0 linear / 1 radial / 2 sweep; indices into the geometry, stop-list and extend alphabets
#[derive(Clone, Copy, Debug, PartialEq, Eq, Hash)]
pub struct GradSpec {
    pub kind: u8,
    pub geom: u8,
    pub stops: u8,
    pub extend: u8,
}

pub const GRAD_POINTS: [(i16, i16); 4] = [(0, 0), (100, 0), (0, 100), (100, 100)];
pub const GRAD_RADII: [u16; 3] = [0, 10, 100];
/// F2Dot14 angles: -1 = 0 deg, 0 = 180 deg, 1 = 360 deg
pub const GRAD_ANGLES: [f32; 6] = [-1.0, -0.5, 0.0, 0.5, 1.0, 1.99];
/// stop offsets: empty, single, ordered, unordered, duplicate, interior duplicates, outside [0,1], all equal
pub fn grad_stop_lists() -> Vec<Vec<f32>> {
    vec![vec![], vec![0.5], vec![0.0, 1.0], vec![1.0, 0.0], vec![0.5, 0.5], vec![0.0, 0.5, 0.5, 1.0], vec![-1.0, 1.99], vec![0.3, 0.3, 0.3], vec![1.0, 0.25, 0.75, 0.0]]
}
pub fn grad_geom_count(kind: u8) -> u8 {
    match kind {
        0 => 64,     // p0, p1, p2 over the four points
        1 => 36,     // c0, c1 over two points x radii^2
        _ => 36,     // start, end angle
    }
}

#[derive(Clone, Debug, PartialEq, Eq, Hash)]
pub enum Node {
    Fill(Fill),
    /// gradient with explicit (possibly degenerate) geometry / colour line, see `grad_paint`
    Grad(GradSpec),
    /// PaintColrGlyph(glyph id)
    ColrGlyph(u16),
    /// PaintColrLayers(first, count)
    ColrLayers(u32, u8),
    Unary(Un, Box<Node>),
    /// transform paint of kind `un` with an explicit parameter set, see `xf_paint`:
    /// 0 = identity parameters, 1 / 2 = a pair whose product is exactly the identity for the
    /// translate / matrix / scale kinds (ordinary opposite values for rotate and skew)
    Xf(Un, u8, Box<Node>),
    /// (source, backdrop)
    Composite(Box<Node>, Box<Node>),
}

impl Node {
    pub fn size(&self) -> usize {
        match self {
            Node::Unary(_, c) | Node::Xf(_, _, c) => 1 + c.size(),
            Node::Composite(a, b) => 1 + a.size() + b.size(),
            _ => 1,
        }
    }
    pub fn to_json(&self) -> Value {
        match self {
            Node::Fill(f) => json!(["fill", format!("{f:?}")]),
            Node::Grad(s) => json!(["grad", s.kind, s.geom, s.stops, s.extend]),
            Node::ColrGlyph(g) => json!(["colr_glyph", g]),
            Node::ColrLayers(f, c) => json!(["colr_layers", f, c]),
            Node::Unary(u, c) => json!(["unary", format!("{u:?}"), c.to_json()]),
            Node::Xf(u, p, c) => json!(["xf", format!("{u:?}"), p, c.to_json()]),
            Node::Composite(s, b) => json!(["composite", s.to_json(), b.to_json()]),
        }
    }
    pub fn from_json(v: &Value) -> Option<Node> {
        let tag = v[0].as_str()?;
        Some(match tag {
            "fill" => Node::Fill(*FILLS.iter().find(|f| format!("{f:?}") == v[1].as_str().unwrap_or(""))?),
            "grad" => Node::Grad(GradSpec { kind: v[1].as_u64()? as u8, geom: v[2].as_u64()? as u8, stops: v[3].as_u64()? as u8, extend: v[4].as_u64()? as u8 }),
            "colr_glyph" => Node::ColrGlyph(v[1].as_u64()? as u16),
            "colr_layers" => Node::ColrLayers(v[1].as_u64()? as u32, v[2].as_u64()? as u8),
            "unary" => Node::Unary(
                *UNARIES.iter().find(|u| format!("{u:?}") == v[1].as_str().unwrap_or(""))?,
                Box::new(Node::from_json(&v[2])?),
            ),
            "xf" => Node::Xf(*UNARIES.iter().find(|u| format!("{u:?}") == v[1].as_str().unwrap_or(""))?, v[2].as_u64()? as u8, Box::new(Node::from_json(&v[3])?)),
            "composite" => Node::Composite(Box::new(Node::from_json(&v[1])?), Box::new(Node::from_json(&v[2])?)),
            _ => return None,
        })
    }
}

/// glyph ids: 0 .notdef, 1.. base colour glyphs, `PLAIN_GID` an ordinary glyph used by PaintGlyph
pub const PLAIN_GID: u16 = 9;

#[derive(Clone, Debug, PartialEq, Eq, Hash)]
pub struct Graph {
    /// BaseGlyphPaint records: glyph id i+1 has paint bases[i]
    pub bases: Vec<Node>,
    pub layers: Vec<Node>,
    /// ClipList with a box for every base glyph
    pub clip: bool,
    /// include an ItemVariationStore (one axis, one region, a few delta sets)
    pub var_store: bool,
    /// additionally a COLR v0 BaseGlyph record for glyph 1: (first layer, layer count, layer records)
    pub v0: Option<(u16, u16, u16)>,
    /// VarIndexMap (DeltaSetIndexMap format 0): (map count, entry size in bytes 1..=4, inner bit count 1..=16);
    /// entry i addresses (outer 0, inner i mod 2^inner_bits)
    pub var_map: Option<(u16, u8, u8)>,
    /// with `var_store`: the ItemVariationStore has no regions (rows of zero columns)
    pub store_empty: bool,
    /// with `clip`: the clip box is a variable one (ClipBox format 2, varIndexBase 0)
    pub clip_var: bool,
    /// with `var_store`: a hand-shaped ItemVariationStore instead: (region list axis count, region
    /// count, region-index pattern of the single ItemVariationData: 0 = [0], 1 = [1], 2 = [5], 3 = [0, 1])
    pub store_shape: Option<(u8, u8, u8)>,
}

impl Graph {
    pub fn to_json(&self) -> Value {
        json!({
            "bases": self.bases.iter().map(|n| n.to_json()).collect::<Vec<_>>(),
            "layers": self.layers.iter().map(|n| n.to_json()).collect::<Vec<_>>(),
            "clip": self.clip,
            "var_store": self.var_store,
            "v0": self.v0.map(|(a, b, c)| vec![a, b, c]),
            "var_map": self.var_map.map(|(a, b, c)| vec![a as u32, b as u32, c as u32]),
            "store_empty": self.store_empty,
            "clip_var": self.clip_var,
            "store_shape": self.store_shape.map(|(a, b, c)| vec![a, b, c]),
        })
    }
    pub fn from_json(v: &Value) -> Option<Graph> {
        Some(Graph {
            bases: v["bases"].as_array()?.iter().map(Node::from_json).collect::<Option<Vec<_>>>()?,
            layers: v["layers"].as_array()?.iter().map(Node::from_json).collect::<Option<Vec<_>>>()?,
            clip: v["clip"].as_bool().unwrap_or(false),
            var_store: v["var_store"].as_bool().unwrap_or(false),
            v0: v["v0"].as_array().map(|a| (a[0].as_u64().unwrap_or(0) as u16, a[1].as_u64().unwrap_or(0) as u16, a[2].as_u64().unwrap_or(0) as u16)),
            var_map: v["var_map"].as_array().map(|a| (a[0].as_u64().unwrap_or(0) as u16, a[1].as_u64().unwrap_or(1) as u8, a[2].as_u64().unwrap_or(1) as u8)),
            store_empty: v["store_empty"].as_bool().unwrap_or(false),
            clip_var: v["clip_var"].as_bool().unwrap_or(false),
            store_shape: v["store_shape"].as_array().map(|a| (a[0].as_u64().unwrap_or(0) as u8, a[1].as_u64().unwrap_or(0) as u8, a[2].as_u64().unwrap_or(0) as u8)),
        })
    }
    pub fn nodes(&self) -> usize {
        self.bases.iter().chain(self.layers.iter()).map(|n| n.size()).sum()
    }
}

// ---------------------------------------------------------------------------
// realisation
// ---------------------------------------------------------------------------

fn f2(v: f32) -> F2Dot14 {
    F2Dot14::from_f32(v)
}
fn fw(v: i16) -> FWord {
    FWord::new(v)
}

fn color_line(n: usize, same_offset: bool) -> ColorLine {
    let stops: Vec<ColorStop> = (0..n)
        .map(|i| ColorStop::new(f2(if same_offset { 0.5 } else { i as f32 / (n.max(2) - 1) as f32 }), i as u16, f2(1.0)))
        .collect();
    ColorLine::new(Extend::Repeat, n as u16, stops)
}
fn var_color_line(n: usize) -> VarColorLine {
    let stops: Vec<VarColorStop> = (0..n)
        .map(|i| VarColorStop::new(f2(i as f32 / (n.max(2) - 1) as f32), i as u16, f2(1.0), (i % 3) as u32))
        .collect();
    VarColorLine::new(Extend::Pad, n as u16, stops)
}

fn fill_paint(f: Fill) -> Paint {
    match f {
        Fill::Solid => Paint::solid(1, f2(1.0)),
        Fill::VarSolid => Paint::var_solid(1, f2(0.5), 0),
        Fill::Linear => Paint::linear_gradient(color_line(3, false), fw(0), fw(0), fw(100), fw(0), fw(0), fw(100)),
        Fill::VarLinear => Paint::var_linear_gradient(var_color_line(3), fw(0), fw(0), fw(100), fw(0), fw(0), fw(100), 1),
        Fill::Radial => Paint::radial_gradient(color_line(2, false), fw(0), fw(0), font_types::UfWord::new(10), fw(50), fw(50), font_types::UfWord::new(100)),
        Fill::VarRadial => Paint::var_radial_gradient(var_color_line(2), fw(0), fw(0), font_types::UfWord::new(10), fw(50), fw(50), font_types::UfWord::new(100), 0),
        Fill::Sweep => Paint::sweep_gradient(color_line(3, false), fw(10), fw(10), f2(0.0), f2(1.0)),
        Fill::VarSweep => Paint::var_sweep_gradient(var_color_line(3), fw(10), fw(10), f2(0.0), f2(1.0), 2),
        Fill::LinearDegenerate => Paint::linear_gradient(color_line(2, true), fw(0), fw(0), fw(100), fw(0), fw(0), fw(100)),
        Fill::SweepEmpty => Paint::sweep_gradient(color_line(0, false), fw(10), fw(10), f2(0.25), f2(0.25)),
    }
}

fn unary_paint(u: Un, c: Paint) -> Paint {
    let fx = |v: f64| Fixed::from_f64(v);
    match u {
        Un::Translate => Paint::translate(c, fw(10), fw(-10)),
        Un::VarTranslate => Paint::var_translate(c, fw(10), fw(-10), 0),
        Un::Transform => Paint::transform(c, Affine2x3::new(fx(1.0), fx(0.0), fx(0.5), fx(1.0), fx(3.0), fx(4.0))),
        Un::VarTransform => Paint::var_transform(c, VarAffine2x3::new(fx(1.0), fx(0.0), fx(0.5), fx(1.0), fx(3.0), fx(4.0), 0)),
        Un::Scale => Paint::scale(c, f2(1.5), f2(0.5)),
        Un::VarScale => Paint::var_scale(c, f2(1.5), f2(0.5), 1),
        Un::ScaleAroundCenter => Paint::scale_around_center(c, f2(1.5), f2(0.5), fw(5), fw(6)),
        Un::VarScaleAroundCenter => Paint::var_scale_around_center(c, f2(1.5), f2(0.5), fw(5), fw(6), 0),
        Un::ScaleUniform => Paint::scale_uniform(c, f2(0.75)),
        Un::VarScaleUniform => Paint::var_scale_uniform(c, f2(0.75), 2),
        Un::ScaleUniformAroundCenter => Paint::scale_uniform_around_center(c, f2(0.75), fw(5), fw(6)),
        Un::VarScaleUniformAroundCenter => Paint::var_scale_uniform_around_center(c, f2(0.75), fw(5), fw(6), 0),
        Un::Rotate => Paint::rotate(c, f2(0.25)),
        Un::VarRotate => Paint::var_rotate(c, f2(0.25), 1),
        Un::RotateAroundCenter => Paint::rotate_around_center(c, f2(0.25), fw(5), fw(6)),
        Un::VarRotateAroundCenter => Paint::var_rotate_around_center(c, f2(0.25), fw(5), fw(6), 0),
        Un::Skew => Paint::skew(c, f2(0.1), f2(-0.1)),
        Un::VarSkew => Paint::var_skew(c, f2(0.1), f2(-0.1), 0),
        Un::SkewAroundCenter => Paint::skew_around_center(c, f2(0.1), f2(-0.1), fw(5), fw(6)),
        Un::VarSkewAroundCenter => Paint::var_skew_around_center(c, f2(0.1), f2(-0.1), fw(5), fw(6), 2),
        Un::Glyph => Paint::glyph(c, GlyphId16::new(PLAIN_GID)),
    }
}

fn grad_paint(s: &GradSpec) -> Paint {
    let lists = grad_stop_lists();
    let offs = &lists[s.stops as usize % lists.len()];
    let extend = [Extend::Pad, Extend::Repeat, Extend::Reflect][s.extend as usize % 3];
    let line = ColorLine::new(extend, offs.len() as u16, offs.iter().enumerate().map(|(i, o)| ColorStop::new(f2(*o), i as u16, f2(1.0))).collect());
    let g = s.geom as usize;
    match s.kind {
        0 => {
            let (p0, p1, p2) = (GRAD_POINTS[g % 4], GRAD_POINTS[(g / 4) % 4], GRAD_POINTS[(g / 16) % 4]);
            Paint::linear_gradient(line, fw(p0.0), fw(p0.1), fw(p1.0), fw(p1.1), fw(p2.0), fw(p2.1))
        }
        1 => {
            let (c0, c1) = (GRAD_POINTS[(g % 2) * 3], GRAD_POINTS[((g / 2) % 2) * 3]);
            let (r0, r1) = (GRAD_RADII[(g / 4) % 3], GRAD_RADII[(g / 12) % 3]);
            Paint::radial_gradient(line, fw(c0.0), fw(c0.1), font_types::UfWord::new(r0), fw(c1.0), fw(c1.1), font_types::UfWord::new(r1))
        }
        _ => Paint::sweep_gradient(line, fw(10), fw(10), f2(GRAD_ANGLES[g % 6]), f2(GRAD_ANGLES[(g / 6) % 6])),
    }
}

/// true if the tree contains a variable paint format
pub fn uses_var(n: &Node) -> bool {
    match n {
        Node::Fill(f) => format!("{f:?}").starts_with("Var"),
        Node::Unary(u, c) | Node::Xf(u, _, c) => format!("{u:?}").starts_with("Var") || uses_var(c),
        Node::Composite(a, b) => uses_var(a) || uses_var(b),
        _ => false,
    }
}

/// Transform paints with explicit parameters. `param` 0: identity (translate 0, scale 1, rotate 0,
/// skew 0, identity matrix). `param` 1 and 2: for translate / matrix / scale kinds two values whose
/// product is exactly the identity in f32 (translate +d / -d, matrix 2x / 0.5x, scale -1 / -1); for
/// rotate and skew two ordinary opposite values. Variable kinds use the same base values with a
/// variation index, so they are identity only at the default location when a store is present.
pub fn xf_paint(u: Un, param: u8, c: Paint) -> Paint {
    let fx = |v: f64| Fixed::from_f64(v);
    let (dx, dy): (i16, i16) = match param { 0 => (0, 0), 1 => (10, -10), _ => (-10, 10) };
    let m: f64 = match param { 0 => 1.0, 1 => 2.0, _ => 0.5 };
    let sc: f32 = if param == 0 { 1.0 } else { -1.0 };
    let ang: f32 = match param { 0 => 0.0, 1 => 0.25, _ => -0.25 };
    match u {
        Un::Translate => Paint::translate(c, fw(dx), fw(dy)),
        Un::VarTranslate => Paint::var_translate(c, fw(dx), fw(dy), 0),
        Un::Transform => Paint::transform(c, Affine2x3::new(fx(m), fx(0.0), fx(0.0), fx(m), fx(0.0), fx(0.0))),
        Un::VarTransform => Paint::var_transform(c, VarAffine2x3::new(fx(m), fx(0.0), fx(0.0), fx(m), fx(0.0), fx(0.0), 0)),
        Un::Scale => Paint::scale(c, f2(sc), f2(sc)),
        Un::VarScale => Paint::var_scale(c, f2(sc), f2(sc), 1),
        Un::ScaleAroundCenter => Paint::scale_around_center(c, f2(sc), f2(sc), fw(5), fw(6)),
        Un::VarScaleAroundCenter => Paint::var_scale_around_center(c, f2(sc), f2(sc), fw(5), fw(6), 0),
        Un::ScaleUniform => Paint::scale_uniform(c, f2(sc)),
        Un::VarScaleUniform => Paint::var_scale_uniform(c, f2(sc), 2),
        Un::ScaleUniformAroundCenter => Paint::scale_uniform_around_center(c, f2(sc), fw(5), fw(6)),
        Un::VarScaleUniformAroundCenter => Paint::var_scale_uniform_around_center(c, f2(sc), fw(5), fw(6), 0),
        Un::Rotate => Paint::rotate(c, f2(ang)),
        Un::VarRotate => Paint::var_rotate(c, f2(ang), 1),
        Un::RotateAroundCenter => Paint::rotate_around_center(c, f2(ang), fw(5), fw(6)),
        Un::VarRotateAroundCenter => Paint::var_rotate_around_center(c, f2(ang), fw(5), fw(6), 0),
        Un::Skew => Paint::skew(c, f2(ang), f2(-ang)),
        Un::VarSkew => Paint::var_skew(c, f2(ang), f2(-ang), 0),
        Un::SkewAroundCenter => Paint::skew_around_center(c, f2(ang), f2(-ang), fw(5), fw(6)),
        Un::VarSkewAroundCenter => Paint::var_skew_around_center(c, f2(ang), f2(-ang), fw(5), fw(6), 2),
        Un::Glyph => Paint::glyph(c, GlyphId16::new(PLAIN_GID)),
    }
}

pub fn to_paint(n: &Node) -> Paint {
    match n {
        Node::Fill(f) => fill_paint(*f),
        Node::Grad(s) => grad_paint(s),
        Node::ColrGlyph(g) => Paint::colr_glyph(GlyphId16::new(*g)),
        Node::ColrLayers(first, count) => Paint::colr_layers(*count, *first),
        Node::Unary(u, c) => unary_paint(*u, to_paint(c)),
        Node::Xf(u, p, c) => xf_paint(*u, *p, to_paint(c)),
        Node::Composite(s, b) => Paint::composite(to_paint(s), CompositeMode::Multiply, to_paint(b)),
    }
}

pub fn build_colr(g: &Graph) -> Colr {
    let mut colr = match g.v0 {
        Some((first, num, nrec)) => Colr::new(
            1,
            Some(vec![BaseGlyph::new(GlyphId16::new(1), first, num)]),
            Some((0..nrec).map(|i| Layer::new(GlyphId16::new(PLAIN_GID + i), i)).collect()),
            nrec,
        ),
        None => Colr::new(0, None, None, 0),
    };
    let recs: Vec<BaseGlyphPaint> = g
        .bases
        .iter()
        .enumerate()
        .map(|(i, n)| BaseGlyphPaint::new(GlyphId16::new(i as u16 + 1), to_paint(n)))
        .collect();
    colr.base_glyph_list = Some(BaseGlyphList::new(recs.len() as u32, recs)).into();
    if !g.layers.is_empty() {
        let paints: Vec<Paint> = g.layers.iter().map(to_paint).collect();
        colr.layer_list = Some(LayerList::new(paints.len() as u32, paints)).into();
    }
    if g.clip {
        let clips = vec![Clip::new(
            GlyphId16::new(1),
            GlyphId16::new(g.bases.len().max(1) as u16),
            if g.clip_var { ClipBox::format_2(fw(0), fw(0), fw(500), fw(500), 0) } else { ClipBox::format_1(fw(0), fw(0), fw(500), fw(500)) },
        )];
        colr.clip_list = Some(ClipList::new(1, clips.len() as u32, clips)).into();
    }
    if let (true, Some((axis_count, region_count, pattern))) = (g.var_store, g.store_shape) {
        use write_fonts::tables::variations::{ItemVariationData, ItemVariationStore, VariationRegionList};
        let regions: Vec<VariationRegion> = (0..region_count)
            .map(|r| VariationRegion::new((0..axis_count).map(|_| RegionAxisCoordinates::new(f2(0.0), f2(if r == 0 { 1.0 } else { 0.5 }), f2(1.0))).collect()))
            .collect();
        let idx: Vec<u16> = match pattern {
            0 => vec![0],
            1 => vec![1],
            2 => vec![5],
            _ => vec![0, 1],
        };
        let rows = 12usize;
        let deltas: Vec<u8> = (0..rows * idx.len()).map(|i| (i * 7 % 50) as u8).collect();
        let store = ItemVariationStore::new(VariationRegionList::new(axis_count as u16, regions), vec![Some(ItemVariationData::new(rows as u16, 0, idx, deltas))]);
        colr.item_variation_store = Some(store).into();
    } else if g.var_store {
        if g.store_empty {
            use write_fonts::tables::variations::{ItemVariationData, ItemVariationStore, VariationRegionList};
            let store = ItemVariationStore::new(VariationRegionList::new(1, vec![]), vec![Some(ItemVariationData::new(12, 0, vec![], vec![]))]);
            colr.item_variation_store = Some(store).into();
        } else {
            let mut b = VariationStoreBuilder::new_with_implicit_indices(1);
            let region = VariationRegion::new(vec![RegionAxisCoordinates::new(f2(0.0), f2(1.0), f2(1.0))]);
            // enough delta sets for the largest var_index_base + field count used above
            for i in 0..12i32 {
                b.add_deltas(vec![(region.clone(), (i * 37) % 200 - 100)]);
            }
            let (store, _) = b.build();
            colr.item_variation_store = Some(store).into();
        }
    }
    if let Some((count, entry_size, inner_bits)) = g.var_map {
        use write_fonts::tables::variations::DeltaSetIndexMap;
        let fmt = read_fonts::tables::variations::EntryFormat::from_bits_truncate(((entry_size - 1) << 4) | (inner_bits - 1));
        let mut data = vec![];
        for i in 0..count as u32 {
            let inner = i & ((1u32 << inner_bits) - 1).min(0xFFFF);
            data.extend_from_slice(&inner.to_be_bytes()[4 - entry_size as usize..]);
        }
        colr.var_index_map = Some(DeltaSetIndexMap::format_0(fmt, count, data)).into();
    }
    colr
}

pub fn build_font(g: &Graph) -> Result<Vec<u8>, String> {
    let colr = build_colr(g);
    let head = write_fonts::tables::head::Head { units_per_em: 1000, ..Default::default() };
    let mut b = FontBuilder::new();
    b.add_table(&head).map_err(|e| format!("head: {e:?}"))?;
    b.add_table(&colr).map_err(|e| format!("COLR: {e:?}"))?;
    Ok(b.build())
}

// ---------------------------------------------------------------------------
// reference analysis
// ---------------------------------------------------------------------------

#[derive(Clone, Copy, Debug, Default, PartialEq)]
pub struct Analysis {
    /// a cycle is reachable from the root of glyph 1 along edges the traversal has to follow
    pub cyclic: bool,
    /// a reference to a glyph without a record / a layer index past the list is reachable
    pub invalid: bool,
    /// some root path is longer than 64 nodes
    pub too_deep: bool,
    /// node visits of the depth-64-truncated, cycle-cut tree unfolding (capped)
    pub visits: u64,
}

#[derive(Clone, Copy, PartialEq, Eq, Debug)]
enum Slot {
    Base(usize),
    Layer(usize),
}

pub const VISIT_CAP: u64 = 1_000_000;

/// `cache_ok`: the client answers `paint_cached_color_glyph` with Ok, so PaintColrGlyph edges need not
/// be followed by the traversal.
pub fn analyze(g: &Graph, root_base: usize, cache_ok: bool) -> Analysis {
    let mut a = Analysis::default();
    let mut path = vec![Slot::Base(root_base)];
    if let Some(n) = g.bases.get(root_base) {
        walk(g, n, &mut path, 0, cache_ok, &mut a);
    }
    a
}

fn walk(g: &Graph, n: &Node, path: &mut Vec<Slot>, depth: usize, cache_ok: bool, a: &mut Analysis) {
    if a.visits >= VISIT_CAP {
        return;
    }
    a.visits += 1;
    if depth >= 64 {
        a.too_deep = true;
        return;
    }
    match n {
        Node::Fill(_) | Node::Grad(_) => {}
        Node::ColrGlyph(gid) => {
            if cache_ok {
                return;
            }
            let idx = (*gid as usize).wrapping_sub(1);
            if *gid == 0 || idx >= g.bases.len() {
                a.invalid = true;
                return;
            }
            if path.contains(&Slot::Base(idx)) {
                a.cyclic = true;
                return;
            }
            path.push(Slot::Base(idx));
            walk(g, &g.bases[idx], path, depth + 1, cache_ok, a);
            path.pop();
        }
        Node::ColrLayers(first, count) => {
            for i in *first as usize..*first as usize + *count as usize {
                if i >= g.layers.len() {
                    a.invalid = true;
                    return;
                }
                if path.contains(&Slot::Layer(i)) {
                    a.cyclic = true;
                    return;
                }
                path.push(Slot::Layer(i));
                walk(g, &g.layers[i], path, depth + 1, cache_ok, a);
                path.pop();
            }
        }
        Node::Unary(_, c) | Node::Xf(_, _, c) => walk(g, c, path, depth + 1, cache_ok, a),
        Node::Composite(s, b) => {
            walk(g, b, path, depth + 1, cache_ok, a);
            walk(g, s, path, depth + 1, cache_ok, a);
        }
    }
}


// ---------------------------------------------------------------------------
// reference interpreter for graphs without PaintGlyph: the exact callback stream and result
// ---------------------------------------------------------------------------

#[derive(Clone, Copy, Debug, PartialEq, Eq)]
pub enum SimEv {
    PushTransform,
    PopTransform,
    PushClipBox,
    PopClip,
    PushLayer,
    PopLayer,
    Fill,
    Cached(u32),
    PushClipGlyph,
    /// `fill_glyph` of a client that overrides it: (a brush transform is passed)
    FillGlyph(bool),
}

#[derive(Clone, Copy, Debug, PartialEq, Eq)]
pub enum SimErr {
    Cycle,
    Depth,
    Invalid,
}

pub struct Sim<'a> {
    g: &'a Graph,
    cache_ok: bool,
    /// the decycler's path. A paint is identified by its offset in the compiled table; write-fonts
    /// shares identical sub-tables, so two slots with structurally equal paint trees have the same id
    /// (checked by `dedup_gate`).
    path: Vec<&'a Node>,
    pub events: Vec<SimEv>,
    /// the client keeps the trait's provided `fill_glyph` (which decomposes into clip / transform / fill)
    decompose: bool,
    /// Some while the sub-graph of a PaintGlyph is traversed with the collecting painter ("fill
    /// trial", documented in traversal.rs: a PaintGlyph whose sub-graph consists of transforms and
    /// fills only is reported through `fill_glyph`): (still foldable, a transform was collected)
    trial: Option<(bool, bool)>,
}

impl<'a> Sim<'a> {
    /// `Decycler::enter` as documented in skrifa/src/decycler.rs (tortoise and hare over the DFS path,
    /// depth limit 64): a node is refused when it equals the path entry at half the current depth.
    fn enter(&mut self, id: &'a Node) -> Result<(), SimErr> {
        let d = self.path.len();
        if d >= 64 {
            return Err(SimErr::Depth);
        }
        if d == 0 || self.path[d / 2] != id {
            self.path.push(id);
            Ok(())
        } else {
            Err(SimErr::Cycle)
        }
    }

    /// a push/pop of a clip or layer: inside a fill trial it only marks the trial as failed
    fn structural(&mut self, e: SimEv) {
        match &mut self.trial {
            Some(t) => t.0 = false,
            None => self.events.push(e),
        }
    }

    fn node(&mut self, n: &'a Node, depth: usize) -> Result<(), SimErr> {
        if depth >= 64 {
            return Err(SimErr::Depth);
        }
        match n {
            Node::Fill(_) => {
                match self.trial {
                    None => self.events.push(SimEv::Fill),
                    // the collecting painter forwards a fill as fill_glyph while the trial is intact
                    Some((true, has_xf)) => {
                        if self.decompose {
                            self.events.push(SimEv::PushClipGlyph);
                            if has_xf {
                                self.events.push(SimEv::PushTransform);
                            }
                            self.events.push(SimEv::Fill);
                            if has_xf {
                                self.events.push(SimEv::PopTransform);
                            }
                            self.events.push(SimEv::PopClip);
                        } else {
                            self.events.push(SimEv::FillGlyph(has_xf));
                        }
                    }
                    Some((false, _)) => {}
                }
                Ok(())
            }
            Node::Grad(_) => unreachable!("filtered by supported()"),
            Node::ColrGlyph(gid) => {
                let idx = (*gid as usize).wrapping_sub(1);
                if *gid == 0 || idx >= self.g.bases.len() {
                    return Err(SimErr::Invalid);
                }
                let g = self.g;
                self.enter(&g.bases[idx])?;
                // the collecting painter does not forward paint_cached_color_glyph: the provided default
                // answers Unimplemented without the client being asked
                let in_trial = self.trial.is_some();
                if !in_trial {
                    self.events.push(SimEv::Cached(*gid as u32));
                }
                let r = if self.cache_ok && !in_trial {
                    Ok(())
                } else {
                    if g.clip {
                        self.structural(SimEv::PushClipBox);
                    }
                    let r = self.node(&g.bases[idx], depth + 1);
                    if g.clip {
                        self.structural(SimEv::PopClip);
                    }
                    r
                };
                self.path.pop();
                r
            }
            Node::ColrLayers(first, count) => {
                let g = self.g;
                for i in *first as usize..*first as usize + *count as usize {
                    if i >= g.layers.len() {
                        return Err(SimErr::Invalid);
                    }
                    self.enter(&g.layers[i])?;
                    let r = self.node(&g.layers[i], depth + 1);
                    self.path.pop();
                    r?;
                }
                Ok(())
            }
            Node::Unary(Un::Glyph, c) => {
                if let Some(t) = &mut self.trial {
                    // a PaintGlyph below a PaintGlyph: cannot be folded, the outer trial fails right here
                    t.0 = false;
                    return Ok(());
                }
                self.trial = Some((true, false));
                let mut r = self.node(c, depth + 1);
                let (intact, _) = self.trial.take().unwrap();
                if !intact {
                    self.events.push(SimEv::PushClipGlyph);
                    r = self.node(c, depth + 1);
                    self.events.push(SimEv::PopClip);
                }
                r
            }
            Node::Unary(_, c) | Node::Xf(_, _, c) => {
                match &mut self.trial {
                    // collected into the brush transform (never popped) while the trial is intact
                    Some(t) => {
                        if t.0 {
                            t.1 = true;
                        }
                        self.node(c, depth + 1)
                    }
                    None => {
                        self.events.push(SimEv::PushTransform);
                        let r = self.node(c, depth + 1);
                        self.events.push(SimEv::PopTransform);
                        r
                    }
                }
            }
            Node::Composite(s, b) => {
                self.structural(SimEv::PushLayer);
                self.node(b, depth + 1)?;
                self.structural(SimEv::PushLayer);
                let r = self.node(s, depth + 1);
                self.structural(SimEv::PopLayer);
                self.structural(SimEv::PopLayer);
                r
            }
        }
    }
}

/// true if the interpreter models every node of the tree: no PaintGlyph (fill trial), only fills that
/// always emit exactly one `fill`
fn supported(n: &Node, var_store: bool) -> bool {
    match n {
        Node::Fill(f) => !matches!(f, Fill::LinearDegenerate | Fill::SweepEmpty) && !(var_store && format!("{f:?}").starts_with("Var")),
        Node::Grad(_) => false,
        Node::ColrGlyph(_) | Node::ColrLayers(..) => true,
        Node::Unary(_, c) | Node::Xf(_, _, c) => supported(c, var_store),
        Node::Composite(a, b) => supported(a, var_store) && supported(b, var_store),
    }
}

/// Expected (result, callback stream) of painting glyph 1 with format v1, or None when the graph is
/// outside the interpreter's model.
pub fn simulate(g: &Graph, cache_ok: bool, decompose: bool) -> Option<(Result<(), SimErr>, Vec<SimEv>)> {
    if g.v0.is_some() || g.bases.is_empty() || !g.bases.iter().chain(g.layers.iter()).all(|n| supported(n, g.var_store)) {
        return None;
    }
    let mut s = Sim { g, cache_ok, path: vec![], events: vec![], decompose, trial: None };
    if g.clip {
        s.events.push(SimEv::PushClipBox);
    }
    let mut r = s.enter(&g.bases[0]);
    if r.is_ok() {
        r = s.node(&g.bases[0], 0);
    }
    if r.is_ok() && g.clip {
        s.events.push(SimEv::PopClip);
    }
    Some((r, s.events))
}

/// the root's own tree reaches PaintColrGlyph(root glyph) without passing through another
/// PaintColrGlyph / PaintColrLayers: the only id on the decycler path is the root itself
pub fn direct_self_reference(n: &Node) -> bool {
    match n {
        Node::ColrGlyph(g) => *g == 1,
        Node::Unary(_, c) | Node::Xf(_, _, c) => direct_self_reference(c),
        Node::Composite(a, b) => direct_self_reference(a) || direct_self_reference(b),
        _ => false,
    }
}

// ---------------------------------------------------------------------------
// enumeration of trees
// ---------------------------------------------------------------------------

pub struct Alphabet {
    pub leaves: Vec<Node>,
    pub unaries: Vec<Un>,
    /// additional unary nodes with explicit parameter sets (`Node::Xf`)
    pub xfs: Vec<(Un, u8)>,
}

/// all trees with exactly `size` nodes, memoised by size (index = size)
pub fn trees_up_to(al: &Alphabet, max: usize) -> Vec<Vec<Node>> {
    let mut t: Vec<Vec<Node>> = vec![vec![]; max + 1];
    for s in 1..=max {
        let mut out = vec![];
        if s == 1 {
            out.extend(al.leaves.iter().cloned());
        } else {
            for u in &al.unaries {
                for c in &t[s - 1] {
                    out.push(Node::Unary(*u, Box::new(c.clone())));
                }
            }
            for (u, p) in &al.xfs {
                for c in &t[s - 1] {
                    out.push(Node::Xf(*u, *p, Box::new(c.clone())));
                }
            }
            for sa in 1..s - 1 {
                let sb = s - 1 - sa;
                if sb == 0 {
                    continue;
                }
                for a in &t[sa] {
                    for b in &t[sb] {
                        out.push(Node::Composite(Box::new(a.clone()), Box::new(b.clone())));
                    }
                }
            }
        }
        t[s] = out;
    }
    t
}
