//! Reference value types and the reference first-match lookup walker over read-fonts tables.

use read_fonts::tables::gpos as rg;
use read_fonts::tables::layout as rl;
use read_fonts::{FontData, FontRead};
use std::collections::HashMap;
use write_fonts::types::GlyphId16;

#[derive(Clone, Debug)]
pub enum RDev {
    /// `words` are the raw packed delta words (what the compiler wrote); `decoded` is what
    /// read-fonts' `Device::iter` makes of them. Equality is on the raw form only; the decoded
    /// form is judged separately (`decoded_differs`) so that a decoding defect on the read side is
    /// not mistaken for a compilation defect.
    Device { start: u16, end: u16, format: u16, words: Vec<u16>, decoded: Vec<i8> },
    VarIdx(u16, u16),
}

impl PartialEq for RDev {
    fn eq(&self, o: &RDev) -> bool {
        match (self, o) {
            (RDev::Device { start, end, format, words, .. }, RDev::Device { start: s2, end: e2, format: f2, words: w2, .. }) => {
                start == s2 && end == e2 && format == f2 && words == w2
            }
            (RDev::VarIdx(a, b), RDev::VarIdx(c, d)) => a == c && b == d,
            _ => false,
        }
    }
}
impl Eq for RDev {}

impl RDev {
    /// Spec-side encoder of a Device table (independent of write-fonts): the smallest format whose
    /// SIGNED range holds every delta (format 1: -2..=1, 2 bits; format 2: -8..=7, 4 bits; format 3:
    /// -128..=127, 8 bits), values packed most significant first, 8 / 4 / 2 per word.
    pub fn expected(start: u16, deltas: &[i8]) -> RDev {
        assert!(!deltas.is_empty());
        let (format, bits) = if deltas.iter().all(|d| (-2..=1).contains(d)) {
            (1u16, 2usize)
        } else if deltas.iter().all(|d| (-8..=7).contains(d)) {
            (2, 4)
        } else {
            (3, 8)
        };
        let per_word = 16 / bits;
        let mask = (1u16 << bits) - 1;
        let mut words = vec![0u16; (deltas.len() + per_word - 1) / per_word];
        for (i, v) in deltas.iter().enumerate() {
            words[i / per_word] |= ((*v as i16 as u16) & mask) << (16 - bits * (i % per_word + 1));
        }
        RDev::Device { start, end: start + deltas.len() as u16 - 1, format, words, decoded: deltas.to_vec() }
    }
    pub fn decoded_differs(a: &Option<RDev>, b: &Option<RDev>) -> bool {
        match (a, b) {
            (Some(RDev::Device { decoded: x, .. }), Some(RDev::Device { decoded: y, .. })) => x != y,
            _ => false,
        }
    }
}

/// value record, normalised: absent field == 0, null device offset == None
#[derive(Clone, Debug, PartialEq, Eq, Default)]
pub struct RVal {
    /// xPlacement, yPlacement, xAdvance, yAdvance
    pub v: [i16; 4],
    pub dev: [Option<RDev>; 4],
}
impl RVal {
    pub fn is_zero(&self) -> bool {
        self.v == [0; 4] && self.dev.iter().all(|d| d.is_none())
    }
}

#[derive(Clone, Debug, PartialEq, Eq)]
pub struct RAnchor {
    pub x: i16,
    pub y: i16,
    pub point: Option<u16>,
    pub xdev: Option<RDev>,
    pub ydev: Option<RDev>,
}

pub type R<T> = Result<T, String>;

fn dev(d: Option<Result<rl::DeviceOrVariationIndex, read_fonts::ReadError>>) -> R<Option<RDev>> {
    match d {
        None => Ok(None),
        Some(Err(e)) => Err(format!("device offset does not resolve: {e}")),
        Some(Ok(rl::DeviceOrVariationIndex::Device(d))) => Ok(Some(RDev::Device {
            start: d.start_size(),
            end: d.end_size(),
            format: match d.delta_format() {
                rl::DeltaFormat::Local2BitDeltas => 1,
                rl::DeltaFormat::Local4BitDeltas => 2,
                rl::DeltaFormat::Local8BitDeltas => 3,
                _ => 0xFFFF,
            },
            words: d.delta_value().iter().map(|w| w.get()).collect(),
            decoded: d.iter().collect(),
        })),
        Some(Ok(rl::DeviceOrVariationIndex::VariationIndex(v))) => {
            Ok(Some(RDev::VarIdx(v.delta_set_outer_index(), v.delta_set_inner_index())))
        }
    }
}

pub fn val(v: &rg::ValueRecord, data: FontData) -> R<RVal> {
    Ok(RVal {
        v: [
            v.x_placement().unwrap_or(0),
            v.y_placement().unwrap_or(0),
            v.x_advance().unwrap_or(0),
            v.y_advance().unwrap_or(0),
        ],
        dev: [
            dev(v.x_placement_device(data))?,
            dev(v.y_placement_device(data))?,
            dev(v.x_advance_device(data))?,
            dev(v.y_advance_device(data))?,
        ],
    })
}

pub fn anchor(a: &rg::AnchorTable) -> R<RAnchor> {
    Ok(RAnchor {
        x: a.x_coordinate(),
        y: a.y_coordinate(),
        point: match a {
            rg::AnchorTable::Format2(t) => Some(t.anchor_point()),
            _ => None,
        },
        xdev: dev(a.x_device())?,
        ydev: dev(a.y_device())?,
    })
}

/// One read-back sub-table prepared for evaluation. Coverage / class queries go through
/// read-fonts' `CoverageTable::get` / `ClassDef::get` on every evaluation; record arrays are
/// extracted once.
pub enum Sub<'a> {
    Pair1 { cov: rl::CoverageTable<'a>, sets: Vec<HashMap<u16, (RVal, RVal)>> },
    Pair2 { cov: rl::CoverageTable<'a>, cd1: rl::ClassDef<'a>, cd2: rl::ClassDef<'a>, recs: Vec<Vec<(RVal, RVal)>> },
    MarkBase { mcov: rl::CoverageTable<'a>, bcov: rl::CoverageTable<'a>, marks: Vec<(u16, RAnchor)>, bases: Vec<Vec<Option<RAnchor>>> },
}

pub struct Lookup<'a> {
    pub lookup_type: u16,
    /// raw lookup flag bits and the mark filtering set as read back
    pub lookup_flag: u16,
    pub mark_filtering_set: Option<u16>,
    pub subs: Vec<Sub<'a>>,
    /// 1 = PairPos format 1, 2 = PairPos format 2, 4 = MarkBasePos, per sub-table
    pub formats: Vec<u8>,
    /// format of the (first) coverage table of each sub-table; largest range count seen
    pub cov_formats: Vec<u8>,
    pub cov_ranges_max: usize,
}

pub fn read_gpos(bytes: &[u8]) -> R<Vec<Lookup<'_>>> {
    let e = |what: &str, err: read_fonts::ReadError| format!("{what}: {err}");
    let gpos = rg::Gpos::read(FontData::new(bytes)).map_err(|x| e("Gpos::read", x))?;
    let list = gpos.lookup_list().map_err(|x| e("lookup_list", x))?;
    let mut out = vec![];
    for (li, lookup) in list.lookups().iter().enumerate() {
        let lookup = lookup.map_err(|x| e(&format!("lookup {li}"), x))?;
        let mut subs = vec![];
        let mut formats = vec![];
        let mut cov_formats = vec![];
        let mut cov_ranges_max = 0usize;
        let mut note_cov = |c: &rl::CoverageTable| match c {
            rl::CoverageTable::Format1(_) => cov_formats.push(1u8),
            rl::CoverageTable::Format2(t) => {
                cov_formats.push(2u8);
                cov_ranges_max = cov_ranges_max.max(t.range_records().len());
            }
        };
        match lookup.subtables().map_err(|x| e("subtables", x))? {
            rg::PositionSubtables::Pair(st) => {
                for s in st.iter() {
                    match s.map_err(|x| e("pair sub-table", x))? {
                        rg::PairPos::Format1(t) => {
                            let cov = t.coverage().map_err(|x| e("coverage", x))?;
                            note_cov(&cov);
                            let mut sets = vec![];
                            for ps in t.pair_sets().iter() {
                                let ps = ps.map_err(|x| e("pair set", x))?;
                                let data = ps.offset_data();
                                let mut m = HashMap::new();
                                for r in ps.pair_value_records().iter() {
                                    let r = r.map_err(|x| e("pair value record", x))?;
                                    let v = (val(r.value_record1(), data)?, val(r.value_record2(), data)?);
                                    // first record for a second glyph wins (array is searched in order)
                                    m.entry(r.second_glyph().to_u16()).or_insert(v);
                                }
                                sets.push(m);
                            }
                            subs.push(Sub::Pair1 { cov, sets });
                            formats.push(1);
                        }
                        rg::PairPos::Format2(t) => {
                            let data = t.offset_data();
                            let mut recs = vec![];
                            for c1 in t.class1_records().iter() {
                                let c1 = c1.map_err(|x| e("class1 record", x))?;
                                let mut row = vec![];
                                for c2 in c1.class2_records().iter() {
                                    let c2 = c2.map_err(|x| e("class2 record", x))?;
                                    row.push((val(c2.value_record1(), data)?, val(c2.value_record2(), data)?));
                                }
                                recs.push(row);
                            }
                            let cov = t.coverage().map_err(|x| e("coverage", x))?;
                            note_cov(&cov);
                            subs.push(Sub::Pair2 {
                                cov,
                                cd1: t.class_def1().map_err(|x| e("class_def1", x))?,
                                cd2: t.class_def2().map_err(|x| e("class_def2", x))?,
                                recs,
                            });
                            formats.push(2);
                        }
                    }
                }
            }
            rg::PositionSubtables::MarkToBase(st) => {
                for s in st.iter() {
                    let t = s.map_err(|x| e("mark-base sub-table", x))?;
                    let ma = t.mark_array().map_err(|x| e("mark_array", x))?;
                    let mut marks = vec![];
                    for r in ma.mark_records() {
                        let a = r.mark_anchor(ma.offset_data()).map_err(|x| e("mark anchor", x))?;
                        marks.push((r.mark_class(), anchor(&a)?));
                    }
                    let ba = t.base_array().map_err(|x| e("base_array", x))?;
                    let mut bases = vec![];
                    for br in ba.base_records().iter() {
                        let br = br.map_err(|x| e("base record", x))?;
                        let mut row = vec![];
                        for a in br.base_anchors(ba.offset_data()).iter() {
                            row.push(match a {
                                None => None,
                                Some(a) => Some(anchor(&a.map_err(|x| e("base anchor", x))?)?),
                            });
                        }
                        bases.push(row);
                    }
                    let mcov = t.mark_coverage().map_err(|x| e("mark_coverage", x))?;
                    note_cov(&mcov);
                    subs.push(Sub::MarkBase {
                        mcov,
                        bcov: t.base_coverage().map_err(|x| e("base_coverage", x))?,
                        marks,
                        bases,
                    });
                    formats.push(4);
                }
            }
            _ => return Err(format!("lookup {li}: unexpected sub-table kind (type {})", lookup.lookup_type())),
        }
        drop(note_cov);
        out.push(Lookup { lookup_type: lookup.lookup_type(), lookup_flag: lookup.lookup_flag().to_bits(), mark_filtering_set: lookup.mark_filtering_set(), subs, formats, cov_formats, cov_ranges_max });
    }
    Ok(out)
}

impl Lookup<'_> {
    /// First-match evaluation of a pair lookup (sub-tables in order; format 1 applies iff g1 is
    /// covered and its pair set has a record for g2; format 2 applies iff g1 is covered and both
    /// classes are inside the record matrix).
    /// Glyph ids are 32-bit (`GlyphId`), as the read-fonts query API takes them: ids above 0xFFFF can
    /// never be covered by these 16-bit tables and never equal a 16-bit second glyph.
    pub fn eval_pair(&self, g1: u32, g2: u32) -> R<Option<(RVal, RVal)>> {
        use read_fonts::types::GlyphId;
        for s in &self.subs {
            match s {
                Sub::Pair1 { cov, sets } => {
                    if let Some(i) = cov.get(GlyphId::new(g1)) {
                        let set = sets.get(i as usize).ok_or_else(|| format!("coverage index {i} of glyph {g1} has no pair set ({} sets)", sets.len()))?;
                        if let Some(v) = u16::try_from(g2).ok().and_then(|g2| set.get(&g2)) {
                            return Ok(Some(v.clone()));
                        }
                    }
                }
                Sub::Pair2 { cov, cd1, cd2, recs } => {
                    if cov.get(GlyphId::new(g1)).is_some() {
                        // ClassDef::get only takes 16-bit ids: a wider id is in no class (class 0)
                        let class = |cd: &rl::ClassDef, g: u32| u16::try_from(g).map(|g| cd.get(GlyphId16::new(g))).unwrap_or(0) as usize;
                        let c1 = class(cd1, g1);
                        let c2 = class(cd2, g2);
                        if c1 < recs.len() && c2 < recs[c1].len() {
                            return Ok(Some(recs[c1][c2].clone()));
                        }
                    }
                }
                _ => {}
            }
        }
        Ok(None)
    }

    /// first sub-table covering both glyphs whose base record has an anchor for the mark's class
    pub fn eval_mark_base(&self, mark: u32, base: u32) -> R<Option<(RAnchor, RAnchor)>> {
        use read_fonts::types::GlyphId;
        for s in &self.subs {
            if let Sub::MarkBase { mcov, bcov, marks, bases } = s {
                if let (Some(mi), Some(bi)) = (mcov.get(GlyphId::new(mark)), bcov.get(GlyphId::new(base))) {
                    let (class, ma) = marks.get(mi as usize).ok_or_else(|| format!("mark coverage index {mi} has no mark record"))?;
                    let row = bases.get(bi as usize).ok_or_else(|| format!("base coverage index {bi} has no base record"))?;
                    let cell = row.get(*class as usize).ok_or_else(|| format!("mark class {class} outside base record ({} classes)", row.len()))?;
                    if let Some(b) = cell {
                        return Ok(Some((ma.clone(), b.clone())));
                    }
                }
            }
        }
        Ok(None)
    }
}
