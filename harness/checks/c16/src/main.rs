//! C16 — layout builders and overflow splitting preserve glyph-level lookup semantics.
//!
//! (a) `CoverageTableBuilder` / `ClassDef` building: every glyph set over a 10-glyph boundary
//!     alphabet and every class assignment of <= 5 of those glyphs to classes {0,1,2,5}, in the
//!     format chosen by the size heuristic and in both formats forced by direct construction;
//!     compiled, re-read with read-fonts, queried on (alphabet ∪ neighbours).
//!     `ClassDefBuilder` (glyph classes -> class ids): every assignment of 6 glyphs to <= 3 classes.
//! (b) `PairPosBuilder` / `MarkToBaseBuilder`: small exhaustive rule sets.
//! (c) threshold families: rule sets whose compiled sub-table size sweeps the 64 KiB limit one
//!     record at a time, for 1, 2 and 3 required splits, alone and next to filler lookups that
//!     force extension promotion.
//! (d) the remaining GSUB / GPOS builders (see `others.rs`), judged on coverage queries and a
//!     rule-for-rule round trip.
//! (b) and (c) are compiled inside a `Gpos` with `dump_table`, re-read with read-fonts and evaluated
//! by the reference first-match walker in `model.rs` for every glyph pair of (covered ∪ neighbours)².

mod model;
mod others;
mod pairs;

use rayon::prelude::*;
use read_fonts::tables::layout as rl;
use read_fonts::{FontData, FontRead};
use serde_json::{json, Value};
use std::collections::{BTreeMap, BTreeSet, HashSet};
use vcore::*;
use write_fonts::tables::layout as wl;
use write_fonts::tables::layout::builders::{ClassDefBuilder, CoverageTableBuilder};
use write_fonts::types::GlyphId16;

fn main() {
    main_for("C16", body)
}

const G10: [u16; 10] = [0, 1, 2, 3, 5, 6, 7, 100, 0xFFFE, 0xFFFF];

fn universe() -> Vec<u16> {
    let mut s = BTreeSet::new();
    for g in G10 {
        s.insert(g);
        s.insert(g.saturating_sub(1));
        s.insert(g.saturating_add(1));
    }
    s.into_iter().collect()
}

fn gid(g: u16) -> GlyphId16 {
    GlyphId16::new(g)
}

// ---------------------------------------------------------------------------
// (a) coverage
// ---------------------------------------------------------------------------

/// spec-side range computation for the forced format 2
fn ranges(glyphs: &[u16]) -> Vec<(u16, u16, u16)> {
    let mut out: Vec<(u16, u16, u16)> = vec![];
    for (i, g) in glyphs.iter().enumerate() {
        match out.last_mut() {
            Some(r) if r.1 as u32 + 1 == *g as u32 => r.1 = *g,
            _ => out.push((*g, *g, i as u16)),
        }
    }
    out
}

/// 32-bit query ids for a 16-bit glyph set: every glyph of the set and its neighbours with the
/// high half set to 0x0001 and 0xFFFF, 0x1_0000 + first/last of every range, and u32::MAX
fn wide_queries(glyphs: &[u16]) -> Vec<u32> {
    let mut q = BTreeSet::new();
    for g in glyphs {
        for n in [g.saturating_sub(1), *g, g.saturating_add(1)] {
            q.insert(0x1_0000 | n as u32);
            q.insert(0xFFFF_0000 | n as u32);
        }
    }
    for (s, e, _) in ranges(glyphs) {
        q.insert(0x1_0000 + s as u32);
        q.insert(0x1_0000 + e as u32);
    }
    q.insert(u32::MAX);
    q.insert(0x1_0000);
    q.into_iter().collect()
}

fn coverage_case(run: &Run, mask: u32, mode: u8, l: &mut Local) {
    let glyphs: Vec<u16> = (0..10).filter(|i| mask & (1 << i) != 0).map(|i| G10[i]).collect();
    let case = json!({"family":"coverage","mask":mask,"mode":mode});
    // mode 0: builder from_glyphs (given in descending order, with a duplicate), 1: builder via add()
    // in descending order, 2: forced format 1, 3: forced format 2
    let built = guard(|| -> wl::CoverageTable {
        match mode {
            0 => {
                let mut v: Vec<GlyphId16> = glyphs.iter().rev().map(|g| gid(*g)).collect();
                if let Some(f) = v.first().copied() {
                    v.push(f);
                }
                CoverageTableBuilder::from_glyphs(v).build()
            }
            1 => {
                let mut b = CoverageTableBuilder::default();
                for g in glyphs.iter().rev() {
                    b.add(gid(*g));
                }
                // adding an existing glyph returns its index and changes nothing
                for (i, g) in glyphs.iter().enumerate() {
                    let ix = b.add(gid(*g));
                    assert_eq!(ix as usize, i, "CoverageTableBuilder::add returned a wrong index");
                }
                b.build()
            }
            2 => wl::CoverageTable::format_1(glyphs.iter().map(|g| gid(*g)).collect()),
            _ => wl::CoverageTable::format_2(ranges(&glyphs).into_iter().map(|(s, e, i)| wl::RangeRecord::new(gid(s), gid(e), i)).collect()),
        }
    });
    l.cases += 1;
    let names = ["CoverageTableBuilder::from_glyphs", "CoverageTableBuilder::add", "CoverageTable::format_1", "CoverageTable::format_2"];
    let name = names[mode as usize];
    let table = match built {
        Ok(t) => t,
        Err(p) => {
            run.violation(&format!("{name}: panic {} [{}]", p.kind(), p.site()), &format!("glyphs {glyphs:?}: {}", p.message), case);
            return;
        }
    };
    let fmt = match &table {
        wl::CoverageTable::Format1(_) => 1,
        wl::CoverageTable::Format2(_) => 2,
    };
    let bytes = match guard(|| write_fonts::dump_table(&table)) {
        Ok(Ok(b)) => b,
        Ok(Err(e)) => {
            run.violation(&format!("{name}: dump_table error (format {fmt})"), &format!("glyphs {glyphs:?}: {e}"), case);
            return;
        }
        Err(p) => {
            run.violation(&format!("{name}: dump_table panic {} [{}]", p.kind(), p.site()), &format!("glyphs {glyphs:?}: {}", p.message), case);
            return;
        }
    };
    let read = match rl::CoverageTable::read(FontData::new(&bytes)) {
        Ok(r) => r,
        Err(e) => {
            run.violation(&format!("{name}: compiled coverage does not read back (format {fmt})"), &format!("glyphs {glyphs:?}: {e}"), case);
            return;
        }
    };
    for g in universe() {
        let want = glyphs.iter().position(|x| *x == g).map(|i| i as u16);
        let got = read.get(gid(g));
        if got != want {
            run.violation(
                &format!("{name}: coverage index differs (format {fmt})"),
                &format!("glyphs {glyphs:?}: get({g}) = {got:?}, want {want:?}"),
                case,
            );
            return;
        }
    }
    // 32-bit glyph ids can never be covered by a 16-bit coverage table, whatever their low 16 bits
    for q in wide_queries(&glyphs) {
        if let Some(ix) = read.get(read_fonts::types::GlyphId::new(q)) {
            run.violation(
                &format!("{name}: a glyph id above 0xFFFF is reported as covered (format {fmt})"),
                &format!("glyphs {glyphs:?}: get({q:#x}) = Some({ix})"),
                case,
            );
            return;
        }
    }
    let listed: Vec<u16> = read.iter().map(|g| g.to_u16()).collect();
    if listed != glyphs {
        run.violation(&format!("{name}: coverage iteration differs (format {fmt})"), &format!("glyphs {glyphs:?}: iter = {listed:?}"), case);
        return;
    }
    // set-level membership (`intersects`, both of its search strategies: a query set that is small
    // or large relative to the table) and the member count
    {
        use read_fonts::collections::IntSet;
        use read_fonts::types::GlyphId;
        let uni = universe();
        let mut queries: Vec<Vec<u32>> = uni.iter().map(|g| vec![*g as u32]).collect();
        queries.push(uni.iter().map(|g| *g as u32).collect());
        queries.push(uni.iter().filter(|g| !glyphs.contains(g)).map(|g| *g as u32).collect());
        queries.push(glyphs.iter().map(|g| *g as u32).collect());
        queries.push(wide_queries(&glyphs));
        queries.push(uni.iter().filter(|g| !glyphs.contains(g)).map(|g| *g as u32).chain(glyphs.last().map(|g| *g as u32)).collect());
        queries.push(vec![]);
        for q in queries {
            let set: IntSet<GlyphId> = q.iter().map(|g| GlyphId::new(*g)).collect();
            let want = q.iter().any(|g| *g <= 0xFFFF && glyphs.contains(&(*g as u16)));
            let got = read.intersects(&set);
            if got != want {
                let shown: Vec<String> = q.iter().take(8).map(|g| format!("{g:#x}")).collect();
                run.violation(
                    &format!("{name}: CoverageTable::intersects answer differs from the set (format {fmt})"),
                    &format!("glyphs {glyphs:?}: intersects({} ids: {}..) = {got}, want {want}", q.len(), shown.join(",")),
                    case,
                );
                return;
            }
        }
        let pop = match &read {
            rl::CoverageTable::Format1(t) => t.population(),
            rl::CoverageTable::Format2(t) => t.population(),
        };
        if pop != glyphs.len() {
            run.violation(&format!("{name}: coverage population differs (format {fmt})"), &format!("glyphs {glyphs:?}: population = {pop}"), case);
            return;
        }
    }
    let mut h = Fnv::new();
    h.str("cov");
    h.u64(fmt);
    h.u64(glyphs.len() as u64);
    h.u64(ranges(&glyphs).len() as u64);
    l.all.insert(h.finish());
    if !glyphs.is_empty() {
        l.nontrivial.insert(h.finish());
    }
    *l.c.entry(if fmt == 1 { "coverage_format1" } else { "coverage_format2" }).or_insert(0) += 1;
}

// ---------------------------------------------------------------------------
// (a) class definitions
// ---------------------------------------------------------------------------

const CLASSES: [u16; 4] = [0, 1, 2, 5];

fn classdef_case(run: &Run, assign: &[(u16, u16)], mode: u8, l: &mut Local) {
    // assign: ascending glyphs with their class
    let case = json!({"family":"classdef","assign":assign,"mode":mode});
    let names = ["ClassDef::from_iter", "ClassDef::format_1", "ClassDef::format_2"];
    let name = names[mode as usize];
    l.cases += 1;
    let built = guard(|| -> Option<wl::ClassDef> {
        Some(match mode {
            0 => assign.iter().rev().map(|(g, c)| (gid(*g), *c)).collect(),
            1 => {
                // forced format 1: dense array from the first to the last glyph
                let first = assign.first()?.0;
                let last = assign.last()?.0;
                if (last - first) as usize > 200 {
                    return None; // a 65 K array adds nothing here; spans up to 200 are kept
                }
                let arr = (first..=last).map(|g| assign.iter().find(|a| a.0 == g).map(|a| a.1).unwrap_or(0)).collect();
                wl::ClassDef::format_1(gid(first), arr)
            }
            _ => {
                // forced format 2: maximal runs of consecutive glyphs with equal class
                let mut recs: Vec<(u16, u16, u16)> = vec![];
                for (g, c) in assign {
                    match recs.last_mut() {
                        Some(r) if r.1 as u32 + 1 == *g as u32 && r.2 == *c => r.1 = *g,
                        _ => recs.push((*g, *g, *c)),
                    }
                }
                wl::ClassDef::format_2(recs.into_iter().map(|(s, e, c)| wl::ClassRangeRecord::new(gid(s), gid(e), c)).collect())
            }
        })
    });
    let table = match built {
        Ok(Some(t)) => t,
        Ok(None) => {
            l.cases -= 1;
            return;
        }
        Err(p) => {
            run.violation(&format!("{name}: panic {} [{}]", p.kind(), p.site()), &format!("{assign:?}: {}", p.message), case);
            return;
        }
    };
    let fmt = match &table {
        wl::ClassDef::Format1(_) => 1,
        wl::ClassDef::Format2(_) => 2,
    };
    let bytes = match guard(|| write_fonts::dump_table(&table)) {
        Ok(Ok(b)) => b,
        Ok(Err(e)) => {
            run.violation(&format!("{name}: dump_table error (format {fmt})"), &format!("{assign:?}: {e}"), case);
            return;
        }
        Err(p) => {
            run.violation(&format!("{name}: dump_table panic {} [{}]", p.kind(), p.site()), &format!("{assign:?}: {}", p.message), case);
            return;
        }
    };
    let read = match rl::ClassDef::read(FontData::new(&bytes)) {
        Ok(r) => r,
        Err(e) => {
            run.violation(&format!("{name}: compiled class def does not read back (format {fmt})"), &format!("{assign:?}: {e}"), case);
            return;
        }
    };
    for g in universe() {
        let want = assign.iter().find(|a| a.0 == g).map(|a| a.1).unwrap_or(0);
        let got = read.get(gid(g));
        if got != want {
            run.violation(&format!("{name}: class query differs (format {fmt})"), &format!("{assign:?}: get({g}) = {got}, want {want}"), case);
            return;
        }
    }
    // enumeration of the table: the non-zero assignments, each exactly once (format 1 also lists the
    // class-0 glyphs inside its span; those carry no information)
    let mut listed: Vec<(u16, u16)> = read.iter().filter(|(_, c)| *c != 0).map(|(g, c)| (g.to_u16(), c)).collect();
    listed.sort();
    let want: Vec<(u16, u16)> = assign.iter().copied().filter(|a| a.1 != 0).collect();
    if listed != want {
        run.violation(&format!("{name}: class def iteration differs (format {fmt})"), &format!("{assign:?}: iter (non-zero) = {listed:?}"), case);
        return;
    }
    // (ClassDef::get takes GlyphId16 only, so there is no 32-bit query to make here)
    let mut h = Fnv::new();
    h.str("cd");
    h.u64(fmt);
    h.u64(assign.len() as u64);
    let mut cs: Vec<u16> = assign.iter().map(|a| a.1).collect();
    cs.sort();
    cs.dedup();
    h.u64(cs.len() as u64);
    l.all.insert(h.finish());
    if assign.iter().any(|a| a.1 != 0) {
        l.nontrivial.insert(h.finish());
    }
    *l.c.entry(if fmt == 1 { "classdef_format1" } else { "classdef_format2" }).or_insert(0) += 1;
}

/// `ClassDefBuilder`: glyphs G6 each assigned to none / class A / B / C; classes added in `order`.
const G6: [u16; 6] = [1, 2, 3, 5, 6, 100];

fn classdef_builder_case(run: &Run, code: u32, order: u8, class0: bool, l: &mut Local) {
    let case = json!({"family":"classdef_builder","code":code,"order":order,"class0":class0});
    let mut sets: Vec<BTreeSet<u16>> = vec![BTreeSet::new(); 3];
    let mut c = code;
    for g in G6 {
        let a = c % 4;
        c /= 4;
        if a > 0 {
            sets[a as usize - 1].insert(g);
        }
    }
    let sets: Vec<BTreeSet<u16>> = sets.into_iter().filter(|s| !s.is_empty()).collect();
    let perm: Vec<usize> = match (sets.len(), order) {
        (_, 0) => (0..sets.len()).collect(),
        (_, _) => (0..sets.len()).rev().collect(),
    };
    l.cases += 1;
    let name = if class0 { "ClassDefBuilder(new_using_class_0)" } else { "ClassDefBuilder" };
    let res = guard(|| {
        let mut b = if class0 { ClassDefBuilder::new_using_class_0() } else { ClassDefBuilder::new() };
        let mut added = vec![];
        for i in &perm {
            let set: read_fonts::collections::IntSet<GlyphId16> = sets[*i].iter().map(|g| gid(*g)).collect();
            added.push(b.checked_add(set));
        }
        // an overlapping, different class must be refused and leave the builder unchanged
        let mut refused_ok = true;
        if let Some(first) = sets.first() {
            let mut overl: BTreeSet<u16> = first.clone();
            overl.insert(4000);
            let set: read_fonts::collections::IntSet<GlyphId16> = overl.iter().map(|g| gid(*g)).collect();
            refused_ok = !b.checked_add(set);
        }
        let (cd, map) = b.build_with_mapping();
        let ids: Vec<Option<u16>> = sets
            .iter()
            .map(|s| {
                let set: read_fonts::collections::IntSet<GlyphId16> = s.iter().map(|g| gid(*g)).collect();
                map.get(&set).copied()
            })
            .collect();
        (added, refused_ok, write_fonts::dump_table(&cd), ids)
    });
    let (added, refused_ok, bytes, ids) = match res {
        Ok(x) => x,
        Err(p) => {
            run.violation(&format!("{name}: panic {} [{}]", p.kind(), p.site()), &format!("{sets:?}: {}", p.message), case);
            return;
        }
    };
    if added.iter().any(|a| !a) || !refused_ok {
        run.violation(&format!("{name}: checked_add answer wrong"), &format!("{sets:?}: added {added:?}, overlapping class refused: {refused_ok}"), case);
        return;
    }
    let Ok(bytes) = bytes else {
        run.violation(&format!("{name}: dump_table error"), &format!("{sets:?}"), case);
        return;
    };
    let read = match rl::ClassDef::read(FontData::new(&bytes)) {
        Ok(r) => r,
        Err(e) => {
            run.violation(&format!("{name}: compiled class def does not read back"), &format!("{sets:?}: {e}"), case);
            return;
        }
    };
    // every class has an id, ids are distinct and form 1..=n (0..n when class 0 is used)
    let mut seen = BTreeSet::new();
    for (s, id) in sets.iter().zip(&ids) {
        let Some(id) = id else {
            run.violation(&format!("{name}: class missing from mapping"), &format!("{sets:?}: {s:?}"), case);
            return;
        };
        seen.insert(*id);
        for g in s {
            let got = read.get(gid(*g));
            if got != *id {
                run.violation(&format!("{name}: class query differs from mapping"), &format!("{sets:?}: glyph {g} reads class {got}, mapping says {id}"), case);
                return;
            }
        }
    }
    let base = if class0 { 0 } else { 1 };
    let want: BTreeSet<u16> = (0..sets.len() as u16).map(|i| i + base).collect();
    if seen != want {
        run.violation(&format!("{name}: class ids not dense/distinct"), &format!("{sets:?}: ids {ids:?}"), case);
        return;
    }
    // glyphs in no class read 0 (checked only when 0 is not itself a class id)
    if !class0 {
        for g in universe() {
            if !sets.iter().any(|s| s.contains(&g)) && read.get(gid(g)) != 0 {
                run.violation(&format!("{name}: unassigned glyph has a class"), &format!("{sets:?}: glyph {g} reads {}", read.get(gid(g))), case);
                return;
            }
        }
    }
    let mut h = Fnv::new();
    h.str("cdb");
    h.u64(sets.len() as u64);
    h.u64(class0 as u64);
    for s in &sets {
        h.u64(s.len() as u64);
    }
    l.all.insert(h.finish());
    if sets.len() >= 2 {
        l.nontrivial.insert(h.finish());
    }
}

#[derive(Default)]
pub struct Local {
    pub all: HashSet<u64>,
    pub nontrivial: HashSet<u64>,
    pub cases: u64,
    pub pairs: u64,
    pub c: BTreeMap<&'static str, u64>,
}

pub fn merge(run: &Run, locals: &[Local], name: &str) {
    let mut cases = 0;
    for l in locals {
        run.observe_many(&l.all, &l.nontrivial);
        cases += l.cases;
        run.count("glyph_pairs_evaluated", l.pairs);
        for (k, v) in &l.c {
            run.count(k, *v);
        }
    }
    run.evals(cases);
    run.trans(cases * 3); // build, compile, read back
    run.count(&format!("cases[{name}]"), cases);
    println!("  {name}: {cases} cases, t={:.1}s", run.elapsed());
}

/// all class assignments of <= 5 glyphs of G10 to CLASSES
fn class_assignments() -> Vec<Vec<(u16, u16)>> {
    let mut out = vec![];
    for mask in 0u32..1024 {
        let gs: Vec<u16> = (0..10).filter(|i| mask & (1 << i) != 0).map(|i| G10[i]).collect();
        if gs.len() > 5 {
            continue;
        }
        let n = 4usize.pow(gs.len() as u32);
        for code in 0..n {
            let mut c = code;
            let a: Vec<(u16, u16)> = gs
                .iter()
                .map(|g| {
                    let cl = CLASSES[c % 4];
                    c /= 4;
                    (*g, cl)
                })
                .collect();
            out.push(a);
        }
    }
    out
}

fn part_a(run: &Run) {
    run.bound("coverage_glyph_alphabet", json!(G10));
    run.bound("classdef_classes", json!(CLASSES));
    let covs: Vec<(u32, u8)> = (0u32..1024).flat_map(|m| (0..4u8).map(move |mode| (m, mode))).collect();
    let locals: Vec<Local> = covs
        .par_iter()
        .fold(Local::default, |mut l, (m, mode)| {
            coverage_case(run, *m, *mode, &mut l);
            l
        })
        .collect();
    merge(run, &locals, "coverage: 2^10 glyph sets x {from_glyphs, add, forced format 1, forced format 2}");
    let assigns = class_assignments();
    let locals: Vec<Local> = assigns
        .par_iter()
        .fold(Local::default, |mut l, a| {
            for mode in 0..3 {
                classdef_case(run, a, mode, &mut l);
            }
            l
        })
        .collect();
    merge(run, &locals, "classdef: assignments of <=5 glyphs to {0,1,2,5} x {heuristic, forced format 1, forced format 2}");
    let codes: Vec<(u32, u8, bool)> = (0u32..4096).flat_map(|c| [(c, 0, false), (c, 1, false), (c, 0, true), (c, 1, true)]).collect();
    let locals: Vec<Local> = codes
        .par_iter()
        .fold(Local::default, |mut l, (c, o, z)| {
            classdef_builder_case(run, *c, *o, *z, &mut l);
            l
        })
        .collect();
    merge(run, &locals, "ClassDefBuilder: 4^6 assignments of 6 glyphs to <=3 classes x 2 insertion orders x class-0 mode");
}

fn body(run: &Run, replay: Option<&Value>) {
    run.rule("a case is one builder input (glyph set / class assignment / pair or mark-base rule set) built by the real builders, compiled with dump_table and re-read with read-fonts; every glyph (pair) of covered ∪ neighbours is queried. distinct = distinct (table kind, chosen formats, number of sub-tables after splitting, extension promotion, size class of the input); non-trivial = non-empty coverage / a non-zero class / a lookup that was split or promoted or mixes formats");
    run.assume("lookup semantics used by the reference walker (OpenType GPOS): sub-tables are tried in order; PairPos format 1 applies iff the first glyph is covered and its PairSet lists the second glyph; format 2 applies iff the first glyph is covered; MarkBasePos applies iff both glyphs are covered and the base has an anchor for the mark's class; an all-zero value record is the same as no adjustment");
    run.assume("class-pair rules: rules are grouped into sub-tables by the documented rule of PairPosBuilder (a rule whose class overlaps, without being equal to, an earlier class of the group starts a new group); within the compiled lookup an earlier group shadows later ones for the first glyphs it covers — the reference model reproduces that grouping, it is not judged");
    run.assume("read-fonts' record parsers (ValueRecord, PairSet, Class1Record, MarkArray, BaseArray, Anchor, Device) are trusted to report the bytes they are given; C05's byte-level decoder covers them independently");
    if let Some(case) = replay {
        let mut l = Local::default();
        match case["family"].as_str().unwrap_or("") {
            "coverage" => coverage_case(run, case["mask"].as_u64().unwrap_or(0) as u32, case["mode"].as_u64().unwrap_or(0) as u8, &mut l),
            "classdef" => {
                let a: Vec<(u16, u16)> = case["assign"].as_array().map(|v| v.iter().map(|p| (p[0].as_u64().unwrap_or(0) as u16, p[1].as_u64().unwrap_or(0) as u16)).collect()).unwrap_or_default();
                classdef_case(run, &a, case["mode"].as_u64().unwrap_or(0) as u8, &mut l)
            }
            "classdef_builder" => classdef_builder_case(run, case["code"].as_u64().unwrap_or(0) as u32, case["order"].as_u64().unwrap_or(0) as u8, case["class0"].as_bool().unwrap_or(false), &mut l),
            f if others::FAMILIES.contains(&f) => others::replay(run, case),
            _ => pairs::replay(run, case),
        }
        return;
    }
    let only = std::env::var("C16_ONLY").unwrap_or_default(); // development aid, never set by ./check
    if only.is_empty() || only == "a" {
        part_a(run);
    }
    if only.is_empty() || only == "b" {
        pairs::part_b(run);
    }
    if only.is_empty() || only == "c" {
        pairs::part_c(run);
    }
    if only.is_empty() || only == "d" {
        others::part_d(run);
    }
    if !only.is_empty() {
        run.cap_hit("C16_ONLY set: only one part was run");
    }
}
