//! (d) The remaining GSUB / GPOS builders: `SingleSubBuilder`, `MultipleSubBuilder`,
//! `AlternateSubBuilder`, `LigatureSubBuilder` (incl. its build-time table splitting),
//! `SinglePosBuilder`, `CursivePosBuilder`, `MarkToMarkBuilder`, `MarkToLigBuilder`.
//!
//! The statement of C16 names coverage/class tables, pair positioning and mark-to-base. These
//! builders are judged only on (i) "coverage tables built from glyph sets answer membership and
//! coverage index as the sets given" (every lookup's covered set equals the rule set's key set,
//! queried through read-fonts' `CoverageTable::get`), and (ii) a rule-for-rule round trip: the
//! compiled lookup, evaluated by a reference walker for its lookup type, returns for every glyph
//! (sequence) of covered ∪ neighbours exactly what the input rules say. LigatureSub with its
//! table splitting additionally serves "splits oversized subtables ... yields the same first-match
//! result".

use crate::model::{anchor, val, RAnchor, RVal, R};
use crate::pairs::{anchor_values, gid, neighbours, rule_values};
use crate::{merge, Local};
use rayon::prelude::*;
use read_fonts::tables::gpos as rg;
use read_fonts::tables::gsub as rs;
use read_fonts::tables::layout as rl;
use read_fonts::{FontData, FontRead};
use serde_json::{json, Value};
use std::collections::{BTreeMap, BTreeSet, HashMap};
use vcore::*;
use write_fonts::tables::gpos as wp;
use write_fonts::tables::gpos::builders as pb;
use write_fonts::tables::gsub as ws;
use write_fonts::tables::gsub::builders as sb;
use write_fonts::tables::layout as wl;
use write_fonts::tables::layout::builders::Builder;
use write_fonts::tables::variations::ivs_builder::VariationStoreBuilder;

#[derive(Clone, Debug)]
pub struct Case {
    pub family: String,
    pub a: u64,
    pub b: u64,
    pub c: u64,
}
impl Case {
    fn new(family: &str, a: u64, b: u64, c: u64) -> Case {
        Case { family: family.into(), a, b, c }
    }
    pub fn to_json(&self) -> Value {
        json!({"family": self.family, "a": self.a, "b": self.b, "c": self.c})
    }
    pub fn from_json(v: &Value) -> Case {
        Case { family: v["family"].as_str().unwrap_or("").into(), a: v["a"].as_u64().unwrap_or(0), b: v["b"].as_u64().unwrap_or(0), c: v["c"].as_u64().unwrap_or(0) }
    }
}

pub const FAMILIES: [&str; 10] = ["single_pos_slots", "single_sub", "multiple_sub", "alternate_sub", "ligature_sub", "ligature_threshold", "single_pos", "cursive_pos", "mark_to_mark", "mark_to_lig"];

// ---------------------------------------------------------------------------
// expected semantics
// ---------------------------------------------------------------------------

enum Expect {
    /// glyph -> replacement sequence (single/multiple), or alternates
    Map(BTreeMap<u16, Vec<u16>>),
    /// ligature rules in insertion order (target sequence, replacement)
    Lig(Vec<(Vec<u16>, u16)>),
    SinglePos(BTreeMap<u16, RVal>),
    Cursive(BTreeMap<u16, (Option<RAnchor>, Option<RAnchor>)>),
    /// marks: glyph -> (class name, anchor); bases: glyph -> component -> class -> anchor
    Marks { marks: HashMap<u16, (String, RAnchor)>, bases: BTreeMap<u16, Vec<HashMap<String, RAnchor>>> },
}

/// longest matching target wins; among equally long ones the first inserted
fn lig_expected(rules: &[&(Vec<u16>, u16)], input: &[u16]) -> Option<(usize, u16)> {
    let mut best: Option<(usize, u16)> = None;
    for (t, r) in rules.iter().copied() {
        if input.len() >= t.len() && &input[..t.len()] == t.as_slice() && best.map(|b| t.len() > b.0).unwrap_or(true) {
            best = Some((t.len(), *r));
        }
    }
    best
}

enum Built {
    Gsub(ws::SubstitutionLookup),
    Gpos(wp::PositionLookup),
}

const SS: [u16; 5] = [1, 2, 3, 0x8001, 0xFFFF];
const SR: [u16; 6] = [1, 2, 4, 0x8002, 0xFFFF, 0];

fn lig_rules_all() -> Vec<Vec<u16>> {
    vec![vec![10], vec![10, 10], vec![10, 11], vec![10, 10, 10], vec![10, 10, 11], vec![10, 11, 10], vec![10, 11, 11], vec![11, 10]]
}

fn build_case(c: &Case) -> (Built, Expect) {
    let mut vs = VariationStoreBuilder::new(0);
    let flag = wl::LookupFlag::empty();
    match c.family.as_str() {
        // 5 targets, each: no rule or one of 6 replacements (base 7); b = 1: the first rule is then
        // inserted again with another replacement (documented: the later insert overwrites)
        "single_sub" => {
            let mut b = sb::SingleSubBuilder::default();
            let mut m = BTreeMap::new();
            let mut code = c.a;
            for t in SS {
                let s = (code % 7) as usize;
                code /= 7;
                if s > 0 {
                    b.insert(gid(t), gid(SR[s - 1]));
                    m.insert(t, vec![SR[s - 1]]);
                }
            }
            if c.b == 1 {
                if let Some((t, r)) = m.iter().next().map(|(t, r)| (*t, r[0])) {
                    let r2 = r.wrapping_add(3);
                    b.insert(gid(t), gid(r2));
                    m.insert(t, vec![r2]);
                }
            }
            (Built::Gsub(ws::SubstitutionLookup::Single(wl::Lookup::new(flag, b.build(&mut vs)))), Expect::Map(m))
        }
        "multiple_sub" | "alternate_sub" => {
            let seqs: [&[u16]; 4] = [&[], &[20], &[20, 21], &[21, 20, 20]];
            let mut m = BTreeMap::new();
            let mut code = c.a;
            let mut mb = sb::MultipleSubBuilder::default();
            let mut ab = sb::AlternateSubBuilder::default();
            for t in [5u16, 6, 8] {
                let s = (code % 5) as usize;
                code /= 5;
                if s > 0 {
                    let seq: Vec<u16> = seqs[s - 1].to_vec();
                    mb.insert(gid(t), seq.iter().map(|g| gid(*g)).collect());
                    ab.insert(gid(t), seq.iter().map(|g| gid(*g)).collect());
                    m.insert(t, seq);
                }
            }
            let built = if c.family == "multiple_sub" {
                ws::SubstitutionLookup::Multiple(wl::Lookup::new(flag, mb.build(&mut vs)))
            } else {
                ws::SubstitutionLookup::Alternate(wl::Lookup::new(flag, ab.build(&mut vs)))
            };
            (Built::Gsub(built), Expect::Map(m))
        }
        // 8 candidate rules present/absent (bits of a); b bit 0: reverse insertion order; b bit 1:
        // every rule is followed by a second rule with the same target and another replacement
        // (the first inserted must win) and by an exact duplicate (must be ignored)
        "ligature_sub" => {
            let mut rules: Vec<(Vec<u16>, u16)> = lig_rules_all().into_iter().enumerate().filter(|(i, _)| c.a & (1 << i) != 0).map(|(i, t)| (t, 100 + i as u16)).collect();
            if c.b & 1 == 1 {
                rules.reverse();
            }
            if c.b & 2 == 2 {
                let extra: Vec<(Vec<u16>, u16)> = rules.iter().flat_map(|(t, r)| [(t.clone(), *r), (t.clone(), r + 50), (t.clone(), *r)]).collect();
                rules = extra;
            }
            let mut b = sb::LigatureSubBuilder::default();
            for (t, r) in &rules {
                b.insert(t.iter().map(|g| gid(*g)).collect(), gid(*r));
            }
            (Built::Gsub(ws::SubstitutionLookup::Ligature(wl::Lookup::new(flag, b.build(&mut vs)))), Expect::Lig(rules))
        }
        // a first glyphs x b ligatures of 3 components each (the last first glyph has c of them):
        // the builder splits the sub-table at build time
        "ligature_threshold" => {
            let mut rules = vec![];
            let mut b = sb::LigatureSubBuilder::default();
            for i in 0..c.a as u16 {
                let n = if i as u64 + 1 == c.a { c.c } else { c.b } as u16;
                for j in 0..n {
                    // targets: [first, 3000+j, 3001+(j%7)] and, for every 5th, a longer one sharing the prefix
                    let mut t = vec![200 + 2 * i, 3000 + j, 4000 + (j % 7)];
                    if j % 5 == 4 {
                        t.push(4100);
                    }
                    let r = 10000 + (i.wrapping_mul(131).wrapping_add(j)) % 20000;
                    b.insert(t.iter().map(|g| gid(*g)).collect(), gid(r));
                    rules.push((t, r));
                }
            }
            (Built::Gsub(ws::SubstitutionLookup::Ligature(wl::Lookup::new(flag, b.build(&mut vs)))), Expect::Lig(rules))
        }
        // 5 glyphs, each: no rule / xAdv 5 / xAdv 7 / xAdv+yPla (4 bytes, shared) / xAdv+Device
        "single_pos" => {
            let mut b = pb::SinglePosBuilder::default();
            let mut m = BTreeMap::new();
            let mut code = c.a;
            for (i, g) in [10u16, 11, 12, 14, 15].iter().enumerate() {
                let s = code % 5;
                code /= 5;
                let (e, vb) = match s {
                    0 => continue,
                    1 => {
                        let mut e = RVal::default();
                        e.v[2] = 5;
                        (e, pb::ValueRecordBuilder::new().with_x_advance(5))
                    }
                    2 => {
                        let mut e = RVal::default();
                        e.v[2] = 7;
                        (e, pb::ValueRecordBuilder::new().with_x_advance(7))
                    }
                    3 => {
                        let mut e = RVal::default();
                        e.v[2] = 5;
                        e.v[1] = -3;
                        (e, pb::ValueRecordBuilder::new().with_x_advance(5).with_y_placement(-3))
                    }
                    _ => {
                        let ((e, _), (vb, _)) = rule_values(2, i as u32, c.b as u32);
                        (e, vb)
                    }
                };
                b.insert(gid(*g), vb);
                m.insert(*g, e);
            }
            (Built::Gpos(wp::PositionLookup::Single(wl::Lookup::new(flag, b.build(&mut vs)))), Expect::SinglePos(m))
        }
        // one glyph (10); a = set of device slots (1..15) carrying a device; b = 0 Device via
        // SinglePosBuilder, 1 Device in a hand-built SinglePos format 1, 2 VariationIndex hand-built
        // (hand-built: only even slots also carry a value, so the format is computed from devices)
        "single_pos_slots" => {
            let mut e = RVal::default();
            let mut vb = pb::ValueRecordBuilder::new();
            let mut wv = wp::ValueRecord::new();
            for slot in 0..4usize {
                if c.a & (1 << slot) == 0 {
                    continue;
                }
                let val = 20 + slot as i16;
                let dv: [i8; 3] = [slot as i8 - 2, 1, -1];
                let st = 9 + slot as u16;
                let (o, i) = (slot as u16 + 1, 200 + slot as u16);
                let with_value = c.b == 0 || slot % 2 == 0;
                if with_value {
                    e.v[slot] = val;
                }
                e.dev[slot] = Some(if c.b == 2 { crate::model::RDev::VarIdx(o, i) } else { crate::model::RDev::expected(st, &dv) });
                let dev = wl::Device::new(st, st + 2, &dv);
                vb = match slot {
                    0 => vb.with_x_placement(val).with_x_placement_device(dev.clone()),
                    1 => vb.with_y_placement(val).with_y_placement_device(dev.clone()),
                    2 => vb.with_x_advance(val).with_x_advance_device(dev.clone()),
                    _ => vb.with_y_advance(val).with_y_advance_device(dev.clone()),
                };
                let d: wl::DeviceOrVariationIndex = if c.b == 2 { wl::VariationIndex::new(o, i).into() } else { dev.into() };
                if with_value {
                    wv = match slot {
                        0 => wv.with_x_placement(val),
                        1 => wv.with_y_placement(val),
                        2 => wv.with_x_advance(val),
                        _ => wv.with_y_advance(val),
                    };
                }
                wv = match slot {
                    0 => wv.with_x_placement_device(d),
                    1 => wv.with_y_placement_device(d),
                    2 => wv.with_x_advance_device(d),
                    _ => wv.with_y_advance_device(d),
                };
            }
            let subs = if c.b == 0 {
                let mut b = pb::SinglePosBuilder::default();
                b.insert(gid(10), vb);
                b.build(&mut vs)
            } else {
                let cov: wl::CoverageTable = [gid(10)].into_iter().collect();
                vec![wp::SinglePos::format_1(cov, wv)]
            };
            (Built::Gpos(wp::PositionLookup::Single(wl::Lookup::new(flag, subs))), Expect::SinglePos(BTreeMap::from([(10u16, e)])))
        }
        // 3 glyphs, each: absent / entry / exit / both / neither anchor; b = anchor style
        "cursive_pos" => {
            let mut b = pb::CursivePosBuilder::default();
            let mut m = BTreeMap::new();
            let mut code = c.a;
            for (i, g) in [10u16, 11, 13].iter().enumerate() {
                let s = code % 5;
                code /= 5;
                if s == 0 {
                    continue;
                }
                let (ee, eb) = anchor_values(c.b as u8, 3 + i as i16, -2, i as u32 * 5);
                let (xe, xb) = anchor_values(c.b as u8, 30 + i as i16, 8, i as u32 * 5 + 1);
                let (entry, exit) = match s {
                    1 => (Some((ee, eb)), None),
                    2 => (None, Some((xe, xb))),
                    3 => (Some((ee, eb)), Some((xe, xb))),
                    _ => (None, None),
                };
                b.insert(gid(*g), entry.as_ref().map(|x| x.1.clone()), exit.as_ref().map(|x| x.1.clone()));
                m.insert(*g, (entry.map(|x| x.0), exit.map(|x| x.0)));
            }
            (Built::Gpos(wp::PositionLookup::Cursive(wl::Lookup::new(flag, b.build(&mut vs)))), Expect::Cursive(m))
        }
        // as the small mark-to-base family: marks 30,31,33 x {absent,a,b}; mark2 glyphs 40,42 x subsets
        "mark_to_mark" => {
            let mut b = pb::MarkToMarkBuilder::default();
            let mut marks = HashMap::new();
            let mut bases: BTreeMap<u16, Vec<HashMap<String, RAnchor>>> = BTreeMap::new();
            let mut code = c.a;
            let mut classes = vec![];
            for (i, g) in [30u16, 31, 33].iter().enumerate() {
                let s = code % 3;
                code /= 3;
                if s > 0 {
                    let name = if s == 1 { "a" } else { "b" };
                    let (e, ab) = anchor_values(c.b as u8, 5 + i as i16, -(i as i16) - 5, i as u32 * 5);
                    let _ = b.insert_mark1(gid(*g), name, ab);
                    marks.insert(*g, (name.to_string(), e));
                    if !classes.contains(&name) {
                        classes.push(name);
                    }
                }
            }
            for (i, g) in [40u16, 42].iter().enumerate() {
                let s = code % 4;
                code /= 4;
                for (bit, name) in [(1, "a"), (2, "b")] {
                    if s & bit != 0 && classes.contains(&name) {
                        let (e, ab) = anchor_values(c.b as u8, 50 + i as i16 * 7 + bit as i16, 9 - bit as i16, (i as u32 + 1) * 5 + bit as u32 - 1);
                        b.insert_mark2(gid(*g), name, ab);
                        let row = bases.entry(*g).or_insert_with(|| vec![HashMap::new()]);
                        row[0].insert(name.to_string(), e);
                    }
                }
            }
            (Built::Gpos(wp::PositionLookup::MarkToMark(wl::Lookup::new(flag, b.build(&mut vs)))), Expect::Marks { marks, bases })
        }
        // marks 30,31 x {absent,a,b} (a % 9); ligature 50 (2 components) and 52 (3 components): for
        // each (ligature, class, component) an anchor is present or not (10 bits of a / 9)
        _ => {
            let mut b = pb::MarkToLigBuilder::default();
            let mut marks = HashMap::new();
            let mut bases: BTreeMap<u16, Vec<HashMap<String, RAnchor>>> = BTreeMap::new();
            let mut code = c.a % 9;
            let bits = c.a / 9;
            let mut classes = vec![];
            for (i, g) in [30u16, 31].iter().enumerate() {
                let s = code % 3;
                code /= 3;
                if s > 0 {
                    let name = if s == 1 { "a" } else { "b" };
                    let (e, ab) = anchor_values(c.b as u8, 5 + i as i16, -(i as i16) - 5, i as u32 * 5);
                    let _ = b.insert_mark(gid(*g), name, ab);
                    marks.insert(*g, (name.to_string(), e));
                    if !classes.contains(&name) {
                        classes.push(name);
                    }
                }
            }
            let mut bit = 0;
            for (g, ncomp) in [(50u16, 2usize), (52, 3)] {
                for name in ["a", "b"] {
                    let mut comps = vec![];
                    let mut exp = vec![];
                    for k in 0..ncomp {
                        let present = bits & (1 << bit) != 0;
                        bit += 1;
                        if present {
                            let (e, ab) = anchor_values(c.b as u8, g as i16 + k as i16 * 3, if name == "a" { 7 } else { -7 }, bit as u32 * 5);
                            comps.push(Some(ab));
                            exp.push(Some(e));
                        } else {
                            comps.push(None);
                            exp.push(None);
                        }
                    }
                    if classes.contains(&name) {
                        b.insert_ligature(gid(g), name, comps);
                        let row = bases.entry(g).or_insert_with(|| vec![HashMap::new(); ncomp]);
                        for (k, e) in exp.into_iter().enumerate() {
                            if let Some(e) = e {
                                row[k].insert(name.to_string(), e);
                            }
                        }
                    }
                }
            }
            (Built::Gpos(wp::PositionLookup::MarkToLig(wl::Lookup::new(flag, b.build(&mut vs)))), Expect::Marks { marks, bases })
        }
    }
}

// ---------------------------------------------------------------------------
// read back + reference walkers
// ---------------------------------------------------------------------------

fn rerr(what: &str, e: read_fonts::ReadError) -> String {
    format!("{what}: {e}")
}

struct Read {
    subtables: usize,
    formats: Vec<u8>,
    extension: bool,
}

fn check_gsub(bytes: &[u8], expect: &Expect, pairs: &mut u64) -> R<Read> {
    let gsub = rs::Gsub::read(FontData::new(bytes)).map_err(|e| rerr("Gsub::read", e))?;
    let list = gsub.lookup_list().map_err(|e| rerr("lookup_list", e))?;
    if list.lookup_count() != 1 {
        return Err(format!("{} lookups", list.lookup_count()));
    }
    let lookup = list.lookups().get(0).map_err(|e| rerr("lookup", e))?;
    let extension = lookup.lookup_type() == 7;
    let mut formats = vec![];
    match (lookup.subtables().map_err(|e| rerr("subtables", e))?, expect) {
        (rs::SubstitutionSubtables::Single(st), Expect::Map(m)) => {
            let subs: Vec<rs::SingleSubst> = st.iter().collect::<Result<_, _>>().map_err(|e| rerr("single sub-table", e))?;
            for s in &subs {
                formats.push(match s {
                    rs::SingleSubst::Format1(_) => 1,
                    rs::SingleSubst::Format2(_) => 2,
                });
            }
            for g in neighbours(SS.iter().copied().chain(m.keys().copied())) {
                *pairs += 1;
                let mut got = None;
                for s in &subs {
                    match s {
                        rs::SingleSubst::Format1(t) => {
                            if t.coverage().map_err(|e| rerr("coverage", e))?.get(gid(g)).is_some() {
                                got = Some((g as i32 + t.delta_glyph_id() as i32).rem_euclid(65536) as u16);
                            }
                        }
                        rs::SingleSubst::Format2(t) => {
                            if let Some(i) = t.coverage().map_err(|e| rerr("coverage", e))?.get(gid(g)) {
                                got = Some(t.substitute_glyph_ids().get(i as usize).ok_or("coverage index beyond substitute array")?.get().to_u16());
                            }
                        }
                    }
                    if got.is_some() {
                        break;
                    }
                }
                let want = m.get(&g).map(|v| v[0]);
                if got != want {
                    return Err(format!("glyph {g}: substitutes to {got:?}, rules say {want:?}"));
                }
            }
            Ok(Read { subtables: subs.len(), formats, extension })
        }
        (rs::SubstitutionSubtables::Multiple(st), Expect::Map(m)) => {
            let subs: Vec<rs::MultipleSubstFormat1> = st.iter().collect::<Result<_, _>>().map_err(|e| rerr("multiple sub-table", e))?;
            for g in neighbours([5u16, 6, 8].into_iter()) {
                *pairs += 1;
                let mut got = None;
                for s in &subs {
                    if let Some(i) = s.coverage().map_err(|e| rerr("coverage", e))?.get(gid(g)) {
                        let seq = s.sequences().get(i as usize).map_err(|e| rerr("sequence", e))?;
                        got = Some(seq.substitute_glyph_ids().iter().map(|x| x.get().to_u16()).collect::<Vec<_>>());
                        break;
                    }
                }
                if got.as_ref() != m.get(&g) {
                    return Err(format!("glyph {g}: sequence {got:?}, rules say {:?}", m.get(&g)));
                }
            }
            Ok(Read { subtables: subs.len(), formats: vec![1; subs.len()], extension })
        }
        (rs::SubstitutionSubtables::Alternate(st), Expect::Map(m)) => {
            let subs: Vec<rs::AlternateSubstFormat1> = st.iter().collect::<Result<_, _>>().map_err(|e| rerr("alternate sub-table", e))?;
            for g in neighbours([5u16, 6, 8].into_iter()) {
                *pairs += 1;
                let mut got = None;
                for s in &subs {
                    if let Some(i) = s.coverage().map_err(|e| rerr("coverage", e))?.get(gid(g)) {
                        let set = s.alternate_sets().get(i as usize).map_err(|e| rerr("alternate set", e))?;
                        got = Some(set.alternate_glyph_ids().iter().map(|x| x.get().to_u16()).collect::<Vec<_>>());
                        break;
                    }
                }
                if got.as_ref() != m.get(&g) {
                    return Err(format!("glyph {g}: alternates {got:?}, rules say {:?}", m.get(&g)));
                }
            }
            Ok(Read { subtables: subs.len(), formats: vec![1; subs.len()], extension })
        }
        (rs::SubstitutionSubtables::Ligature(st), Expect::Lig(rules)) => {
            // extract: per sub-table coverage + ligature sets (in stored order)
            let mut subs: Vec<(rl::CoverageTable, Vec<Vec<(Vec<u16>, u16)>>)> = vec![];
            for s in st.iter() {
                let s = s.map_err(|e| rerr("ligature sub-table", e))?;
                let mut sets = vec![];
                for set in s.ligature_sets().iter() {
                    let set = set.map_err(|e| rerr("ligature set", e))?;
                    let mut ligs = vec![];
                    for l in set.ligatures().iter() {
                        let l = l.map_err(|e| rerr("ligature", e))?;
                        ligs.push((l.component_glyph_ids().iter().map(|x| x.get().to_u16()).collect::<Vec<_>>(), l.ligature_glyph().to_u16()));
                    }
                    sets.push(ligs);
                }
                subs.push((s.coverage().map_err(|e| rerr("coverage", e))?, sets));
            }
            // inputs: for the small family every sequence of length 1..=4 over {9,10,11,12}; for the
            // threshold family every rule target, extended and truncated by one glyph, plus neighbours
            // of the first glyph
            let mut inputs: Vec<Vec<u16>> = vec![];
            if rules.iter().all(|r| r.0[0] < 100) {
                let alpha = [9u16, 10, 11, 12];
                let mut layer: Vec<Vec<u16>> = vec![vec![]];
                for _ in 0..4 {
                    layer = layer.iter().flat_map(|s| alpha.iter().map(move |g| { let mut s2 = s.clone(); s2.push(*g); s2 })).collect();
                    inputs.extend(layer.iter().cloned());
                }
            } else {
                for (t, _) in rules {
                    inputs.push(t.clone());
                    let mut longer = t.clone();
                    longer.push(4100);
                    inputs.push(longer);
                    inputs.push(t[..t.len() - 1].to_vec());
                    for d in [-1i32, 1] {
                        let mut n = t.clone();
                        n[0] = (n[0] as i32 + d) as u16;
                        inputs.push(n);
                    }
                }
            }
            // rules by first glyph, insertion order kept
            let mut by_first: HashMap<u16, Vec<&(Vec<u16>, u16)>> = HashMap::new();
            for r in rules {
                by_first.entry(r.0[0]).or_default().push(r);
            }
            let none = vec![];
            for input in &inputs {
                *pairs += 1;
                // engine: first sub-table covering the first glyph in which some ligature matches;
                // inside a set, the first ligature (stored order) whose components match
                let mut got = None;
                'subs: for (cov, sets) in &subs {
                    if let Some(i) = cov.get(gid(input[0])) {
                        let set = sets.get(i as usize).ok_or("coverage index beyond ligature sets")?;
                        for (comps, lig) in set {
                            if input.len() > comps.len() && &input[1..1 + comps.len()] == comps.as_slice() {
                                got = Some((comps.len() + 1, *lig));
                                break 'subs;
                            }
                        }
                    }
                }
                let want = lig_expected(by_first.get(&input[0]).unwrap_or(&none), input);
                if got != want {
                    return Err(format!("input {input:?}: ligates to {got:?} (length, glyph), rules say {want:?}"));
                }
            }
            let n = subs.len();
            Ok(Read { subtables: n, formats: vec![1; n], extension })
        }
        _ => Err(format!("lookup type {} does not match the builder", lookup.lookup_type())),
    }
}

fn check_gpos(bytes: &[u8], expect: &Expect, pairs: &mut u64) -> R<Read> {
    let gpos = rg::Gpos::read(FontData::new(bytes)).map_err(|e| rerr("Gpos::read", e))?;
    let list = gpos.lookup_list().map_err(|e| rerr("lookup_list", e))?;
    if list.lookup_count() != 1 {
        return Err(format!("{} lookups", list.lookup_count()));
    }
    let lookup = list.lookups().get(0).map_err(|e| rerr("lookup", e))?;
    let extension = lookup.lookup_type() == 9;
    let mut formats = vec![];
    match (lookup.subtables().map_err(|e| rerr("subtables", e))?, expect) {
        (rg::PositionSubtables::Single(st), Expect::SinglePos(m)) => {
            let subs: Vec<rg::SinglePos> = st.iter().collect::<Result<_, _>>().map_err(|e| rerr("single pos sub-table", e))?;
            for g in neighbours([10u16, 11, 12, 14, 15].into_iter()) {
                *pairs += 1;
                let mut got = None;
                for s in &subs {
                    match s {
                        rg::SinglePos::Format1(t) => {
                            if t.coverage().map_err(|e| rerr("coverage", e))?.get(gid(g)).is_some() {
                                got = Some(val(&t.value_record(), t.offset_data())?);
                            }
                        }
                        rg::SinglePos::Format2(t) => {
                            if let Some(i) = t.coverage().map_err(|e| rerr("coverage", e))?.get(gid(g)) {
                                let r = t.value_records().get(i as usize).map_err(|e| rerr("value record", e))?;
                                got = Some(val(&r, t.offset_data())?);
                            }
                        }
                    }
                    if got.is_some() {
                        break;
                    }
                }
                let want = m.get(&g);
                if got.as_ref() != want {
                    return Err(format!("glyph {g}: value {got:?}, rules say {want:?}"));
                }
            }
            for s in &subs {
                formats.push(match s {
                    rg::SinglePos::Format1(_) => 1,
                    rg::SinglePos::Format2(_) => 2,
                });
            }
            Ok(Read { subtables: subs.len(), formats, extension })
        }
        (rg::PositionSubtables::Cursive(st), Expect::Cursive(m)) => {
            let subs: Vec<rg::CursivePosFormat1> = st.iter().collect::<Result<_, _>>().map_err(|e| rerr("cursive sub-table", e))?;
            for g in neighbours([10u16, 11, 13].into_iter()) {
                *pairs += 1;
                let mut got = None;
                for s in &subs {
                    if let Some(i) = s.coverage().map_err(|e| rerr("coverage", e))?.get(gid(g)) {
                        let rec = s.entry_exit_record().get(i as usize).ok_or("coverage index beyond entry/exit records")?;
                        let conv = |a: Option<Result<rg::AnchorTable, read_fonts::ReadError>>| -> R<Option<RAnchor>> {
                            match a {
                                None => Ok(None),
                                Some(a) => Ok(Some(anchor(&a.map_err(|e| rerr("anchor", e))?)?)),
                            }
                        };
                        got = Some((conv(rec.entry_anchor(s.offset_data()))?, conv(rec.exit_anchor(s.offset_data()))?));
                        break;
                    }
                }
                let want = m.get(&g);
                if got.as_ref() != want {
                    return Err(format!("glyph {g}: entry/exit {got:?}, rules say {want:?}"));
                }
            }
            Ok(Read { subtables: subs.len(), formats: vec![1; subs.len()], extension })
        }
        (rg::PositionSubtables::MarkToMark(st), Expect::Marks { marks, bases }) => {
            let mut n = 0;
            // (mark coverage, base coverage, mark records, base rows[component][class])
            let mut subs = vec![];
            for s in st.iter() {
                let t = s.map_err(|e| rerr("mark-mark sub-table", e))?;
                n += 1;
                let ma = t.mark1_array().map_err(|e| rerr("mark1_array", e))?;
                let mut mrecs = vec![];
                for r in ma.mark_records() {
                    mrecs.push((r.mark_class(), anchor(&r.mark_anchor(ma.offset_data()).map_err(|e| rerr("mark anchor", e))?)?));
                }
                let m2 = t.mark2_array().map_err(|e| rerr("mark2_array", e))?;
                let mut rows = vec![];
                for rec in m2.mark2_records().iter() {
                    let rec = rec.map_err(|e| rerr("mark2 record", e))?;
                    let mut row = vec![];
                    for a in rec.mark2_anchors(m2.offset_data()).iter() {
                        row.push(match a {
                            None => None,
                            Some(a) => Some(anchor(&a.map_err(|e| rerr("mark2 anchor", e))?)?),
                        });
                    }
                    rows.push(vec![row]);
                }
                subs.push((t.mark1_coverage().map_err(|e| rerr("mark1_coverage", e))?, t.mark2_coverage().map_err(|e| rerr("mark2_coverage", e))?, mrecs, rows));
            }
            eval_marks(&subs, marks, bases, &[30, 31, 33], &[40, 42], pairs)?;
            Ok(Read { subtables: n, formats: vec![1; n], extension })
        }
        (rg::PositionSubtables::MarkToLig(st), Expect::Marks { marks, bases }) => {
            let mut n = 0;
            let mut subs = vec![];
            for s in st.iter() {
                let t = s.map_err(|e| rerr("mark-lig sub-table", e))?;
                n += 1;
                let ma = t.mark_array().map_err(|e| rerr("mark_array", e))?;
                let mut mrecs = vec![];
                for r in ma.mark_records() {
                    mrecs.push((r.mark_class(), anchor(&r.mark_anchor(ma.offset_data()).map_err(|e| rerr("mark anchor", e))?)?));
                }
                let la = t.ligature_array().map_err(|e| rerr("ligature_array", e))?;
                let mut rows = vec![];
                for att in la.ligature_attaches().iter() {
                    let att = att.map_err(|e| rerr("ligature attach", e))?;
                    let mut comps = vec![];
                    for cr in att.component_records().iter() {
                        let cr = cr.map_err(|e| rerr("component record", e))?;
                        let mut row = vec![];
                        for a in cr.ligature_anchors(att.offset_data()).iter() {
                            row.push(match a {
                                None => None,
                                Some(a) => Some(anchor(&a.map_err(|e| rerr("ligature anchor", e))?)?),
                            });
                        }
                        comps.push(row);
                    }
                    rows.push(comps);
                }
                subs.push((t.mark_coverage().map_err(|e| rerr("mark_coverage", e))?, t.ligature_coverage().map_err(|e| rerr("ligature_coverage", e))?, mrecs, rows));
            }
            eval_marks(&subs, marks, bases, &[30, 31], &[50, 52], pairs)?;
            Ok(Read { subtables: n, formats: vec![1; n], extension })
        }
        _ => Err(format!("lookup type {} does not match the builder", lookup.lookup_type())),
    }
}

type MarkSub<'a> = (rl::CoverageTable<'a>, rl::CoverageTable<'a>, Vec<(u16, RAnchor)>, Vec<Vec<Vec<Option<RAnchor>>>>);

/// (mark, base, component) -> (mark anchor, base anchor): first sub-table covering both glyphs whose
/// base record has an anchor for the mark's class at that component
fn eval_marks(subs: &[MarkSub], marks: &HashMap<u16, (String, RAnchor)>, bases: &BTreeMap<u16, Vec<HashMap<String, RAnchor>>>, mglyphs: &[u16], bglyphs: &[u16], pairs: &mut u64) -> R<()> {
    for m in neighbours(mglyphs.iter().copied()) {
        for b in neighbours(bglyphs.iter().copied()) {
            // coverage membership as the sets given (bases: every glyph with a base entry is covered)
            for comp in 0..4usize {
                *pairs += 1;
                let mut got = None;
                for (mcov, bcov, mrecs, rows) in subs {
                    if let (Some(mi), Some(bi)) = (mcov.get(gid(m)), bcov.get(gid(b))) {
                        let (class, ma) = mrecs.get(mi as usize).ok_or("mark coverage index beyond mark records")?;
                        let comps = rows.get(bi as usize).ok_or("base coverage index beyond base records")?;
                        if let Some(row) = comps.get(comp) {
                            let cell = row.get(*class as usize).ok_or_else(|| format!("mark class {class} outside the base record"))?;
                            if let Some(ba) = cell {
                                got = Some((ma.clone(), ba.clone()));
                                break;
                            }
                        }
                    }
                }
                let want = match (marks.get(&m), bases.get(&b)) {
                    (Some((class, ma)), Some(comps)) => comps.get(comp).and_then(|row| row.get(class)).map(|ba| (ma.clone(), ba.clone())),
                    _ => None,
                };
                if got != want {
                    return Err(format!("(mark {m}, base {b}, component {comp}): anchors {got:?}, rules say {want:?}"));
                }
            }
        }
    }
    // component counts of ligatures as given
    for (b, comps) in bases {
        for (_, bcov, _, rows) in subs {
            if let Some(bi) = bcov.get(gid(*b)) {
                let n = rows.get(bi as usize).map(|r| r.len()).unwrap_or(0);
                if n != comps.len() {
                    return Err(format!("base/ligature {b}: {n} component records, rules gave {}", comps.len()));
                }
            }
        }
    }
    Ok(())
}

pub struct Outcome {
    pub subtables: usize,
    pub formats: Vec<u8>,
    pub extension: bool,
    pub refused: bool,
}

pub fn check(c: &Case, pairs: &mut u64) -> Result<Outcome, (String, String)> {
    let built = guard(|| {
        let (b, e) = build_case(c);
        let bytes = match b {
            Built::Gsub(l) => (true, write_fonts::dump_table(&ws::Gsub::new(Default::default(), Default::default(), wl::LookupList::new(vec![l])))),
            Built::Gpos(l) => (false, write_fonts::dump_table(&wp::Gpos::new(Default::default(), Default::default(), wl::LookupList::new(vec![l])))),
        };
        (bytes, e)
    });
    let ((is_gsub, bytes), expect) = match built {
        Ok(x) => x,
        Err(p) => return Err((format!("panic {} [{}]", p.kind().split_whitespace().collect::<Vec<_>>().join(" "), p.site()), format!("{} at {}:{}", p.message, p.file, p.line))),
    };
    let bytes = match bytes {
        Ok(b) => b,
        Err(write_fonts::error::Error::PackingFailed(_)) => return Ok(Outcome { subtables: 0, formats: vec![], extension: false, refused: true }),
        Err(e) => return Err(("dump_table error".into(), format!("{e}"))),
    };
    let r = if is_gsub { check_gsub(&bytes, &expect, pairs) } else { check_gpos(&bytes, &expect, pairs) };
    match r {
        Ok(r) => Ok(Outcome { subtables: r.subtables, formats: r.formats, extension: r.extension, refused: false }),
        Err(d) => Err(("read-back lookup disagrees with the input rules".into(), d)),
    }
}

pub fn run_case(run: &Run, c: &Case, l: &mut Local) -> Option<Outcome> {
    l.cases += 1;
    let mut pairs = 0;
    let r = check(c, &mut pairs);
    l.pairs += pairs;
    match r {
        Ok(o) => {
            if o.refused {
                *l.c.entry("refused(PackingFailed)").or_insert(0) += 1;
                return Some(o);
            }
            let mut h = Fnv::new();
            h.str(&c.family);
            h.u64(o.subtables as u64);
            for f in &o.formats {
                h.u64(*f as u64);
            }
            h.u64(o.extension as u64);
            l.all.insert(h.finish());
            if o.subtables >= 1 {
                l.nontrivial.insert(h.finish());
            }
            Some(o)
        }
        Err((class, detail)) => {
            // identity: builder family + failing clause + first words of the detail without numbers
            let kind: String = detail.split(':').next().unwrap_or("").chars().filter(|ch| !ch.is_ascii_digit()).take(40).collect();
            run.violation(&format!("{}: {class} ({})", c.family, kind.trim()), &format!("{c:?}: {detail}"), c.to_json());
            None
        }
    }
}

pub fn replay(run: &Run, case: &Value) {
    let c = Case::from_json(case);
    let mut l = Local::default();
    if let Some(o) = run_case(run, &c, &mut l) {
        println!("replay: subtables={} formats={:?} extension={} refused={}", o.subtables, o.formats, o.extension, o.refused);
    }
}

fn run_cases(run: &Run, cases: &[Case], name: &str) -> BTreeMap<usize, u64> {
    let res: Vec<(Local, BTreeMap<usize, u64>)> = cases
        .par_iter()
        .fold(
            || (Local::default(), BTreeMap::new()),
            |(mut l, mut h), c| {
                if let Some(o) = run_case(run, c, &mut l) {
                    *h.entry(o.subtables).or_insert(0) += 1;
                }
                (l, h)
            },
        )
        .collect();
    let mut hist = BTreeMap::new();
    let mut locals = vec![];
    for (l, h) in res {
        locals.push(l);
        for (k, v) in h {
            *hist.entry(k).or_insert(0) += v;
        }
    }
    merge(run, &locals, name);
    hist
}

pub fn part_d(run: &Run) {
    let quick = run.tier == Tier::Quick;
    run.extra("part_d_serves", json!("statement clauses served by part (d): 'coverage tables built from glyph sets answer membership and coverage index exactly as the sets given' (every builder's coverage is queried for covered ∪ neighbours) and, for LigatureSubBuilder's build-time splitting, 'however the compiler splits oversized subtables ... the same first-match result'; the rule-for-rule round trip of GSUB single/multiple/alternate/ligature, GPOS single/cursive/mark-to-mark/mark-to-ligature goes beyond the lookup types the statement names and is reported under its own identities"));
    let mut cases = vec![];
    for code in 0..7u64.pow(5) {
        cases.push(Case::new("single_sub", code, 0, 0));
        if code % 7 != 0 {
            cases.push(Case::new("single_sub", code, 1, 0));
        }
    }
    run_cases(run, &cases, "SingleSubBuilder: 7^5 partial maps over {1,2,3,0x8001,0xFFFF} -> {1,2,4,0x8002,0xFFFF,0} (format 1 delta / format 2), with overwrite variant");
    let mut cases = vec![];
    for code in 0..125 {
        cases.push(Case::new("multiple_sub", code, 0, 0));
        cases.push(Case::new("alternate_sub", code, 0, 0));
    }
    run_cases(run, &cases, "MultipleSubBuilder / AlternateSubBuilder: 5^3 maps of 3 glyphs to sequences of length 0..3");
    let mut cases = vec![];
    for code in 0..256 {
        for v in 0..4 {
            cases.push(Case::new("ligature_sub", code, v, 0));
        }
    }
    run_cases(run, &cases, "LigatureSubBuilder: 2^8 rule sets over targets of length 1..3 x {order, reversed} x {plain, conflicting+duplicate rules}; inputs = all sequences of length <=4 over 4 glyphs");
    // LigatureSub threshold: for target = 2, 3, 4 sub-tables find (by bisection on the real builder,
    // placement only) the first k whose lookup has that many sub-tables; then sweep the size of the
    // last ligature set for k-1, k and k+1 first glyphs: the boundary is crossed one ligature at a time
    let m = 100u64;
    let kts: Vec<u64> = (2..=4usize)
        .into_par_iter()
        .map(|target| {
            let n = |k: u64| {
                let mut p = 0;
                check(&Case::new("ligature_threshold", k, m, m), &mut p).map(|o| o.subtables).unwrap_or(usize::MAX)
            };
            let (mut lo, mut hi) = (1u64, 32u64);
            while n(hi) < target && hi < 1024 {
                lo = hi + 1;
                hi *= 2;
            }
            while lo < hi {
                let mid = (lo + hi) / 2;
                if n(mid) >= target {
                    hi = mid;
                } else {
                    lo = mid + 1;
                }
            }
            lo
        })
        .collect();
    let mut cases = vec![];
    for kt in kts {
        for k in kt.saturating_sub(1).max(1)..=kt + 1 {
            let lasts: Vec<u64> = if quick { vec![0, 1, 25, 50, 75, 99, 100] } else { (0..=100).collect() };
            for last in lasts {
                cases.push(Case::new("ligature_threshold", k, m, last));
            }
        }
    }
    let hist = run_cases(run, &cases, "LigatureSubBuilder build-time splitting: k first glyphs x 100 ligatures (last set swept) across the 1|2, 2|3, 3|4 sub-table boundaries");
    run.extra("subtable_count_histogram[ligature_sub]", json!(hist.iter().map(|(k, v)| (k.to_string(), *v)).collect::<BTreeMap<_, _>>()));
    if hist.len() < 2 && hist.values().sum::<u64>() == cases.len() as u64 {
        run.machinery_error(&format!("ligature threshold family never changed the number of sub-tables ({hist:?})"));
    }
    let mut cases = vec![];
    for code in 0..5u64.pow(5) {
        cases.push(Case::new("single_pos", code, 0, 0));
    }
    run_cases(run, &cases, "SinglePosBuilder: 5^5 maps of 5 glyphs to {none, xAdv 5, xAdv 7, xAdv+yPla, xAdv+Device} (format 1/2 choice, grouping by record and by value format)");
    let mut cases = vec![];
    for mask in 1..16 {
        for kind in 0..3 {
            cases.push(Case::new("single_pos_slots", mask, kind, 0));
        }
    }
    run_cases(run, &cases, "SinglePos device slots: every non-empty subset of the 4 device slots x {Device via SinglePosBuilder, Device hand-built, VariationIndex hand-built}");
    let mut cases = vec![];
    for code in 0..125 {
        for style in 0..3 {
            cases.push(Case::new("cursive_pos", code, style, 0));
        }
    }
    run_cases(run, &cases, "CursivePosBuilder: 5^3 maps of 3 glyphs to {absent, entry, exit, both, neither} x 3 anchor styles");
    let mut cases = vec![];
    for code in 0..(27 * 16) {
        for style in 0..3 {
            cases.push(Case::new("mark_to_mark", code, style, 0));
        }
    }
    run_cases(run, &cases, "MarkToMarkBuilder: 3 marks x {absent,a,b} x 2 base marks x subsets of {a,b} x 3 anchor styles");
    let mut cases = vec![];
    for code in 0..(9 * 1024) {
        cases.push(Case::new("mark_to_lig", code, (code % 3) as u64, 0));
    }
    run_cases(run, &cases, "MarkToLigBuilder: 2 marks x {absent,a,b} x ligatures of 2 and 3 components x every subset of (ligature, class, component) anchors");
    let _ = BTreeSet::<u8>::new();
}
