//! (b) small exhaustive rule sets and (c) threshold families for PairPosBuilder / MarkToBaseBuilder.
//!
//! Every case is described by a handful of integers (`Case`), from which the rule set, the write-side
//! table and the expected semantics are derived deterministically.

use crate::model::{read_gpos, RAnchor, RDev, RVal};
use crate::{merge, Local};
use rayon::prelude::*;
use read_fonts::collections::IntSet;
use serde_json::{json, Value};
use std::collections::{BTreeSet, HashMap};
use vcore::*;
use write_fonts::tables::gpos as w;
use write_fonts::tables::gpos::builders::{AnchorBuilder, MarkToBaseBuilder, PairPosBuilder, ValueRecordBuilder};
use write_fonts::tables::layout as wl;
use write_fonts::tables::layout::builders::Builder;
use write_fonts::tables::variations::ivs_builder::VariationStoreBuilder;
use write_fonts::types::GlyphId16;

pub fn gid(g: u16) -> GlyphId16 {
    GlyphId16::new(g)
}

pub fn neighbours(gs: impl Iterator<Item = u16>) -> Vec<u16> {
    let mut s = BTreeSet::new();
    for g in gs {
        s.insert(g);
        s.insert(g.saturating_sub(1));
        s.insert(g.saturating_add(1));
    }
    s.into_iter().collect()
}

// ---------------------------------------------------------------------------
// rule values
// ---------------------------------------------------------------------------

/// Device table content for rule (a, b): start size 9 + a % 5 and three 2-bit deltas taken from
/// (31 a + 7 b) mod 125, so that device tables of different rules are different objects (a mix-up
/// of device offsets between rules must be visible): 625 distinct tables.
fn device_vals(a: u32, b: u32) -> (u16, [i8; 3]) {
    // deltas from -2..=2: +2 sits just outside the 2-bit range, so some tables are 2-bit and some 4-bit
    let h = (31 * a + 7 * b) % 125;
    (9 + (a % 5) as u16, [(h % 5) as i8 - 2, ((h / 5) % 5) as i8 - 2, ((h / 25) % 5) as i8 - 2])
}

/// A second, disjoint family of device tables (start sizes 20..=24) for value record 2, so that a
/// record-2 offset that is linked to a record-1 device object is always visible.
fn device_vals2(a: u32, b: u32) -> (u16, [i8; 3]) {
    let h = (13 * a + 29 * b + 5) % 125;
    (20 + (b % 5) as u16, [(h % 5) as i8 - 2, ((h / 5) % 5) as i8 - 2, ((h / 25) % 5) as i8 - 2])
}

/// style: 0 = xAdv, 1 = xAdv+yPla | xPla, 2 = xAdv + Device, 3 = xAdv + VariationIndex (direct
/// construction only), 4 = xAdv + Device | xPla + another Device (both value records carry their
/// own, distinct device tables), 5 = xAdv + VariationIndex | xPla + Device (direct only),
/// 6/7/8 = xAdv + value and Device in the xPlacement / yPlacement / yAdvance slot.
/// Returns (expected pair, builder pair).
pub fn rule_values(style: u8, a: u32, b: u32) -> ((RVal, RVal), (ValueRecordBuilder, ValueRecordBuilder)) {
    let adv = ((a * 7 + b) % 30000) as i16 + 1;
    let mut e1 = RVal::default();
    let mut e2 = RVal::default();
    e1.v[2] = adv;
    let mut b1 = ValueRecordBuilder::new().with_x_advance(adv);
    let mut b2 = ValueRecordBuilder::new();
    match style {
        1 => {
            let yp = -((a % 100) as i16) - 1;
            let xp2 = (b % 50) as i16 + 1;
            b1 = b1.with_y_placement(yp);
            b2 = b2.with_x_placement(xp2);
            e1.v[1] = yp;
            e2.v[0] = xp2;
        }
        2 => {
            let (st, dv) = device_vals(a, b);
            b1 = b1.with_x_advance_device(wl::Device::new(st, st + 2, &dv));
            e1.dev[2] = Some(RDev::expected(st, &dv));
        }
        4 => {
            let (st, dv) = device_vals(a, b);
            b1 = b1.with_x_advance_device(wl::Device::new(st, st + 2, &dv));
            e1.dev[2] = Some(RDev::expected(st, &dv));
            let xp2 = (b % 50) as i16 + 1;
            let (st2, dv2) = device_vals2(a, b);
            b2 = b2.with_x_placement(xp2).with_x_placement_device(wl::Device::new(st2, st2 + 2, &dv2));
            e2.v[0] = xp2;
            e2.dev[0] = Some(RDev::expected(st2, &dv2));
        }
        // 6 / 7 / 8: xAdv + a value AND its own Device in the xPlacement / yPlacement / yAdvance slot
        // (style 2 has the Device in the xAdvance slot): every device slot occurs alone
        6 | 7 | 8 => {
            let slot = [0usize, 1, 3][style as usize - 6];
            let (st, dv) = device_vals(a, b);
            let dev = wl::Device::new(st, st + 2, &dv);
            let val = -((a % 40) as i16) - 2;
            b1 = match slot {
                0 => b1.with_x_placement(val).with_x_placement_device(dev),
                1 => b1.with_y_placement(val).with_y_placement_device(dev),
                _ => b1.with_y_advance(val).with_y_advance_device(dev),
            };
            e1.v[slot] = val;
            e1.dev[slot] = Some(RDev::expected(st, &dv));
        }
        _ => {}
    }
    ((e1, e2), (b1, b2))
}

/// Boundary-complete device delta sets: every single delta on and next to a format boundary
/// (2-bit: -2..=1, 4-bit: -8..=7, 8-bit: -128..=127), mixes of a boundary value with small values,
/// and size ranges of length 1, 8, 9 (2-bit word boundary), 4, 5 (4-bit), 2, 3 (8-bit).
pub fn device_delta_sets() -> Vec<Vec<i8>> {
    let mut v: Vec<Vec<i8>> = [0i8, 1, 2, -2, -3, 7, 8, -8, -9, 127, -128].iter().map(|d| vec![*d]).collect();
    v.extend([
        vec![1, 2], vec![-2, 2], vec![-2, 1], vec![2, 0, 0], vec![7, 8, -8], vec![8, 0], vec![-9, 7], vec![-8, 7], vec![127, -128], vec![0, 0, 0],
        vec![1, -2, 1, -2, 1, -2, 1, -2],          // 2-bit, exactly one word
        vec![1, -2, 1, -2, 1, -2, 1, -2, 1],       // 2-bit, nine values: second word
        vec![0, 0, 0, 0, 0, 0, 0, 0, 2],           // a +2 in the ninth slot: 4-bit, three words
        vec![7, -8, 7, -8],                        // 4-bit, exactly one word
        vec![7, -8, 7, -8, 3],                     // 4-bit, five values
        vec![0, 0, 0, 8],                          // a +8: 8-bit, two words
        vec![127, -128, 100],                      // 8-bit, three values
        vec![-3, 1, 0, 0, 0],
    ]);
    v
}

pub fn anchor_values(style: u8, x: i16, y: i16, salt: u32) -> (RAnchor, AnchorBuilder) {
    match (style, salt % 5) {
        (1, 0) | (1, 3) => (
            RAnchor { x, y, point: Some(salt as u16 % 40), xdev: None, ydev: None },
            AnchorBuilder::new(x, y).with_contourpoint(salt as u16 % 40),
        ),
        (2, 0) | (2, 1) => {
            let (st, dv) = device_vals(salt, salt / 3);
            (
                RAnchor { x, y, point: None, xdev: Some(RDev::expected(st, &dv)), ydev: None },
                AnchorBuilder::new(x, y).with_x_device(wl::Device::new(st, st + 2, &dv)),
            )
        }
        _ => (RAnchor { x, y, point: None, xdev: None, ydev: None }, AnchorBuilder::new(x, y)),
    }
}

// ---------------------------------------------------------------------------
// reference model of a pair rule set
// ---------------------------------------------------------------------------

/// one group of class rules == one format-2 sub-table
#[derive(Default)]
struct Group {
    c1: Vec<BTreeSet<u16>>,
    c2: Vec<BTreeSet<u16>>,
    g1: HashMap<u16, usize>,
    g2: HashMap<u16, usize>,
    rules: HashMap<(usize, usize), (RVal, RVal)>,
}

impl Group {
    /// Some(index) if `set` is already a class, None+true if it is disjoint from every class
    /// (can be added), None+false if it overlaps a different class (needs a new group)
    fn find(sets: &[BTreeSet<u16>], gmap: &HashMap<u16, usize>, set: &BTreeSet<u16>) -> (Option<usize>, bool) {
        let hits: BTreeSet<Option<usize>> = set.iter().map(|g| gmap.get(g).copied()).collect();
        if hits.len() == 1 {
            match hits.into_iter().next().unwrap() {
                None => (None, true),
                Some(i) if &sets[i] == set => (Some(i), true),
                Some(_) => (None, false),
            }
        } else {
            (None, false)
        }
    }
    fn intern(sets: &mut Vec<BTreeSet<u16>>, gmap: &mut HashMap<u16, usize>, set: &BTreeSet<u16>) -> usize {
        if let (Some(i), _) = Self::find(sets, gmap, set) {
            return i;
        }
        sets.push(set.clone());
        for g in set {
            gmap.insert(*g, sets.len() - 1);
        }
        sets.len() - 1
    }
}

#[derive(Default)]
struct PairModel {
    glyph_rules: HashMap<(u16, u16), (RVal, RVal)>,
    /// groups of class rules, in order
    groups: Vec<Group>,
    firsts: BTreeSet<u16>,
    seconds: BTreeSet<u16>,
}

impl PairModel {
    fn add_glyph_rule(&mut self, g1: u16, g2: u16, v: (RVal, RVal)) {
        // first rule for a pair wins
        self.glyph_rules.entry((g1, g2)).or_insert(v);
        self.firsts.insert(g1);
        self.seconds.insert(g2);
    }
    /// the documented grouping rule of PairPosBuilder: a rule joins the current group iff each of its
    /// classes is either already a class of the group or disjoint from all of the group's classes
    fn add_class_rule(&mut self, c1: &BTreeSet<u16>, c2: &BTreeSet<u16>, v: (RVal, RVal)) {
        let ok = self
            .groups
            .last()
            .map(|g| Group::find(&g.c1, &g.g1, c1).1 && Group::find(&g.c2, &g.g2, c2).1)
            .unwrap_or(false);
        if !ok {
            self.groups.push(Group::default());
        }
        let g = self.groups.last_mut().unwrap();
        let i = Group::intern(&mut g.c1, &mut g.g1, c1);
        let j = Group::intern(&mut g.c2, &mut g.g2, c2);
        g.rules.insert((i, j), v);
        self.firsts.extend(c1.iter());
        self.seconds.extend(c2.iter());
    }
    fn eval(&self, g1: u16, g2: u16) -> Option<(RVal, RVal)> {
        if let Some(v) = self.glyph_rules.get(&(g1, g2)) {
            return Some(v.clone());
        }
        for g in &self.groups {
            if let Some(i) = g.g1.get(&g1) {
                // the first group covering g1 decides (later groups are shadowed)
                return g.g2.get(&g2).and_then(|j| g.rules.get(&(*i, *j)).cloned());
            }
        }
        None
    }
}

/// read-fonts' decoding of device deltas vs the deltas the harness put in (only when the raw
/// words already agree)
fn pair_decoded_differs(got: &Option<(RVal, RVal)>, want: &Option<(RVal, RVal)>) -> bool {
    match (got, want) {
        (Some(g), Some(w)) => (0..4).any(|i| RDev::decoded_differs(&g.0.dev[i], &w.0.dev[i]) || RDev::decoded_differs(&g.1.dev[i], &w.1.dev[i])),
        _ => false,
    }
}

/// 32-bit glyph ids whose low 16 bits are `g`
pub fn alias_ids(g: u16) -> [u32; 2] {
    [0x1_0000 | g as u32, 0xFFFF_0000 | g as u32]
}

fn same_pair(got: &Option<(RVal, RVal)>, want: &Option<(RVal, RVal)>) -> bool {
    match (got, want) {
        (Some(g), Some(w)) => g == w,
        (None, None) => true,
        (Some(g), None) => g.0.is_zero() && g.1.is_zero(),
        (None, Some(w)) => w.0.is_zero() && w.1.is_zero(),
    }
}

// ---------------------------------------------------------------------------
// cases
// ---------------------------------------------------------------------------

#[derive(Clone, Debug)]
pub struct Case {
    /// "glyph_pairs" | "class_pairs" | "mark_base" (small exhaustive) |
    /// "pair1_threshold" | "pair2_threshold" | "mark_base_threshold"
    pub family: String,
    /// small families: the rule-set code; threshold families: k (first glyphs / class1 count / marks)
    pub a: u64,
    /// small: variant (insertion order, extra duplicate rule, ...); threshold: m (seconds / class2 / bases)
    pub b: u64,
    /// threshold: number of records of the last first glyph (pair1), unused otherwise
    pub last: u64,
    pub style: u8,
    /// first-glyph layout: 0 contiguous (format 2, one range), 1 every other glyph (format 1),
    /// 2 runs of five with gaps (format 2, many ranges)
    pub cov: u8,
    /// filler lookups (each ~33 KB) placed before and after the lookup under test; 3 = three fillers
    /// of which the first is ~87 KB and is itself split
    pub filler: u8,
    /// 0: through the builder; 1: direct construction of the write-fonts table (needed for style 3)
    pub direct: u8,
}

impl Case {
    fn small(family: &str, a: u64, b: u64) -> Case {
        Case { family: family.into(), a, b, last: 0, style: 0, cov: 0, filler: 0, direct: 0 }
    }
    pub fn to_json(&self) -> Value {
        json!({"family": self.family, "a": self.a, "b": self.b, "last": self.last, "style": self.style, "cov": self.cov, "filler": self.filler, "direct": self.direct})
    }
    pub fn from_json(v: &Value) -> Case {
        let g = |k: &str| v[k].as_u64().unwrap_or(0);
        Case { family: v["family"].as_str().unwrap_or("").into(), a: g("a"), b: g("b"), last: g("last"), style: g("style") as u8, cov: g("cov") as u8, filler: g("filler") as u8, direct: g("direct") as u8 }
    }
    fn class(&self) -> String {
        if self.family == "mark_base_shared" {
            format!("mark2base shared-anchor pattern={} cov={} filler={}", ["all-distinct", "one-anchor-per-base", "pairwise-shared", "shared-device"][self.style as usize % 4], self.cov, self.filler)
        } else if self.family == "split_slots" {
            format!(
                "split_slots route={} kind={} filler={}",
                ["PairPosBuilder(format 2)", "hand-built format 2", "hand-built format 1"][self.direct as usize % 3],
                ["Device", "VariationIndex", "mixed"][self.style as usize % 3],
                self.filler
            )
        } else if self.family == "pair2_multi" {
            format!("pair2_multi layout={} route={} filler={}", ["block", "strided", "varied"][(self.last >> 8) as usize % 3], if self.direct == 1 { "hand-built" } else { "PairPosBuilder" }, self.filler)
        } else if self.family == "subtable_order" {
            format!("subtable_order arrangement={} filler={}", ["small,BIG1,small", "BIG1,small format 2", "BIG2,small", "small,BIG2", "builder: glyph pairs + class rule", "builder: two value formats"][self.style as usize % 6], self.filler)
        } else if self.family == "pair1_shared" {
            format!("pair1_shared filler={}", self.filler)
        } else if self.family == "mark_base_split_dev" {
            format!("mark_base_split_dev kind={} filler={}", ["Device", "VariationIndex", "mixed"][self.style as usize % 3], self.filler)
        } else if self.family.ends_with("threshold") {
            format!("{} style={} cov={} filler={} {}", self.family, self.style, self.cov, self.filler, if self.direct == 1 { "direct" } else { "builder" })
        } else {
            self.family.clone()
        }
    }
}

enum Expect {
    Pair(PairModel),
    MarkBase { marks: HashMap<u16, (String, RAnchor)>, bases: HashMap<u16, HashMap<String, RAnchor>> },
}

fn first_glyph(cov: u8, i: u32) -> u16 {
    (match cov {
        0 => 100 + i,
        1 => 100 + 2 * i,
        // runs of five with one-glyph gaps: format 2 with many ranges (5 glyphs cost 6 < 10 bytes)
        2 => 100 + i + i / 5,
        // contiguous, in the upper half of the 16-bit range (above every second glyph)
        _ => 61000 + i,
    }) as u16
}
fn second_glyph(j: u32) -> u16 {
    (30000 + 2 * j) as u16
}

/// filler lookup: `rows` (30: about 33 KB; 80: about 87 KB, must itself be split) first glyphs x 273
/// seconds of plain pairs on its own glyph block
fn filler_lookup(n: u32, rows: u32, model: &mut PairModel) -> w::PositionLookup {
    let mut b = PairPosBuilder::default();
    for i in 0..rows {
        for j in 0..273u32 {
            let (e, (b1, b2)) = rule_values(0, 1000 * (n + 1) + i, j);
            let (g1, g2) = ((20000 + 100 * n + i) as u16, second_glyph(j));
            b.insert_pair(gid(g1), b1, gid(g2), b2);
            model.add_glyph_rule(g1, g2, e);
        }
    }
    let subs = b.build(&mut VariationStoreBuilder::new(0));
    w::PositionLookup::Pair(wl::Lookup::new(wl::LookupFlag::empty(), subs))
}

const F3: [u16; 3] = [10, 11, 13];
const S3: [u16; 3] = [20, 21, 23];

/// Build the lookup under test and its expected semantics.
fn build_case(c: &Case) -> (w::PositionLookup, Expect) {
    let mut vs = VariationStoreBuilder::new(0);
    match c.family.as_str() {
        // 9 potential glyph pairs, each: no rule / style 0 / style 1 / style 2 (code in base 4).
        // variant b: 0 = row-major insertion; 1 = reverse insertion; 2 = row-major, then every rule
        // inserted again with other values (must be ignored: the first rule for a pair wins)
        "glyph_pairs" => {
            let mut b = PairPosBuilder::default();
            let mut m = PairModel::default();
            let mut rules = vec![];
            let mut code = c.a;
            for (i, g1) in F3.iter().enumerate() {
                for (j, g2) in S3.iter().enumerate() {
                    let s = code % 4;
                    code /= 4;
                    if s > 0 {
                        rules.push((*g1, *g2, s as u8 - 1, (i * 3 + j) as u32));
                    }
                }
            }
            if c.b == 1 {
                rules.reverse();
            }
            for (g1, g2, s, n) in &rules {
                let (e, (b1, b2)) = rule_values(*s, 10 + n, *n);
                b.insert_pair(gid(*g1), b1, gid(*g2), b2);
                m.add_glyph_rule(*g1, *g2, e);
            }
            if c.b == 2 {
                for (g1, g2, s, n) in &rules {
                    let (e, (b1, b2)) = rule_values((*s + 1) % 3, 500 + n, 7 * n);
                    b.insert_pair(gid(*g1), b1, gid(*g2), b2);
                    m.add_glyph_rule(*g1, *g2, e);
                }
            }
            // the universe must not be empty even without rules
            m.firsts.extend(F3);
            m.seconds.extend(S3);
            let subs = b.build(&mut vs);
            (w::PositionLookup::Pair(wl::Lookup::new(wl::LookupFlag::empty(), subs)), Expect::Pair(m))
        }
        // 9 potential class rules over first classes {10,11},{13},{11,13} and second classes
        // {20,21},{23},{21,23}: each absent / style 0 / style 1 (code in base 3); variant b:
        // bit 0 = reverse insertion order; bits 1.. = which fixed glyph-pair rules precede them
        "class_pairs" => {
            let c1s: [BTreeSet<u16>; 3] = [[10, 11].into(), [13].into(), [11, 13].into()];
            let c2s: [BTreeSet<u16>; 3] = [[20, 21].into(), [23].into(), [21, 23].into()];
            let mut b = PairPosBuilder::default();
            let mut m = PairModel::default();
            match c.b >> 1 {
                1 => {
                    let (e, (b1, b2)) = rule_values(0, 900, 1);
                    b.insert_pair(gid(10), b1, gid(20), b2);
                    m.add_glyph_rule(10, 20, e);
                }
                2 => {
                    for (g1, g2, s, n) in [(11u16, 21u16, 1u8, 2u32), (13, 23, 0, 3)] {
                        let (e, (b1, b2)) = rule_values(s, 900 + n, n);
                        b.insert_pair(gid(g1), b1, gid(g2), b2);
                        m.add_glyph_rule(g1, g2, e);
                    }
                }
                _ => {}
            }
            let mut rules = vec![];
            let mut code = c.a;
            for i in 0..3 {
                for j in 0..3 {
                    let s = code % 3;
                    code /= 3;
                    if s > 0 {
                        rules.push((i, j, s as u8 - 1));
                    }
                }
            }
            if c.b & 1 == 1 {
                rules.reverse();
            }
            for (i, j, s) in rules {
                let (e, (b1, b2)) = rule_values(s, 40 + (i * 3 + j) as u32, 5 * j as u32);
                let s1: IntSet<GlyphId16> = c1s[i].iter().map(|g| gid(*g)).collect();
                let s2: IntSet<GlyphId16> = c2s[j].iter().map(|g| gid(*g)).collect();
                b.insert_classes(s1, b1, s2, b2);
                m.add_class_rule(&c1s[i], &c2s[j], e);
            }
            m.firsts.extend(F3);
            m.seconds.extend(S3);
            let subs = b.build(&mut vs);
            (w::PositionLookup::Pair(wl::Lookup::new(wl::LookupFlag::empty(), subs)), Expect::Pair(m))
        }
        // one rule whose device table carries delta set a (see `device_delta_sets`), on carrier b:
        // 0 glyph-pair record 1 xAdvDevice, 1 glyph-pair record 2 xPlaDevice, 2 class-pair record 1
        // yPlaDevice, 3 mark anchor x device, 4 base anchor y device
        "device_boundary" => {
            let dv = device_delta_sets()[c.a as usize].clone();
            let dev = wl::Device::new(9, 9 + dv.len() as u16 - 1, &dv);
            let exp = RDev::expected(9, &dv);
            match c.b {
                0 | 1 | 2 => {
                    let mut b = PairPosBuilder::default();
                    let mut m = PairModel::default();
                    let mut e1 = RVal::default();
                    let mut e2 = RVal::default();
                    e1.v[2] = 5;
                    let mut b1 = ValueRecordBuilder::new().with_x_advance(5);
                    let mut b2 = ValueRecordBuilder::new();
                    match c.b {
                        0 => {
                            b1 = b1.with_x_advance_device(dev);
                            e1.dev[2] = Some(exp);
                        }
                        1 => {
                            b2 = b2.with_x_placement(3).with_x_placement_device(dev);
                            e2.v[0] = 3;
                            e2.dev[0] = Some(exp);
                        }
                        _ => {
                            b1 = b1.with_y_placement(-4).with_y_placement_device(dev);
                            e1.v[1] = -4;
                            e1.dev[1] = Some(exp);
                        }
                    }
                    if c.b == 2 {
                        let (c1, c2): (BTreeSet<u16>, BTreeSet<u16>) = ([10, 11].into(), [20, 21].into());
                        let s1: IntSet<GlyphId16> = c1.iter().map(|g| gid(*g)).collect();
                        let s2: IntSet<GlyphId16> = c2.iter().map(|g| gid(*g)).collect();
                        b.insert_classes(s1, b1, s2, b2);
                        m.add_class_rule(&c1, &c2, (e1, e2));
                    } else {
                        b.insert_pair(gid(10), b1, gid(20), b2);
                        m.add_glyph_rule(10, 20, (e1, e2));
                    }
                    let subs = b.build(&mut vs);
                    (w::PositionLookup::Pair(wl::Lookup::new(wl::LookupFlag::empty(), subs)), Expect::Pair(m))
                }
                _ => {
                    let mut b = MarkToBaseBuilder::default();
                    let (mut ma, mut ba) = (AnchorBuilder::new(5, -5), AnchorBuilder::new(50, 9));
                    let mut em = RAnchor { x: 5, y: -5, point: None, xdev: None, ydev: None };
                    let mut eb = RAnchor { x: 50, y: 9, point: None, xdev: None, ydev: None };
                    if c.b == 3 {
                        ma = ma.with_x_device(dev);
                        em.xdev = Some(exp);
                    } else {
                        ba = ba.with_y_device(dev);
                        eb.ydev = Some(exp);
                    }
                    let _ = b.insert_mark(gid(30), "a", ma);
                    b.insert_base(gid(40), "a", ba);
                    let marks = HashMap::from([(30u16, ("a".to_string(), em))]);
                    let bases = HashMap::from([(40u16, HashMap::from([("a".to_string(), eb)]))]);
                    let subs = b.build(&mut vs);
                    (w::PositionLookup::MarkToBase(wl::Lookup::new(wl::LookupFlag::empty(), subs)), Expect::MarkBase { marks, bases })
                }
            }
        }
        // class-pair rules whose class sets overlap in the INTERIOR of a contiguous run of another
        // class (e.g. {15,30} and {10..=20}): sequences of <= 3 distinct rules out of
        // 2 first classes x 6 second classes; a = the sequence in base 13 (digit 0 = end)
        "class_pairs_interior" => {
            let firsts: [BTreeSet<u16>; 2] = [[1, 2].into(), [3, 4].into()];
            let seconds: [BTreeSet<u16>; 6] = [[15, 30].into(), (10..=20).collect(), [12, 13].into(), [15].into(), [30, 31].into(), [9, 10].into()];
            let mut b = PairPosBuilder::default();
            let mut m = PairModel::default();
            let mut code = c.a;
            let mut n = 0;
            while code % 13 != 0 {
                let r = (code % 13 - 1) as usize;
                code /= 13;
                // variant b = 1 swaps the roles: the interval-like sets are FIRST classes
                let (c1, c2) = if c.b == 0 { (&firsts[r / 6], &seconds[r % 6]) } else { (&seconds[r % 6], &firsts[r / 6]) };
                let (e, (b1, b2)) = rule_values((n % 2) as u8, 60 + r as u32, n);
                let s1: IntSet<GlyphId16> = c1.iter().map(|g| gid(*g)).collect();
                let s2: IntSet<GlyphId16> = c2.iter().map(|g| gid(*g)).collect();
                b.insert_classes(s1, b1, s2, b2);
                m.add_class_rule(c1, c2, e);
                n += 1;
            }
            let subs = b.build(&mut vs);
            (w::PositionLookup::Pair(wl::Lookup::new(wl::LookupFlag::empty(), subs)), Expect::Pair(m))
        }
        // one glyph-pair rule (10,20); a = mask1 | mask2 << 4: the set of device slots
        // (bit 0 xPla, 1 yPla, 2 xAdv, 3 yAdv) carrying a device on value record 1 / 2;
        // b = 0: Device via PairPosBuilder::insert_pair, 1: Device in a hand-built PairPosFormat1,
        // 2: VariationIndex in a hand-built PairPosFormat1. In the hand-built variants only the even
        // slots also carry a value (a record whose format is COMPUTED from device fields alone).
        "device_slots" => {
            let masks = [c.a & 15, (c.a >> 4) & 15];
            let mut m = PairModel::default();
            let mut exp = [RVal::default(), RVal::default()];
            let mut bld = [ValueRecordBuilder::new(), ValueRecordBuilder::new()];
            let mut dir = [w::ValueRecord::new(), w::ValueRecord::new()];
            for r in 0..2usize {
                for slot in 0..4usize {
                    if masks[r] & (1 << slot) == 0 {
                        continue;
                    }
                    let val = 10 * (r as i16 + 1) + slot as i16;
                    let (st, dv) = device_vals(slot as u32, r as u32 + 7);
                    let (o, i) = (slot as u16 + 1, 100 + 10 * r as u16 + slot as u16);
                    let with_value = c.b == 0 || slot % 2 == 0;
                    if with_value {
                        exp[r].v[slot] = val;
                    }
                    exp[r].dev[slot] = Some(if c.b == 2 { RDev::VarIdx(o, i) } else { RDev::expected(st, &dv) });
                    let dev = wl::Device::new(st, st + 2, &dv);
                    let b0 = std::mem::take(&mut bld[r]);
                    bld[r] = match slot {
                        0 => b0.with_x_placement(val).with_x_placement_device(dev.clone()),
                        1 => b0.with_y_placement(val).with_y_placement_device(dev.clone()),
                        2 => b0.with_x_advance(val).with_x_advance_device(dev.clone()),
                        _ => b0.with_y_advance(val).with_y_advance_device(dev.clone()),
                    };
                    let d: wl::DeviceOrVariationIndex = if c.b == 2 { wl::VariationIndex::new(o, i).into() } else { dev.into() };
                    let mut d0 = std::mem::take(&mut dir[r]);
                    if with_value {
                        d0 = match slot {
                            0 => d0.with_x_placement(val),
                            1 => d0.with_y_placement(val),
                            2 => d0.with_x_advance(val),
                            _ => d0.with_y_advance(val),
                        };
                    }
                    dir[r] = match slot {
                        0 => d0.with_x_placement_device(d),
                        1 => d0.with_y_placement_device(d),
                        2 => d0.with_x_advance_device(d),
                        _ => d0.with_y_advance_device(d),
                    };
                }
            }
            let [e1, e2] = exp;
            m.add_glyph_rule(10, 20, (e1, e2));
            let subs = if c.b == 0 {
                let mut b = PairPosBuilder::default();
                let [b1, b2] = bld;
                b.insert_pair(gid(10), b1, gid(20), b2);
                b.build(&mut vs)
            } else {
                let [w1, w2] = dir;
                let cov: wl::CoverageTable = [gid(10)].into_iter().collect();
                vec![w::PairPos::format_1(cov, vec![w::PairSet::new(vec![w::PairValueRecord::new(gid(20), w1, w2)])])]
            };
            (w::PositionLookup::Pair(wl::Lookup::new(wl::LookupFlag::empty(), subs)), Expect::Pair(m))
        }
        // marks 30,31,33: absent / class "a" / class "b" (base 3); bases 40,42: subset of {a,b}
        // (base 4 each, restricted to classes that have a mark); variant b = anchor style
        "mark_base" => {
            let mut b = MarkToBaseBuilder::default();
            let mut marks = HashMap::new();
            let mut bases: HashMap<u16, HashMap<String, RAnchor>> = HashMap::new();
            let mut code = c.a;
            let mut classes = vec![];
            for (i, g) in [30u16, 31, 33].iter().enumerate() {
                let s = code % 3;
                code /= 3;
                if s > 0 {
                    let name = if s == 1 { "a" } else { "b" };
                    let (e, ab) = anchor_values(c.b as u8, 5 + i as i16, -(i as i16) - 5, i as u32 * 5);
                    let _ = b.insert_mark(gid(*g), name, ab);
                    marks.insert(*g, (name.to_string(), e));
                    if !classes.contains(&name) {
                        classes.push(name);
                    }
                }
            }
            for (i, g) in [40u16, 42].iter().enumerate() {
                let s = code % 4;
                code /= 4;
                for (bit, name) in [(1, "a"), (2, "b")] {
                    if s & bit != 0 && classes.contains(&name) {
                        let (e, ab) = anchor_values(c.b as u8, 50 + i as i16 * 7 + bit as i16, 9 - bit as i16, (i as u32 + 1) * 5 + bit as u32 - 1);
                        b.insert_base(gid(*g), name, ab);
                        bases.entry(*g).or_default().insert(name.to_string(), e);
                    }
                }
            }
            let subs = b.build(&mut vs);
            (w::PositionLookup::MarkToBase(wl::Lookup::new(wl::LookupFlag::empty(), subs)), Expect::MarkBase { marks, bases })
        }
        // k first glyphs x m seconds; the last first glyph has only `last` records
        "pair1_threshold" => {
            let (k, mm) = (c.a as u32, c.b as u32);
            let mut m = PairModel::default();
            let mut b = PairPosBuilder::default();
            let mut sets = vec![];
            for i in 0..k {
                let n = if i + 1 == k { c.last as u32 } else { mm };
                let g1 = first_glyph(c.cov, i);
                let mut recs = vec![];
                for j in 0..n {
                    let g2 = second_glyph(j);
                    if c.direct == 1 {
                        let (e, wv) = direct_values(c.style, i, j);
                        m.add_glyph_rule(g1, g2, e);
                        recs.push(w::PairValueRecord::new(gid(g2), wv.0, wv.1));
                    } else {
                        let (e, (b1, b2)) = rule_values(c.style, i, j);
                        m.add_glyph_rule(g1, g2, e);
                        b.insert_pair(gid(g1), b1, gid(g2), b2);
                    }
                }
                m.firsts.insert(g1);
                sets.push(w::PairSet::new(recs));
            }
            let subs = if c.direct == 1 {
                let cov: wl::CoverageTable = (0..k).map(|i| gid(first_glyph(c.cov, i))).collect();
                vec![w::PairPos::format_1(cov, sets)]
            } else {
                b.build(&mut vs)
            };
            (w::PositionLookup::Pair(wl::Lookup::new(wl::LookupFlag::empty(), subs)), Expect::Pair(m))
        }
        // k singleton first classes x m singleton second classes, every class pair has a rule
        "pair2_threshold" => {
            let (k, mm) = (c.a as u32, c.b as u32);
            let mut m = PairModel::default();
            if c.direct == 1 {
                // hand-made format-2 sub-table: class1 i = {first_glyph(i)} (class 0 is first_glyph(0),
                // covered but absent from the class def), class2 j+1 = {second_glyph(j)}, class2 0 =
                // everything else (explicit-format zero records)
                let cov: wl::CoverageTable = (0..k).map(|i| gid(first_glyph(c.cov, i))).collect();
                let cd1: wl::ClassDef = (1..k).map(|i| (gid(first_glyph(c.cov, i)), i as u16)).collect();
                let cd2: wl::ClassDef = (0..mm).map(|j| (gid(second_glyph(j)), j as u16 + 1)).collect();
                let (_, (f1, f2)) = direct_values(c.style, 0, 0);
                let zero = w::Class2Record::new(
                    w::ValueRecord::new().with_explicit_value_format(f1.format()),
                    w::ValueRecord::new().with_explicit_value_format(f2.format()),
                );
                let mut rows = vec![];
                for i in 0..k {
                    let mut row = vec![zero.clone()];
                    for j in 0..mm {
                        let (e, (w1, w2)) = direct_values(c.style, i, j);
                        m.add_class_rule(&[first_glyph(c.cov, i)].into(), &[second_glyph(j)].into(), e);
                        row.push(w::Class2Record::new(w1, w2));
                    }
                    rows.push(w::Class1Record::new(row));
                }
                let subs = vec![w::PairPos::format_2(cov, cd1, cd2, rows)];
                return (w::PositionLookup::Pair(wl::Lookup::new(wl::LookupFlag::empty(), subs)), Expect::Pair(m));
            }
            let mut b = PairPosBuilder::default();
            for i in 0..k {
                for j in 0..mm {
                    let (g1, g2) = (first_glyph(c.cov, i), second_glyph(j));
                    let (e, (b1, b2)) = rule_values(c.style, i, j);
                    let s1: IntSet<GlyphId16> = [gid(g1)].into_iter().collect();
                    let s2: IntSet<GlyphId16> = [gid(g2)].into_iter().collect();
                    b.insert_classes(s1, b1, s2, b2);
                    m.add_class_rule(&[g1].into(), &[g2].into(), e);
                }
            }
            let subs = b.build(&mut vs);
            (w::PositionLookup::Pair(wl::Lookup::new(wl::LookupFlag::empty(), subs)), Expect::Pair(m))
        }
        // k marks (one class each) x m bases whose base anchors are SHARED between mark classes (the
        // compiler de-duplicates identical Anchor / Device tables, so one object is referenced from
        // classes that land on different sides of a split point). style = share pattern:
        // 0 all distinct, 1 one anchor per base for all classes, 2 classes share pairwise (2t, 2t+1),
        // 3 distinct anchors whose x Device table is shared per base
        "mark_base_shared" => {
            let (k, mm) = (c.a as u32, c.b as u32);
            let mut b = MarkToBaseBuilder::default();
            let mut marks = HashMap::new();
            let mut bases: HashMap<u16, HashMap<String, RAnchor>> = HashMap::new();
            for i in 0..k {
                let name = format!("c{i}");
                let (x, y) = (i as i16 + 1, -(i as i16) - 1);
                let _ = b.insert_mark(gid(first_glyph(c.cov, i)), &name, AnchorBuilder::new(x, y));
                marks.insert(first_glyph(c.cov, i), (name, RAnchor { x, y, point: None, xdev: None, ydev: None }));
            }
            for j in 0..mm {
                for i in 0..k {
                    let n = j * k + i;
                    if n % 17 == 16 {
                        continue;
                    }
                    let (x, y) = match c.style {
                        1 => (100 + j as i16, -(j as i16)),
                        2 => (100 + j as i16, (i / 2) as i16),
                        _ => ((n % 30011) as i16, j as i16),
                    };
                    let mut e = RAnchor { x, y, point: None, xdev: None, ydev: None };
                    let mut ab = AnchorBuilder::new(x, y);
                    if c.style == 3 {
                        let (st, dv) = device_vals(j, 0);
                        ab = ab.with_x_device(wl::Device::new(st, st + 2, &dv));
                        e.xdev = Some(RDev::expected(st, &dv));
                    }
                    let name = format!("c{i}");
                    b.insert_base(gid(second_glyph(j)), &name, ab);
                    bases.entry(second_glyph(j)).or_default().insert(name, e);
                }
            }
            let subs = b.build(&mut vs);
            (w::PositionLookup::MarkToBase(wl::Lookup::new(wl::LookupFlag::empty(), subs)), Expect::MarkBase { marks, bases })
        }
        // SPLIT x DEVICE SLOTS. k rows x m columns of pair rules whose value records carry sparse
        // device slots: `last` = mask1 | mask2 << 4 (device slots of the value FORMAT of record 1 / 2:
        // bit 0 xPla, 1 yPla, 2 xAdv, 3 yAdv); in every record each slot of the mask is non-null or
        // null by a pattern that cycles through all 2^|mask| subsets along every row, so that for
        // every two slots of the format "exactly one of them non-null" occurs in every split piece.
        // Content is distinct per (slot, record, rule). style = kind (0 Device, 1 VariationIndex,
        // 2 Device in even / VariationIndex in odd slots). direct = route: 1 hand-built PairPos
        // format 2, 0 PairPosBuilder::insert_classes (format 2; Device only), 2 hand-built PairPos
        // format 1. k is chosen by the planner so that the sub-table must be split.
        "split_slots" => {
            let (k, mm) = (c.a as u32, c.b as u32);
            let masks = [(c.last & 15) as u8, ((c.last >> 4) & 15) as u8];
            let mut m = PairModel::default();
            match c.direct {
                1 => {
                    let cov: wl::CoverageTable = (0..k).map(|i| gid(first_glyph(c.cov, i))).collect();
                    let cd1: wl::ClassDef = (1..k).map(|i| (gid(first_glyph(c.cov, i)), i as u16)).collect();
                    let cd2: wl::ClassDef = (0..mm).map(|j| (gid(second_glyph(j)), j as u16 + 1)).collect();
                    let (f1, f2) = split_formats(c.style, masks);
                    let zero = w::Class2Record::new(w::ValueRecord::new().with_explicit_value_format(f1), w::ValueRecord::new().with_explicit_value_format(f2));
                    let mut rows = vec![];
                    for i in 0..k {
                        let mut row = vec![zero.clone()];
                        for j in 0..mm {
                            let (e, (w1, w2)) = split_direct(c.style, masks, i, j, false);
                            m.add_glyph_rule(first_glyph(c.cov, i), second_glyph(j), e);
                            row.push(w::Class2Record::new(w1.with_explicit_value_format(f1), w2.with_explicit_value_format(f2)));
                        }
                        rows.push(w::Class1Record::new(row));
                    }
                    let subs = vec![w::PairPos::format_2(cov, cd1, cd2, rows)];
                    (w::PositionLookup::Pair(wl::Lookup::new(wl::LookupFlag::empty(), subs)), Expect::Pair(m))
                }
                2 => {
                    let cov: wl::CoverageTable = (0..k).map(|i| gid(first_glyph(c.cov, i))).collect();
                    let (f1, f2) = split_formats(c.style, masks);
                    let mut sets = vec![];
                    for i in 0..k {
                        let mut recs = vec![];
                        for j in 0..mm {
                            let (e, (w1, w2)) = split_direct(c.style, masks, i, j, false);
                            m.add_glyph_rule(first_glyph(c.cov, i), second_glyph(j), e);
                            recs.push(w::PairValueRecord::new(gid(second_glyph(j)), w1.with_explicit_value_format(f1), w2.with_explicit_value_format(f2)));
                        }
                        sets.push(w::PairSet::new(recs));
                    }
                    let subs = vec![w::PairPos::format_1(cov, sets)];
                    (w::PositionLookup::Pair(wl::Lookup::new(wl::LookupFlag::empty(), subs)), Expect::Pair(m))
                }
                _ => {
                    let mut b = PairPosBuilder::default();
                    for i in 0..k {
                        for j in 0..mm {
                            let (g1, g2) = (first_glyph(c.cov, i), second_glyph(j));
                            let (e, (b1, b2)) = split_builder(masks, i, j);
                            let s1: IntSet<GlyphId16> = [gid(g1)].into_iter().collect();
                            let s2: IntSet<GlyphId16> = [gid(g2)].into_iter().collect();
                            b.insert_classes(s1, b1, s2, b2);
                            m.add_glyph_rule(g1, g2, e);
                        }
                    }
                    let subs = b.build(&mut vs);
                    (w::PositionLookup::Pair(wl::Lookup::new(wl::LookupFlag::empty(), subs)), Expect::Pair(m))
                }
            }
        }
        // MULTI-GLYPH CLASSES in a PairPos format 2 that must be split. k first classes of g glyphs
        // (`last` = g | layout << 8: layout 0 one contiguous block per class, 1 strided: class i =
        // {100 + t k + i}, so every class has g ranges and the coverage is one run, 2 blocks of
        // varying size 1 + (5 i) mod g, which makes ClassDefBuilder's size-first ordering permute the
        // classes) x m second classes of three glyphs; every class pair has a rule (value style
        // `style`). direct = 0: PairPosBuilder::insert_classes, 1: hand-built (class i has id i;
        // class 0's glyphs are covered but absent from the class def).
        "pair2_multi" => {
            let (k, mm) = (c.a as u32, c.b as u32);
            let (g, layout) = ((c.last & 255) as u32, (c.last >> 8) as u32);
            let mut m = PairModel::default();
            let mut start = 100u32;
            let mut c1s: Vec<BTreeSet<u16>> = vec![];
            for i in 0..k {
                let set: BTreeSet<u16> = match layout {
                    0 => (0..g).map(|t| (100 + i * g + t) as u16).collect(),
                    1 => (0..g).map(|t| (100 + t * k + i) as u16).collect(),
                    _ => {
                        let n = 1 + (5 * i) % g;
                        let s: BTreeSet<u16> = (0..n).map(|t| (start + t) as u16).collect();
                        start += n + (i % 2); // a one-glyph gap after every other class
                        s
                    }
                };
                c1s.push(set);
            }
            let c2s: Vec<BTreeSet<u16>> = (0..mm).map(|j| (0..3).map(|t| second_glyph(3 * j + t)).collect()).collect();
            if c.direct == 1 {
                let cov: wl::CoverageTable = c1s.iter().flatten().map(|g| gid(*g)).collect::<BTreeSet<_>>().into_iter().collect();
                let cd1: wl::ClassDef = c1s.iter().enumerate().skip(1).flat_map(|(i, s)| s.iter().map(move |g| (gid(*g), i as u16))).collect();
                let cd2: wl::ClassDef = c2s.iter().enumerate().flat_map(|(j, s)| s.iter().map(move |g| (gid(*g), j as u16 + 1))).collect();
                let (_, (f1, f2)) = direct_values(c.style, 0, 0);
                let zero = w::Class2Record::new(w::ValueRecord::new().with_explicit_value_format(f1.format()), w::ValueRecord::new().with_explicit_value_format(f2.format()));
                let mut rows = vec![];
                for i in 0..k {
                    let mut row = vec![zero.clone()];
                    for j in 0..mm {
                        let (e, (w1, w2)) = direct_values(c.style, i, j);
                        m.add_class_rule(&c1s[i as usize], &c2s[j as usize], e);
                        row.push(w::Class2Record::new(w1, w2));
                    }
                    rows.push(w::Class1Record::new(row));
                }
                let subs = vec![w::PairPos::format_2(cov, cd1, cd2, rows)];
                return (w::PositionLookup::Pair(wl::Lookup::new(wl::LookupFlag::empty(), subs)), Expect::Pair(m));
            }
            let mut b = PairPosBuilder::default();
            for i in 0..k {
                for j in 0..mm {
                    let (e, (b1, b2)) = rule_values(c.style, i, j);
                    let s1: IntSet<GlyphId16> = c1s[i as usize].iter().map(|g| gid(*g)).collect();
                    let s2: IntSet<GlyphId16> = c2s[j as usize].iter().map(|g| gid(*g)).collect();
                    b.insert_classes(s1, b1, s2, b2);
                    m.add_class_rule(&c1s[i as usize], &c2s[j as usize], e);
                }
            }
            let subs = b.build(&mut vs);
            (w::PositionLookup::Pair(wl::Lookup::new(wl::LookupFlag::empty(), subs)), Expect::Pair(m))
        }
        // SUB-TABLE ORDER across a split. Hand-built lookups of several sub-tables whose rules overlap,
        // so that first-match depends on the split pieces staying at the position of the sub-table
        // they replace. BIG = k first glyphs x 100 seconds (format 1) or k x 33 singleton classes
        // (format 2), large enough to be split. `style` = arrangement:
        // 0: [X small format 1, BIG format 1, Y small format 1] (X, Y: pairs of BIG's first/last/middle
        //    first glyphs with seconds inside and outside BIG, other values),
        // 1: [BIG format 1, small format 2 covering every first glyph of BIG, one rule for all seconds],
        // 2: [BIG format 2, Y small format 1] (BIG covers its first glyphs for every second glyph, so
        //    Y only shows for a first glyph outside BIG),
        // 3: [X small format 1, BIG format 2].
        "subtable_order" => {
            let k = c.a as u32;
            let mut m = PairModel::default();
            let plain = |adv: i16| -> ((RVal, RVal), (w::ValueRecord, w::ValueRecord)) {
                let mut e1 = RVal::default();
                e1.v[2] = adv;
                ((e1, RVal::default()), (w::ValueRecord::new().with_x_advance(adv), w::ValueRecord::new()))
            };
            let firsts: Vec<u16> = (0..k).map(|i| first_glyph(c.cov, i)).collect();
            let outside = first_glyph(c.cov, k + 3);
            // the small format-1 sub-tables: first glyphs {first, middle, last of BIG, one outside}
            // x seconds {0, 50, 99 for X / 1, 51, 98 for Y (inside BIG), 200 + which (outside BIG)}
            let small = |which: u32, m: &mut PairModel, record: bool| -> w::PairPos {
                let fs: BTreeSet<u16> = [firsts[0], firsts[k as usize / 2], firsts[k as usize - 1], outside].into();
                let mut sets = vec![];
                for (a, g1) in fs.iter().enumerate() {
                    let mut recs = vec![];
                    for (bq, j) in [which, 50 + which, 99 - which, 200 + which].iter().enumerate() {
                        let (e, (w1, w2)) = plain(20000 + 1000 * which as i16 + 10 * a as i16 + bq as i16);
                        if record {
                            m.add_glyph_rule(*g1, second_glyph(*j), e);
                        }
                        recs.push(w::PairValueRecord::new(gid(second_glyph(*j)), w1, w2));
                    }
                    sets.push(w::PairSet::new(recs));
                }
                w::PairPos::format_1(fs.iter().map(|g| gid(*g)).collect(), sets)
            };
            let big1 = |m: &mut PairModel| -> w::PairPos {
                let mut sets = vec![];
                for i in 0..k {
                    let mut recs = vec![];
                    for j in 0..100u32 {
                        let (e, (w1, w2)) = plain(((i * 7 + j) % 15000) as i16 + 1);
                        m.add_glyph_rule(firsts[i as usize], second_glyph(j), e);
                        recs.push(w::PairValueRecord::new(gid(second_glyph(j)), w1, w2));
                    }
                    sets.push(w::PairSet::new(recs));
                }
                w::PairPos::format_1(firsts.iter().map(|g| gid(*g)).collect(), sets)
            };
            // every second glyph a later sub-table or a query could use
            let all_seconds: Vec<u16> = neighbours((0..100u32).chain([200, 201, 300]).map(second_glyph));
            // BIG format 2: class1 i = {firsts[i]} (class 0 = firsts[0], covered, absent from the class
            // def), class2 j + 1 = {second_glyph(j)} for j < 33; it answers for EVERY second glyph
            let big2 = |m: &mut PairModel| -> w::PairPos {
                let cd1: wl::ClassDef = (1..k).map(|i| (gid(firsts[i as usize]), i as u16)).collect();
                let cd2: wl::ClassDef = (0..33u32).map(|j| (gid(second_glyph(j)), j as u16 + 1)).collect();
                let zero = w::Class2Record::new(w::ValueRecord::new().with_explicit_value_format(w::ValueFormat::X_ADVANCE), w::ValueRecord::new());
                let mut rows = vec![];
                for i in 0..k {
                    let mut row = vec![zero.clone()];
                    for j in 0..33u32 {
                        let (e, (w1, w2)) = plain(((i * 7 + j) % 15000) as i16 + 1);
                        m.add_glyph_rule(firsts[i as usize], second_glyph(j), e);
                        row.push(w::Class2Record::new(w1, w2));
                    }
                    rows.push(w::Class1Record::new(row));
                    // the zero records shadow every later sub-table for this first glyph
                    for g2 in &all_seconds {
                        m.add_glyph_rule(firsts[i as usize], *g2, (RVal::default(), RVal::default()));
                    }
                }
                w::PairPos::format_2(firsts.iter().map(|g| gid(*g)).collect(), cd1, cd2, rows)
            };
            if c.style >= 4 {
                // through PairPosBuilder. 4: glyph pairs BIG1 + one class rule over all first glyphs x
                // seconds {0, 50, 300} (the builder puts glyph-pair sub-tables first). 5: glyph pairs
                // whose records have two value formats (seconds < 50 xAdv only, >= 50 xAdv+yPla|xPla):
                // two format-1 sub-tables covering the same first glyphs, both split
                let mut b = PairPosBuilder::default();
                for i in 0..k {
                    for j in 0..100u32 {
                        let st = if c.style == 5 && j >= 50 { 1 } else { 0 };
                        let (e, (b1, b2)) = rule_values(st, i, j);
                        b.insert_pair(gid(firsts[i as usize]), b1, gid(second_glyph(j)), b2);
                        m.add_glyph_rule(firsts[i as usize], second_glyph(j), e);
                    }
                }
                if c.style == 4 {
                    let (e, (b1, b2)) = rule_values(0, 26000, 0);
                    let s1: IntSet<GlyphId16> = firsts.iter().map(|g| gid(*g)).collect();
                    let s2: IntSet<GlyphId16> = [0u32, 50, 300].iter().map(|j| gid(second_glyph(*j))).collect();
                    b.insert_classes(s1, b1, s2, b2);
                    for g1 in &firsts {
                        for j in [0u32, 50, 300] {
                            m.add_glyph_rule(*g1, second_glyph(j), e.clone());
                        }
                    }
                }
                m.seconds.extend([200u32, 201, 300].map(second_glyph));
                let subs = b.build(&mut vs);
                return (w::PositionLookup::Pair(wl::Lookup::new(wl::LookupFlag::empty(), subs)), Expect::Pair(m));
            }
            let subs = match c.style {
                0 => {
                    let x = small(0, &mut m, true);
                    let b = big1(&mut m);
                    let y = small(1, &mut m, true);
                    vec![x, b, y]
                }
                1 => {
                    let b = big1(&mut m);
                    // one class of all BIG first glyphs x one class of seconds {0, 50, 300}
                    let cd1: wl::ClassDef = firsts.iter().map(|g| (gid(*g), 1u16)).collect();
                    let cd2: wl::ClassDef = [0u32, 50, 300].iter().map(|j| (gid(second_glyph(*j)), 1u16)).collect();
                    let (e, (w1, w2)) = plain(27000);
                    let zero = w::Class2Record::new(w::ValueRecord::new().with_explicit_value_format(w::ValueFormat::X_ADVANCE), w::ValueRecord::new());
                    let rows = vec![w::Class1Record::new(vec![zero.clone(), zero.clone()]), w::Class1Record::new(vec![zero, w::Class2Record::new(w1, w2)])];
                    for g1 in &firsts {
                        for j in [0u32, 50, 300] {
                            m.add_glyph_rule(*g1, second_glyph(j), e.clone());
                        }
                    }
                    vec![b, w::PairPos::format_2(firsts.iter().map(|g| gid(*g)).collect(), cd1, cd2, rows)]
                }
                2 => {
                    let b = big2(&mut m);
                    let y = small(1, &mut m, true);
                    vec![b, y]
                }
                _ => {
                    let x = small(0, &mut m, true);
                    let b = big2(&mut m);
                    vec![x, b]
                }
            };
            m.firsts.insert(outside);
            m.seconds.extend([200u32, 201, 300].map(second_glyph));
            (w::PositionLookup::Pair(wl::Lookup::new(wl::LookupFlag::empty(), subs)), Expect::Pair(m))
        }
        // SHARED PAIR SETS across split points. Hand-built PairPos format 1: k first glyphs, first
        // glyph i uses PairSet (i mod t) of t = `last` distinct sets of m records each (identical
        // PairSet tables are one object in the compiled graph, referenced from several split pieces).
        "pair1_shared" => {
            let (k, mm, t) = (c.a as u32, c.b as u32, c.last.max(1) as u32);
            let mut m = PairModel::default();
            let mut sets = vec![];
            for i in 0..k {
                let mut recs = vec![];
                for j in 0..mm {
                    let (e, wv) = direct_values(0, i % t, j);
                    m.add_glyph_rule(first_glyph(c.cov, i), second_glyph(j), e);
                    recs.push(w::PairValueRecord::new(gid(second_glyph(j)), wv.0, wv.1));
                }
                sets.push(w::PairSet::new(recs));
            }
            let cov: wl::CoverageTable = (0..k).map(|i| gid(first_glyph(c.cov, i))).collect();
            let subs = vec![w::PairPos::format_1(cov, sets)];
            (w::PositionLookup::Pair(wl::Lookup::new(wl::LookupFlag::empty(), subs)), Expect::Pair(m))
        }
        // SPLIT x ANCHOR DEVICES. Hand-built MarkBasePos: k mark classes with `last` marks each
        // (mark t of the coverage has class t mod k, so coverage order interleaves the classes),
        // m bases; every anchor (mark and base) has x / y device presence (t or i+j) mod 4 in
        // {none, x only, y only, both} with content distinct per axis, side and rule; every 17th
        // base anchor is missing. style = kind (0 Device, 1 VariationIndex, 2 x Device + y VariationIndex).
        "mark_base_split_dev" => {
            let (k, mm, per) = (c.a as u32, c.b as u32, c.last.max(1) as u32);
            let mut marks = HashMap::new();
            let mut bases: HashMap<u16, HashMap<String, RAnchor>> = HashMap::new();
            let mut mark_glyphs = vec![];
            let mut mark_recs = vec![];
            for t in 0..k * per {
                let g = first_glyph(c.cov, t);
                let class = t % k;
                let (e, a) = split_anchor(c.style, false, t, t % 4, t as i16 + 1, -(t as i16) - 1);
                mark_glyphs.push(gid(g));
                mark_recs.push(w::MarkRecord::new(class as u16, a));
                marks.insert(g, (format!("c{class}"), e));
            }
            let mut base_glyphs = vec![];
            let mut base_recs = vec![];
            for j in 0..mm {
                let g = second_glyph(j);
                base_glyphs.push(gid(g));
                let mut row = vec![];
                for i in 0..k {
                    let n = j * k + i;
                    if n % 17 == 16 {
                        row.push(None);
                        continue;
                    }
                    let (e, a) = split_anchor(c.style, true, n, (i + j) % 4, (n % 30011) as i16, j as i16);
                    row.push(Some(a));
                    bases.entry(g).or_default().insert(format!("c{i}"), e);
                }
                base_recs.push(w::BaseRecord::new(row));
            }
            let sub = w::MarkBasePosFormat1::new(mark_glyphs.into_iter().collect(), base_glyphs.into_iter().collect(), w::MarkArray::new(mark_recs), w::BaseArray::new(base_recs));
            (w::PositionLookup::MarkToBase(wl::Lookup::new(wl::LookupFlag::empty(), vec![sub])), Expect::MarkBase { marks, bases })
        }
        // k marks (one class each) x m bases, every 17th base anchor missing
        _ => {
            let (k, mm) = (c.a as u32, c.b as u32);
            let mut b = MarkToBaseBuilder::default();
            let mut marks = HashMap::new();
            let mut bases: HashMap<u16, HashMap<String, RAnchor>> = HashMap::new();
            for i in 0..k {
                let name = format!("c{i}");
                let (e, ab) = anchor_values(c.style, i as i16 + 1, -(i as i16) - 1, i + 1);
                let _ = b.insert_mark(gid(first_glyph(c.cov, i)), &name, ab);
                marks.insert(first_glyph(c.cov, i), (name, e));
            }
            for j in 0..mm {
                for i in 0..k {
                    let n = j * k + i;
                    if n % 17 == 16 {
                        continue;
                    }
                    let (e, ab) = anchor_values(c.style, (n % 30011) as i16, j as i16, n + 2);
                    let name = format!("c{i}");
                    b.insert_base(gid(second_glyph(j)), &name, ab);
                    bases.entry(second_glyph(j)).or_default().insert(name, e);
                }
            }
            let subs = b.build(&mut vs);
            (w::PositionLookup::MarkToBase(wl::Lookup::new(wl::LookupFlag::empty(), subs)), Expect::MarkBase { marks, bases })
        }
    }
}

/// Device table / VariationIndex content of device slot `s` of value record `r` of rule (i, j).
/// Device: start size 10 + s + 4 r (names slot and record), three deltas in -2..=2 from
/// (31 i + 7 j + 3 s) mod 125; VariationIndex: outer 1 + s + 4 r, inner (37 i + 11 j) mod 250.
fn slot_device(kind: u8, s: usize, r: usize, i: u32, j: u32) -> (RDev, wl::DeviceOrVariationIndex, Option<wl::Device>) {
    if kind == 1 || (kind == 2 && s % 2 == 1) {
        let (o, inn) = (1 + s as u16 + 4 * r as u16, ((37 * i + 11 * j) % 250) as u16);
        (RDev::VarIdx(o, inn), wl::VariationIndex::new(o, inn).into(), None)
    } else {
        let st = 10 + s as u16 + 4 * r as u16;
        let h = (31 * i + 7 * j + 3 * s as u32) % 125;
        let dv = [(h % 5) as i8 - 2, ((h / 5) % 5) as i8 - 2, ((h / 25) % 5) as i8 - 2];
        let d = wl::Device::new(st, st + 2, &dv);
        (RDev::expected(st, &dv), d.clone().into(), Some(d))
    }
}

/// which slots of `mask` are non-null in record `r` of rule (i, j): the pattern number cycles
/// through all 2^|mask| subsets along a row (3 is coprime to every power of two)
fn split_nonnull(mask: u8, r: usize, i: u32, j: u32) -> u8 {
    let n = mask.count_ones();
    let p = (5 * i + 3 * j + 7 * r as u32 + i / 8) % (1 << n);
    let mut out = 0u8;
    let mut t = 0;
    for s in 0..4 {
        if mask & (1 << s) != 0 {
            if p & (1 << t) != 0 {
                out |= 1 << s;
            }
            t += 1;
        }
    }
    out
}

fn split_value(s: usize, r: usize, j: u32) -> i16 {
    100 * (r as i16 + 1) + 10 * s as i16 + (j % 7) as i16
}

/// hand-built value records of the split_slots family (`full`: every slot of the mask non-null;
/// used to derive the value format). Value fields: xAdvance on record 1 always; a value in every
/// EVEN slot of the mask (all records); devices per `split_nonnull`.
fn split_direct(kind: u8, masks: [u8; 2], i: u32, j: u32, full: bool) -> ((RVal, RVal), (w::ValueRecord, w::ValueRecord)) {
    let adv = ((i * 7 + j) % 30000) as i16 + 1;
    let mut e = [RVal::default(), RVal::default()];
    let mut wr = [w::ValueRecord::new().with_x_advance(adv), w::ValueRecord::new()];
    e[0].v[2] = adv;
    for r in 0..2 {
        let nn = if full { masks[r] } else { split_nonnull(masks[r], r, i, j) };
        for s in 0..4usize {
            if masks[r] & (1 << s) == 0 {
                continue;
            }
            let mut rec = std::mem::take(&mut wr[r]);
            if s % 2 == 0 && !(s == 2 && r == 0) {
                let v = split_value(s, r, j);
                e[r].v[s] = v;
                rec = if s == 0 { rec.with_x_placement(v) } else { rec.with_x_advance(v) };
            }
            if nn & (1 << s) != 0 {
                let (ed, wd, _) = slot_device(kind, s, r, i, j);
                e[r].dev[s] = Some(ed);
                rec = match s {
                    0 => rec.with_x_placement_device(wd),
                    1 => rec.with_y_placement_device(wd),
                    2 => rec.with_x_advance_device(wd),
                    _ => rec.with_y_advance_device(wd),
                };
            }
            wr[r] = rec;
        }
    }
    let [e1, e2] = e;
    let [w1, w2] = wr;
    ((e1, e2), (w1, w2))
}

fn split_formats(kind: u8, masks: [u8; 2]) -> (w::ValueFormat, w::ValueFormat) {
    let (_, (w1, w2)) = split_direct(kind, masks, 0, 0, true);
    (w1.format(), w2.format())
}

/// builder-side value records of the split_slots family: a non-null slot has a value and a Device
/// (the builder cannot express a device without its value); a null slot has neither
fn split_builder(masks: [u8; 2], i: u32, j: u32) -> ((RVal, RVal), (ValueRecordBuilder, ValueRecordBuilder)) {
    let adv = ((i * 7 + j) % 30000) as i16 + 1;
    let mut e = [RVal::default(), RVal::default()];
    let mut b = [ValueRecordBuilder::new().with_x_advance(adv), ValueRecordBuilder::new()];
    e[0].v[2] = adv;
    for r in 0..2 {
        let nn = split_nonnull(masks[r], r, i, j);
        for s in 0..4usize {
            if nn & (1 << s) == 0 {
                continue;
            }
            let v = if s == 2 && r == 0 { adv } else { split_value(s, r, j) };
            let (ed, _, d) = slot_device(0, s, r, i, j);
            let d = d.expect("kind 0 is a Device");
            e[r].v[s] = v;
            e[r].dev[s] = Some(ed);
            let rec = std::mem::take(&mut b[r]);
            b[r] = match s {
                0 => rec.with_x_placement(v).with_x_placement_device(d),
                1 => rec.with_y_placement(v).with_y_placement_device(d),
                2 => rec.with_x_advance(v).with_x_advance_device(d),
                _ => rec.with_y_advance(v).with_y_advance_device(d),
            };
        }
    }
    let [e1, e2] = e;
    let [b1, b2] = b;
    ((e1, e2), (b1, b2))
}

/// bytes of one row (format 2: m + 1 Class2Records; format 1: a PairSet of m records) — used
/// only to choose k (the verdict never depends on it)
fn split_row_bytes(c: &Case) -> u64 {
    let masks = [(c.last & 15) as u8, ((c.last >> 4) & 15) as u8];
    let (f1, f2) = if c.direct == 0 {
        // the builder adds a value field for every device slot
        let all = |m: u8, r: usize| 2 * (m | if r == 0 { 4 } else { 0 }).count_ones() as u64 + 2 * m.count_ones() as u64;
        (all(masks[0], 0), all(masks[1], 1))
    } else {
        let (a, b) = split_formats(c.style, masks);
        (2 * a.bits().count_ones() as u64, 2 * b.bits().count_ones() as u64)
    };
    if c.direct == 2 {
        2 + 2 + c.b * (2 + f1 + f2)
    } else {
        (c.b + 1) * (f1 + f2) + 4
    }
}

/// hand-built anchor of the mark_base_split_dev family: pattern 0 none (format 1), 1 x device,
/// 2 y device, 3 both; x and y content always differ; mark-side and base-side content differ
fn split_anchor(kind: u8, is_base: bool, n: u32, pattern: u32, x: i16, y: i16) -> (RAnchor, w::AnchorTable) {
    let dev = |axis: u32| -> (RDev, wl::DeviceOrVariationIndex) {
        if kind == 1 || (kind == 2 && axis == 1) {
            let (o, inn) = (1 + axis as u16 + 2 * is_base as u16, (n % 250) as u16);
            (RDev::VarIdx(o, inn), wl::VariationIndex::new(o, inn).into())
        } else {
            let st = 10 + axis as u16 + 2 * is_base as u16;
            let h = (n * 7 + axis) % 125;
            let dv = [(h % 5) as i8 - 2, ((h / 5) % 5) as i8 - 2, ((h / 25) % 5) as i8 - 2];
            (RDev::expected(st, &dv), wl::Device::new(st, st + 2, &dv).into())
        }
    };
    let (mut ex, mut ey, mut wx, mut wy) = (None, None, None, None);
    if pattern & 1 != 0 {
        let (e, d) = dev(0);
        ex = Some(e);
        wx = Some(d);
    }
    if pattern & 2 != 0 {
        let (e, d) = dev(1);
        ey = Some(e);
        wy = Some(d);
    }
    let a = if pattern == 0 { w::AnchorTable::format_1(x, y) } else { w::AnchorTable::format_3(x, y, wx, wy) };
    (RAnchor { x, y, point: None, xdev: ex, ydev: ey }, a)
}

/// direct write-side values for style 3 (variation index) and the other styles
fn direct_values(style: u8, i: u32, j: u32) -> ((RVal, RVal), (w::ValueRecord, w::ValueRecord)) {
    let adv = ((i * 7 + j) % 30000) as i16 + 1;
    let mut e1 = RVal::default();
    e1.v[2] = adv;
    let mut w1 = w::ValueRecord::new().with_x_advance(adv);
    let mut e2 = RVal::default();
    let mut w2 = w::ValueRecord::new();
    if style == 3 || style == 5 {
        let (o, inn) = ((i % 7) as u16, (j % 500) as u16 + (i as u16 % 3) * 1000);
        w1 = w1.with_x_advance_device(wl::VariationIndex::new(o, inn));
        e1.dev[2] = Some(RDev::VarIdx(o, inn));
    }
    if style == 4 {
        let (st, dv) = device_vals(i, j);
        w1 = w1.with_x_advance_device(wl::Device::new(st, st + 2, &dv));
        e1.dev[2] = Some(RDev::expected(st, &dv));
    }
    if style == 4 || style == 5 {
        let xp2 = (j % 50) as i16 + 1;
        let (st2, dv2) = device_vals2(i, j);
        w2 = w2.with_x_placement(xp2).with_x_placement_device(wl::Device::new(st2, st2 + 2, &dv2));
        e2.v[0] = xp2;
        e2.dev[0] = Some(RDev::expected(st2, &dv2));
    }
    ((e1, e2), (w1, w2))
}

/// Lookup qualifiers of the lookup under test (sweep families only; the fillers and the small
/// families keep an empty flag): 0 none; 1 RIGHT_TO_LEFT | IGNORE_MARKS | mark attachment class 3;
/// 2 IGNORE_LIGATURES | USE_MARK_FILTERING_SET with mark filtering set 7
fn lookup_qualifiers(c: &Case) -> (u16, Option<u16>) {
    if !is_sweep(c) {
        return (0, None);
    }
    match (c.a + c.last + c.style as u64 + c.cov as u64) % 3 {
        0 => (0, None),
        1 => (0x0309, None),
        _ => (0x0014, Some(7)),
    }
}

/// families in which every case is valid input that the unmodified compiler compiles: a
/// `PackingFailed` answer yields nothing for any pair and is a violation ("data of any size")
const REFUSAL_IS_VIOLATION: [&str; 8] = ["split_slots", "mark_base_split_dev", "pair2_multi", "subtable_order", "pair1_shared", "pair1_threshold", "pair2_threshold", "mark_base_threshold"];

/// families that sweep sizes across the 64 KiB split boundaries
fn is_sweep(c: &Case) -> bool {
    c.family.ends_with("threshold") || c.family == "mark_base_shared" || ["split_slots", "mark_base_split_dev", "pair2_multi", "subtable_order", "pair1_shared"].contains(&c.family.as_str())
}

pub struct Outcome {
    pub refused: bool,
    pub subtables: usize,
    pub formats: Vec<u8>,
    pub extension: bool,
    pub pairs: u64,
    pub len: usize,
    /// coverage format of each sub-table of the lookup under test (first coverage), and the largest
    /// number of ranges in a format-2 coverage
    pub cov_formats: Vec<u8>,
    pub cov_ranges_max: usize,
    /// compiled bytes are right (raw words equal) but read-fonts' Device::iter decodes them differently
    pub device_decode_note: Option<String>,
}

pub fn check(c: &Case) -> Result<Outcome, (String, String)> {
    check_impl(c, false)
}

/// `count_only`: stop after reading the number of sub-tables (placement probes)
fn check_impl(c: &Case, count_only: bool) -> Result<Outcome, (String, String)> {
    let e = |cl: &str, d: String| Err((cl.to_string(), d));
    let built = guard(|| {
        let (mut lookup, expect) = build_case(c);
        // lookup qualifiers must survive splitting and extension promotion
        let (flag, mfs) = lookup_qualifiers(c);
        match &mut lookup {
            w::PositionLookup::Pair(l) => {
                l.lookup_flag = wl::LookupFlag::from_bits_truncate(flag);
                l.mark_filtering_set = mfs;
            }
            w::PositionLookup::MarkToBase(l) => {
                l.lookup_flag = wl::LookupFlag::from_bits_truncate(flag);
                l.mark_filtering_set = mfs;
            }
            _ => {}
        }
        let mut lookups = vec![];
        let mut fill_models = vec![];
        for n in 0..c.filler as u32 {
            let mut m = PairModel::default();
            // filler = 3: the first filler is itself larger than 64 KiB, so two lookups of the table
            // are split (and promoted) in one compilation
            let rows = if c.filler == 3 && n == 0 { 80 } else { 30 };
            lookups.push(filler_lookup(n, rows, &mut m));
            fill_models.push(m);
        }
        // the lookup under test sits in the middle of the fillers
        let at = (c.filler as usize + 1) / 2;
        lookups.insert(at, lookup);
        let gpos = w::Gpos::new(Default::default(), Default::default(), wl::LookupList::new(lookups));
        (write_fonts::dump_table(&gpos), expect, fill_models, at)
    });
    let (bytes, expect, fill_models, at) = match built {
        Ok(x) => x,
        Err(p) => return e(&format!("panic {} [{}]", p.kind().split_whitespace().collect::<Vec<_>>().join(" "), p.site()), format!("{} at {}:{}", p.message, p.file, p.line)),
    };
    let bytes = match bytes {
        Ok(b) => b,
        Err(write_fonts::error::Error::PackingFailed(_)) if c.family == "mark_base_shared" || REFUSAL_IS_VIOLATION.contains(&c.family.as_str()) => {
            // the statement covers mark-to-base data "of any size": valid input of this family must
            // compile (the unmodified compiler does compile it); a refusal yields nothing at all
            return e("compile failed on valid input", "dump_table returned PackingFailed".to_string());
        }
        Err(write_fonts::error::Error::PackingFailed(_)) => {
            return Ok(Outcome { refused: true, subtables: 0, formats: vec![], extension: false, pairs: 0, len: 0, cov_formats: vec![], cov_ranges_max: 0, device_decode_note: None })
        }
        Err(err) => return e("dump_table error", format!("{err}")),
    };
    let lookups = match read_gpos(&bytes) {
        Ok(l) => l,
        Err(d) => return e("compiled Gpos does not read back", d),
    };
    if lookups.len() != c.filler as usize + 1 {
        return e("lookup count differs", format!("{} vs {}", lookups.len(), c.filler as usize + 1));
    }
    let mut pairs = 0u64;
    if count_only {
        let lk = &lookups[at];
        return Ok(Outcome { refused: false, subtables: lk.subs.len(), formats: lk.formats.clone(), extension: false, pairs: 0, len: bytes.len(), cov_formats: vec![], cov_ranges_max: 0, device_decode_note: None });
    }
    // fillers: every rule and the neighbours of the first glyphs
    let mut fi = 0;
    for (li, lk) in lookups.iter().enumerate() {
        if li == at {
            continue;
        }
        let m = &fill_models[fi];
        fi += 1;
        for g1 in neighbours(m.firsts.iter().copied()) {
            for g2 in neighbours(m.seconds.iter().copied()) {
                pairs += 1;
                let got = lk.eval_pair(g1 as u32, g2 as u32).map_err(|d| ("walker failed on read-back data".to_string(), d))?;
                if !same_pair(&got, &m.eval(g1, g2)) {
                    return e("filler lookup: pair value differs", format!("lookup {li} pair ({g1},{g2}): read {got:?}"));
                }
            }
        }
    }
    let lk = &lookups[at];
    let (flag, mfs) = lookup_qualifiers(c);
    if lk.lookup_flag != flag || lk.mark_filtering_set != mfs {
        return e("lookup flag / mark filtering set differs", format!("read back flag {:#06x} set {:?}, input flag {flag:#06x} set {mfs:?} ({} sub-tables, type {})", lk.lookup_flag, lk.mark_filtering_set, lk.subs.len(), lk.lookup_type));
    }
    let mut device_decode_note: Option<String> = None;
    match &expect {
        Expect::Pair(m) => {
            if lk.lookup_type != 2 && lk.lookup_type != 9 {
                return e("lookup type differs", format!("type {}", lk.lookup_type));
            }
            for g1 in neighbours(m.firsts.iter().copied()) {
                for g2 in neighbours(m.seconds.iter().copied()) {
                    pairs += 1;
                    let got = lk.eval_pair(g1 as u32, g2 as u32).map_err(|d| ("walker failed on read-back data".to_string(), d))?;
                    let want = m.eval(g1, g2);
                    if !same_pair(&got, &want) {
                        return e("pair value differs", format!("pair ({g1},{g2}): read back {got:?}, input rules give {want:?}"));
                    }
                    if device_decode_note.is_none() && pair_decoded_differs(&got, &want) {
                        device_decode_note = Some(format!("pair ({g1},{g2}): read back {got:?}, input rules give {want:?}"));
                    }
                }
            }
            // 32-bit glyph ids whose low 16 bits alias a covered glyph (or a neighbour) had no rule:
            // every first glyph aliased x a sample of seconds, and every second aliased x a sample of firsts
            let u1 = neighbours(m.firsts.iter().copied());
            let u2 = neighbours(m.seconds.iter().copied());
            let sample = |u: &[u16]| -> Vec<u16> { u.iter().copied().take(6).chain(u.iter().rev().copied().take(6)).collect() };
            for (aliased, fixed, first_is_aliased) in [(&u1, sample(&u2), true), (&u2, sample(&u1), false)] {
                for g in aliased.iter() {
                    for a in alias_ids(*g) {
                        for f in &fixed {
                            pairs += 1;
                            let (q1, q2) = if first_is_aliased { (a, *f as u32) } else { (*f as u32, a) };
                            let got = lk.eval_pair(q1, q2).map_err(|d| ("walker failed on read-back data".to_string(), d))?;
                            if !same_pair(&got, &None) {
                                return e("a 32-bit glyph id that aliases a 16-bit glyph gets an adjustment", format!("pair ({q1:#x},{q2:#x}): read back {got:?}, no rule exists"));
                            }
                        }
                    }
                }
            }
        }
        Expect::MarkBase { marks, bases } => {
            if lk.lookup_type != 4 && lk.lookup_type != 9 {
                return e("lookup type differs", format!("type {}", lk.lookup_type));
            }
            let um = neighbours(marks.keys().copied().chain([30, 31, 33]));
            let ub = neighbours(bases.keys().copied().chain([40, 42]));
            for mg in &um {
                for bg in &ub {
                    pairs += 1;
                    let got = lk.eval_mark_base(*mg as u32, *bg as u32).map_err(|d| ("walker failed on read-back data".to_string(), d))?;
                    let want = match (marks.get(mg), bases.get(bg)) {
                        (Some((class, ma)), Some(row)) => row.get(class).map(|ba| (ma.clone(), ba.clone())),
                        _ => None,
                    };
                    if got != want {
                        return e("mark/base anchors differ", format!("(mark {mg}, base {bg}): read back {got:?}, input gives {want:?}"));
                    }
                    if let (Some(g), Some(w)) = (&got, &want) {
                        let d = RDev::decoded_differs(&g.0.xdev, &w.0.xdev) || RDev::decoded_differs(&g.0.ydev, &w.0.ydev) || RDev::decoded_differs(&g.1.xdev, &w.1.xdev) || RDev::decoded_differs(&g.1.ydev, &w.1.ydev);
                        if d && device_decode_note.is_none() {
                            device_decode_note = Some(format!("(mark {mg}, base {bg}): read back {got:?}, input gives {want:?}"));
                        }
                    }
                }
            }
            let sample = |u: &[u16]| -> Vec<u16> { u.iter().copied().take(6).chain(u.iter().rev().copied().take(6)).collect() };
            for (aliased, fixed, mark_is_aliased) in [(&um, sample(&ub), true), (&ub, sample(&um), false)] {
                for g in aliased.iter() {
                    for a in alias_ids(*g) {
                        for f in &fixed {
                            pairs += 1;
                            let (qm, qb) = if mark_is_aliased { (a, *f as u32) } else { (*f as u32, a) };
                            let got = lk.eval_mark_base(qm, qb).map_err(|d| ("walker failed on read-back data".to_string(), d))?;
                            if got.is_some() {
                                return e("a 32-bit glyph id that aliases a 16-bit glyph gets anchors", format!("(mark {qm:#x}, base {qb:#x}): read back {got:?}, no rule exists"));
                            }
                        }
                    }
                }
            }
        }
    }
    Ok(Outcome {
        cov_formats: lk.cov_formats.clone(),
        cov_ranges_max: lk.cov_ranges_max,
        device_decode_note, refused: false, subtables: lk.subs.len(), formats: lk.formats.clone(), extension: lookups.iter().any(|l| l.lookup_type == 9), pairs, len: bytes.len() })
}

pub fn run_case(run: &Run, c: &Case, l: &mut Local) -> Option<Outcome> {
    l.cases += 1;
    match check(c) {
        Ok(o) => {
            l.pairs += o.pairs;
            if let Some(note) = &o.device_decode_note {
                run.violation(
                    "read_fonts Device::iter: decoded deltas differ from the encoded ones (raw delta words in the compiled table are correct)",
                    &format!("{c:?}: {note}"),
                    c.to_json(),
                );
            }
            if o.refused {
                *l.c.entry("refused(PackingFailed)").or_insert(0) += 1;
                let by_family: &'static str = match c.family.as_str() {
                    "pair1_threshold" => "refused(PackingFailed)[pair1_threshold]",
                    "pair2_threshold" => "refused(PackingFailed)[pair2_threshold]",
                    "mark_base_threshold" => "refused(PackingFailed)[mark_base_threshold]",
                    "split_slots" => "refused(PackingFailed)[split_slots]",
                    "mark_base_split_dev" => "refused(PackingFailed)[mark_base_split_dev]",
                    "pair2_multi" => "refused(PackingFailed)[pair2_multi]",
                    _ => "refused(PackingFailed)[small families]",
                };
                *l.c.entry(by_family).or_insert(0) += 1;
                return Some(o);
            }
            let mut h = Fnv::new();
            h.str(&c.family);
            h.u64(o.subtables as u64);
            for f in &o.formats {
                h.u64(*f as u64);
            }
            h.u64(o.extension as u64);
            h.u64(c.style as u64);
            l.all.insert(h.finish());
            let mut fs = o.formats.clone();
            fs.dedup();
            let nontrivial = o.extension || (is_sweep(c) && o.subtables > 1) || fs.len() > 1 || (!is_sweep(c) && o.subtables >= 1);
            if nontrivial {
                l.nontrivial.insert(h.finish());
            }
            if is_sweep(c) {
                if o.subtables > 1 {
                    *l.c.entry("threshold_cases_split").or_insert(0) += 1;
                    if o.cov_formats.iter().any(|f| *f == 2) {
                        *l.c.entry("threshold_cases_split_with_format2_coverage").or_insert(0) += 1;
                    }
                    if o.cov_ranges_max > 1 {
                        *l.c.entry("threshold_cases_split_with_multi_range_coverage").or_insert(0) += 1;
                    }
                } else {
                    *l.c.entry("threshold_cases_not_split").or_insert(0) += 1;
                }
                if o.extension {
                    *l.c.entry("threshold_cases_with_extension_promotion").or_insert(0) += 1;
                }
            }
            Some(o)
        }
        Err((class, detail)) => {
            let identity = if c.family == "mark_base_shared" {
                format!("mark2base shared-anchor: {class} ({})", c.class().trim_start_matches("mark2base shared-anchor "))
            } else {
                format!("{}: {class}", c.class())
            };
            run.violation(&identity, &format!("{c:?}: {detail}"), c.to_json());
            None
        }
    }
}

pub fn replay(run: &Run, case: &Value) {
    let c = Case::from_json(case);
    let mut l = Local::default();
    if let Some(o) = run_case(run, &c, &mut l) {
        println!("replay: refused={} subtables={} formats={:?} extension={} pairs={} len={}", o.refused, o.subtables, o.formats, o.extension, o.pairs, o.len);
    }
}

fn run_cases(run: &Run, cases: &[Case], name: &str) -> Vec<(usize, usize, bool)> {
    let res: Vec<(Local, Vec<(usize, usize, bool)>)> = cases
        .par_iter()
        .enumerate()
        .fold(
            || (Local::default(), vec![]),
            |(mut l, mut v), (i, c)| {
                if let Some(o) = run_case(run, c, &mut l) {
                    v.push((i, o.subtables, o.extension));
                }
                (l, v)
            },
        )
        .collect();
    let (locals, outs): (Vec<Local>, Vec<Vec<(usize, usize, bool)>>) = res.into_iter().unzip();
    merge(run, &locals, name);
    let mut outs: Vec<(usize, usize, bool)> = outs.into_iter().flatten().collect();
    outs.sort();
    outs
}

pub fn part_b(run: &Run) {
    let mut cases = vec![];
    for code in 0..4u64.pow(9) {
        cases.push(Case::small("glyph_pairs", code, 0));
    }
    // other insertion orders / duplicate rules: every rule set with <= 4 rules
    for code in 0..4u64.pow(9) {
        let mut c = code;
        let mut n = 0;
        for _ in 0..9 {
            n += (c % 4 != 0) as u32;
            c /= 4;
        }
        if n <= 4 && n >= 1 {
            cases.push(Case::small("glyph_pairs", code, 1));
            cases.push(Case::small("glyph_pairs", code, 2));
        }
    }
    run_cases(run, &cases, "PairPosBuilder glyph pairs: 4^9 rule sets over 3x3 glyphs x {none, xAdv, xAdv+yPla|xPla, xAdv+Device}; <=4-rule sets also reversed and with duplicate rules");
    let mut cases = vec![];
    for code in 0..3u64.pow(9) {
        for variant in 0..6 {
            cases.push(Case::small("class_pairs", code, variant));
        }
    }
    run_cases(run, &cases, "PairPosBuilder class pairs: 3^9 rule sets over 3x3 (overlapping) classes x 2 insertion orders x 3 preceding glyph-pair sets");
    // class sets overlapping in the interior of a contiguous run of another class
    let mut cases = vec![];
    for r1 in 1..=12u64 {
        for variant in 0..2 {
            cases.push(Case::small("class_pairs_interior", r1, variant));
        }
        for r2 in (1..=12u64).filter(|r| *r != r1) {
            for variant in 0..2 {
                cases.push(Case::small("class_pairs_interior", r1 + 13 * r2, variant));
            }
            for r3 in (1..=12u64).filter(|r| *r != r1 && *r != r2) {
                for variant in 0..2 {
                    cases.push(Case::small("class_pairs_interior", r1 + 13 * r2 + 169 * r3, variant));
                }
            }
        }
    }
    run_cases(run, &cases, "PairPosBuilder class pairs with interior overlap: all sequences of <=3 distinct rules over classes {1,2},{3,4} x {15,30},{10..=20},{12,13},{15},{30,31},{9,10}, in both roles (first/second class)");
    let mut cases = vec![];
    for code in 0..(27 * 16) {
        for style in 0..3 {
            cases.push(Case::small("mark_base", code, style));
        }
    }
    run_cases(run, &cases, "MarkToBaseBuilder: 3 marks x {absent,a,b} x 2 bases x subsets of {a,b} x 3 anchor styles");
    // every subset of the 4 device slots on value record 1 x on value record 2 (not both empty)
    let mut cases = vec![];
    for masks in 1..256u64 {
        for kind in 0..3 {
            cases.push(Case::small("device_slots", masks, kind));
        }
    }
    run_cases(run, &cases, "Device slots: one glyph-pair rule, every subset of the 4 device slots on record 1 x record 2 (255) x {Device via PairPosBuilder, Device hand-built, VariationIndex hand-built}; devices compared per slot");
    // device tables on every format boundary, through every builder entry point that takes a Device
    let mut cases = vec![];
    for i in 0..device_delta_sets().len() as u64 {
        for carrier in 0..5 {
            cases.push(Case::small("device_boundary", i, carrier));
        }
    }
    run_cases(run, &cases, "Device boundary: 29 delta sets (every delta of {0,1,2,-2,-3,7,8,-8,-9,127,-128} alone; boundary/small mixes; ranges of 1,8,9 / 4,5 / 2,3 sizes) x {pair rec1, pair rec2, class pair, mark anchor, base anchor}; raw words and decoded deltas compared");
}

/// size model used only to *place* the sweeps (the verdict never depends on it)
fn pair1_size(k: u64, m: u64, last: u64, rec: u64) -> u64 {
    10 + 2 * k + (k - 1) * (2 + m * rec) + (2 + last * rec) + 4 + 2 * k
}

pub fn part_c(run: &Run) {
    let quick = run.tier == Tier::Quick;
    // development aid (never set by ./check): only the families added in round 12
    let new_only = std::env::var("C16_NEW_ONLY").is_ok();
    if new_only {
        run.cap_hit("C16_NEW_ONLY set: the threshold sweeps were skipped");
    }
    if !new_only {
    // ---- PairPos format 1: m = 100 seconds per first glyph; the last first glyph's record count
    // sweeps the compiled size across n x 64 KiB one record at a time
    let mut cases = vec![];
    let m = 100u64;
    for style in [0u8, 1, 2, 3, 4, 6, 7, 8] {
        // second glyph + value record 1 + value record 2
        let rec = [4u64, 6, 6, 6, 10, 0, 8, 8, 8][style as usize];
        for splits in 1..=3u64 {
            // smallest k whose full table exceeds splits x 65536
            let mut k = 2;
            while pair1_size(k, m, m, rec) <= splits * 65536 {
                k += 1;
            }
            // `last` where the size crosses the limit
            let cross = (0..=m).find(|l| pair1_size(k, m, *l, rec) > splits * 65536).unwrap_or(m);
            let window: Vec<u64> = if quick {
                (cross.saturating_sub(3)..=(cross + 3).min(m)).collect()
            } else {
                (0..=m).collect()
            };
            for cov in 0..4u8 {
                if cov == 3 && !(style == 0 && splits <= 2 || style == 4 && splits == 1) {
                    continue;
                }
                if quick && cov < 3 && cov != (style % 3) && !(splits == 1 && style == 0) && !(cov == 2 && style == 0) {
                    continue;
                }
                // the single-slot device styles: in quick only across the first split boundary
                if quick && style >= 6 && splits > 1 {
                    continue;
                }
                for filler in [0u8, 2] {
                    if filler == 2 && (quick && (cov != 0 || style >= 6) || splits == 3) {
                        continue;
                    }
                    for last in &window {
                        let direct = (style == 3) as u8;
                        cases.push(Case { family: "pair1_threshold".into(), a: k, b: m, last: *last, style, cov, filler, direct });
                        // in thorough also build styles 0..2 directly (no builder in the way)
                        if !quick && style < 3 && style == 0 && cov == 0 {
                            cases.push(Case { family: "pair1_threshold".into(), a: k, b: m, last: *last, style, cov, filler, direct: 1 });
                        }
                    }
                    if !quick {
                        // k-1 and k+1 as well (whole pair sets on either side)
                        for kk in [k - 1, k + 1] {
                            cases.push(Case { family: "pair1_threshold".into(), a: kk, b: m, last: m, style, cov, filler, direct: (style == 3) as u8 });
                        }
                    }
                }
            }
        }
    }
    let outs = run_cases(run, &cases, "PairPos format 1 threshold sweeps (k x 100 pairs, last pair set swept record by record, 1/2/3 splits)");
    report_split_histogram(run, "pair1", &cases, &outs);

    // ---- PairPos format 2: k class1 x 51 class2; k sweeps one class1 record at a time around the
    // k at which the compiled lookup first has 2, 3 and 4 sub-tables (found by bisection on the real
    // compiler, so the sweep stays on the boundary whatever the size estimator does)
    let mut cases = vec![];
    let radius = if quick { 3 } else { 12 };
    let mut combos = vec![];
    // styles 4 and 5: BOTH value records of every Class2Record carry their own, distinct
    // Device / VariationIndex tables (5 by direct construction)
    for style in [0u8, 1, 2, 4, 5] {
        for cov in [0u8, 2, 3] {
            if quick && cov == 2 && style != 1 || cov == 3 && style != 0 && style != 4 {
                continue;
            }
            for target in 2..=4usize {
                if quick && (style >= 4 || cov == 3) && target > 3 {
                    continue;
                }
                combos.push((style, cov, target));
            }
        }
    }
    let kts: Vec<u64> = combos
        .par_iter()
        .map(|(style, cov, target)| {
            let (style, cov) = (*style, *cov);
            let probe = move |k: u64| Case { family: "pair2_threshold".into(), a: k, b: 51, last: 0, style, cov, filler: 0, direct: (style == 5) as u8 };
            first_k_with(&probe, *target, 8, 2600)
        })
        .collect();
    {
        {
            for ((style, cov, target), kt) in combos.iter().copied().zip(kts.iter().copied()) {
                let probe = move |k: u64| Case { family: "pair2_threshold".into(), a: k, b: 51, last: 0, style, cov, filler: 0, direct: (style == 5) as u8 };
                for filler in [0u8, 2] {
                    if filler == 2 && (target > 2 || quick && style != 0) {
                        continue;
                    }
                    for k in kt.saturating_sub(radius).max(1)..=kt + radius {
                        let mut c = probe(k);
                        c.filler = filler;
                        cases.push(c);
                    }
                }
            }
        }
    }
    let outs = run_cases(run, &cases, "PairPos format 2 threshold sweeps (k x 51 singleton classes, k swept one class1 record at a time across the 1|2, 2|3, 3|4 sub-table boundaries)");
    report_split_histogram(run, "pair2", &cases, &outs);

    // ---- MarkBasePos: k marks (one class each) x 200 bases, same placement by bisection
    let mut cases = vec![];
    let radius = if quick { 3 } else { 10 };
    let mut combos = vec![];
    for style in 0..3u8 {
        for cov in [0u8, 1] {
            if quick && cov == 1 && style != 2 {
                continue;
            }
            for target in 2..=4usize {
                combos.push((style, cov, target));
            }
        }
    }
    let kts: Vec<u64> = combos
        .par_iter()
        .map(|(style, cov, target)| {
            let (style, cov) = (*style, *cov);
            let probe = move |k: u64| Case { family: "mark_base_threshold".into(), a: k, b: 200, last: 0, style, cov, filler: 0, direct: 0 };
            first_k_with(&probe, *target, 4, 400)
        })
        .collect();
    {
        {
            for ((style, cov, target), kt) in combos.iter().copied().zip(kts.iter().copied()) {
                let probe = move |k: u64| Case { family: "mark_base_threshold".into(), a: k, b: 200, last: 0, style, cov, filler: 0, direct: 0 };
                for filler in [0u8, 2] {
                    if filler == 2 && (target > 2 || quick && style != 0) {
                        continue;
                    }
                    for k in kt.saturating_sub(radius).max(1)..=kt + radius {
                        let mut c = probe(k);
                        c.filler = filler;
                        cases.push(c);
                    }
                }
            }
        }
    }
    let outs = run_cases(run, &cases, "MarkBasePos threshold sweeps (k single-mark classes x 200 bases, k swept one class at a time across the 1|2, 2|3, 3|4 sub-table boundaries)");
    report_split_histogram(run, "mark_base", &cases, &outs);

    // ---- MarkBasePos with anchors shared across mark classes (and hence across split points).
    // 500 bases: the shared anchors (3 KB+) must outweigh the slack left in a full sub-table, or an
    // under-estimate of a later sub-table would not overflow any offset
    let mut cases = vec![];
    let radius = if quick { 3 } else { 10 };
    let mut combos = vec![];
    for pattern in 0..4u8 {
        for target in 2..=(if quick { 3usize } else { 4 }) {
            combos.push((pattern, target));
        }
    }
    let kts: Vec<u64> = combos
        .par_iter()
        .map(|(pattern, target)| {
            let style = *pattern;
            let probe = move |k: u64| Case { family: "mark_base_shared".into(), a: k, b: 500, last: 0, style, cov: 0, filler: 0, direct: 0 };
            first_k_with(&probe, *target, 4, 1200)
        })
        .collect();
    for ((pattern, target), kt) in combos.iter().copied().zip(kts.iter().copied()) {
        for filler in [0u8, 2] {
            if filler == 2 && (target > 2 || quick && pattern != 1) {
                continue;
            }
            for k in kt.saturating_sub(radius).max(1)..=kt + radius {
                cases.push(Case { family: "mark_base_shared".into(), a: k, b: 500, last: 0, style: pattern, cov: 0, filler, direct: 0 });
            }
        }
    }
    let outs = run_cases(run, &cases, "MarkBasePos with shared anchors (k single-mark classes x 500 bases; share pattern {all distinct, one anchor per base, pairwise, shared Device}; k swept one class at a time across the sub-table boundaries; a compile failure is a violation)");
    report_split_histogram(run, "mark_base_shared", &cases, &outs);
    }
    // ---- SPLIT x DEVICE SLOTS (see build_case "split_slots"): 20 columns; k rows from a byte
    // target (80 000: two pieces; 150 000 / 220 000: three or more)
    let rot = |m: u64| ((m << 1) | (m >> 3)) & 15;
    let mk = |route: u8, kind: u8, m1: u64, m2: u64, target: u64, filler: u8| -> Case {
        let mut c = Case { family: "split_slots".into(), a: 0, b: 20, last: m1 | m2 << 4, style: kind, cov: [0u8, 2, 1, 3][((m1 + 2 * m2) % 4) as usize], filler, direct: route };
        c.a = target / split_row_bytes(&c) + 1;
        c
    };
    let mut cases = vec![];
    // the 45 mask placements: every non-empty format mask M on record 1 only, on record 2 only, and
    // on both (M on record 1, M rotated by one slot on record 2)
    let placements: Vec<(u64, u64)> = (1..16u64).flat_map(|m| [(m, 0), (0, m), (m, rot(m))]).collect();
    let both: Vec<(u64, u64)> = (1..16u64).map(|m| (m, rot(m))).collect();
    if quick {
        for (m1, m2) in &placements {
            cases.push(mk(1, 0, *m1, *m2, 80_000, 0));
        }
        for (m1, m2) in &both {
            cases.push(mk(1, 1, *m1, *m2, 80_000, 0));
            cases.push(mk(1, 0, *m1, *m2, 150_000, 0));
            cases.push(mk(0, 0, *m1, *m2, 80_000, 0));
        }
        cases.push(mk(1, 2, 15, 15, 80_000, 0));
        for (m1, m2) in [(15, 15), (5, 10)] {
            cases.push(mk(1, 1, m1, m2, 150_000, 0));
        }
        for (m1, m2) in [(15, 15), (6, 0), (0, 6)] {
            cases.push(mk(0, 0, m1, m2, 150_000, 0));
        }
        for m in [15u64, 6, 2, 4, 9] {
            cases.push(mk(2, 0, m, rot(m), 80_000, 0));
        }
        cases.push(mk(2, 1, 15, 15, 80_000, 0));
        for (m1, m2) in [(15, 15), (6, 9), (2, 4)] {
            cases.push(mk(1, 0, m1, m2, 80_000, 2));
        }
        cases.push(mk(1, 1, 15, 15, 80_000, 2));
        cases.push(mk(2, 0, 15, 15, 80_000, 2));
        cases.push(mk(1, 0, 15, 15, 80_000, 3));
        cases.push(mk(0, 0, 6, 9, 80_000, 3));
    } else {
        for (m1, m2) in &placements {
            for target in [80_000u64, 150_000, 220_000] {
                for kind in 0..3u8 {
                    cases.push(mk(1, kind, *m1, *m2, target, 0));
                    if target < 220_000 {
                        cases.push(mk(2, kind, *m1, *m2, target, 0));
                    }
                }
                cases.push(mk(0, 0, *m1, *m2, target, 0));
            }
        }
        for (m1, m2) in &both {
            for kind in 0..2u8 {
                cases.push(mk(1, kind, *m1, *m2, 80_000, 2));
                cases.push(mk(2, kind, *m1, *m2, 80_000, 2));
            }
            cases.push(mk(0, 0, *m1, *m2, 80_000, 2));
            cases.push(mk(1, 0, *m1, *m2, 80_000, 3));
        }
    }
    let outs = run_cases(run, &cases, "Split x device slots: pair rules with sparse device slots (every format mask of the 4 slots on record 1 / record 2 / both; every null/non-null subset of the mask in every row) in sub-tables that must be split (hand-built format 2, PairPosBuilder class pairs, hand-built format 1; 2 and >=3 pieces; with and without extension promotion); Device and VariationIndex content compared per slot for every glyph pair");
    report_split_histogram(run, "split_slots", &cases, &outs);
    run.count("split_slots_cases_with_3plus_pieces", outs.iter().filter(|o| o.1 >= 3).count() as u64);
    if outs.len() == cases.len() {
        for route in 0..3u8 {
            let n = outs.iter().filter(|o| cases[o.0].direct == route && o.1 >= 2).count();
            if n == 0 {
                run.machinery_error(&format!("split_slots route {route}: no case was split"));
            }
        }
        if !outs.iter().any(|o| o.1 >= 3) {
            run.machinery_error("split_slots: no case was split into three or more pieces");
        }
    }

    // ---- multi-glyph classes in a split PairPos format 2 (see build_case "pair2_multi")
    let mut cases = vec![];
    let pm = |layout: u64, g: u64, direct: u8, style: u8, target: u64, filler: u8| -> Case {
        // the target counts the Class1Records alone, so the sub-table must be split whatever the
        // coverage / class def sizes are
        let rec = match style {
            0 => 2,
            1 => 6,
            2 => 4,
            _ => 8,
        };
        Case { family: "pair2_multi".into(), a: target / (11 * rec) + 1, b: 10, last: g | layout << 8, style, cov: 0, filler, direct }
    };
    // first glyphs must stay below the second glyphs (30000..)
    let fits = |c: &Case| 100 + c.a * ((c.last & 255) + 1) < 29_000;
    for layout in 0..3u64 {
        for g in if quick { vec![3u64, 8] } else { vec![2u64, 3, 5, 8, 13] } {
            for direct in 0..2u8 {
                for target in if quick { vec![90_000u64, 170_000] } else { vec![60_000u64, 90_000, 130_000, 170_000, 250_000] } {
                    let c = pm(layout, g, direct, if direct == 1 { 4 } else { 1 }, target, 0);
                    if fits(&c) {
                        cases.push(c);
                    }
                }
            }
        }
        cases.push(pm(layout, 8, 0, 2, 90_000, 0));
        cases.push(pm(layout, 5, 1, 4, 90_000, 0));
    }
    cases.push(pm(1, 8, 0, 1, 90_000, 2));
    cases.push(pm(2, 8, 1, 4, 90_000, 2));
    let outs = run_cases(run, &cases, "PairPos format 2 with multi-glyph classes, split (k first classes of g glyphs in block / strided / varied-size layouts x 10 second classes of 3 glyphs; PairPosBuilder and hand-built; a compile failure is a violation)");
    report_split_histogram(run, "pair2_multi", &cases, &outs);

    // ---- sub-table order across a split (see build_case "subtable_order")
    let mut cases = vec![];
    for style in 0..6u8 {
        let ks: Vec<u64> = match (style < 2 || style >= 4, quick) {
            (true, true) => if style == 5 { vec![420, 700] } else { vec![200, 420] },
            (true, false) => vec![150, 170, 200, 330, 420, 600],
            (false, true) => vec![1200, 2300],
            (false, false) => vec![900, 1000, 1200, 1900, 2300, 3000],
        };
        for (n, k) in ks.iter().enumerate() {
            for cov in [0u8, 2] {
                if quick && cov == 2 && n > 0 {
                    continue;
                }
                cases.push(Case { family: "subtable_order".into(), a: *k, b: 0, last: 0, style, cov, filler: 0, direct: 1 });
            }
            if n == 0 {
                cases.push(Case { family: "subtable_order".into(), a: *k, b: 0, last: 0, style, cov: 0, filler: 2, direct: 1 });
                if style % 2 == 0 || !quick {
                    cases.push(Case { family: "subtable_order".into(), a: *k, b: 0, last: 0, style, cov: 0, filler: 3, direct: 1 });
                }
            }
        }
    }
    let outs = run_cases(run, &cases, "Sub-table order across a split: hand-built lookups [small, BIG format 1, small], [BIG format 1, small format 2], [BIG format 2, small], [small, BIG format 2] with overlapping rules; first match must not change when BIG is replaced by its pieces (and promoted)");
    report_split_histogram(run, "subtable_order", &cases, &outs);

    // ---- PairSets shared across split points (see build_case "pair1_shared")
    let mut cases = vec![];
    for (k, mm, t) in if quick { vec![(36u64, 2500u64, 9u64), (20, 5000, 4)] } else { vec![(36, 2500, 9), (20, 5000, 4), (40, 2500, 7), (30, 5000, 5), (64, 1200, 60)] } {
        for filler in [0u8, 2] {
            cases.push(Case { family: "pair1_shared".into(), a: k, b: mm, last: t, style: 0, cov: 1, filler, direct: 1 });
        }
    }
    let outs = run_cases(run, &cases, "PairPos format 1 with PairSets shared between first glyphs on both sides of split points (k first glyphs cycling through t identical-by-content PairSets of m records); a compile failure is a violation");
    report_split_histogram(run, "pair1_shared", &cases, &outs);

    // ---- SPLIT x ANCHOR DEVICES (see build_case "mark_base_split_dev"): 200 bases
    let mut cases = vec![];
    let mb = |k: u64, per: u64, kind: u8, filler: u8| Case { family: "mark_base_split_dev".into(), a: k, b: 200, last: per, style: kind, cov: 0, filler, direct: 1 };
    if quick {
        for kind in 0..3u8 {
            cases.push(mb(40, 2, kind, 0));
            cases.push(mb(70, 2, kind, 0));
        }
        cases.push(mb(40, 2, 0, 2));
        cases.push(mb(40, 2, 1, 3));
        cases.push(mb(20, 2, 2, 0));
    } else {
        for kind in 0..3u8 {
            for per in 1..=3u64 {
                for k in (18..=100u64).step_by(4) {
                    cases.push(mb(k, per, kind, 0));
                }
            }
            cases.push(mb(40, 2, kind, 2));
            cases.push(mb(70, 2, kind, 2));
        }
    }
    let outs = run_cases(run, &cases, "Split x anchor devices: hand-built MarkBasePos, k mark classes x 2 marks (classes interleaved in coverage order) x 200 bases, x / y device presence {none, x, y, both} on mark and base anchors with distinct Device / VariationIndex content, every 17th base anchor missing; 1, 2 and >=3 pieces");
    report_split_histogram(run, "mark_base_split_dev", &cases, &outs);
    run.bound("split_device_families", json!({
        "split_slots": "20 columns; k rows from byte targets 80 000 (2 pieces) / 150 000 (>=3) [thorough also 220 000]; format masks: all 15 non-empty subsets of {xPla,yPla,xAdv,yAdv} devices on record 1 only / record 2 only / both (45 placements); per-record null/non-null pattern cycles through all subsets of the mask; kinds {Device, VariationIndex, mixed}; routes {hand-built format 2, PairPosBuilder::insert_classes, hand-built format 1}; quick: 45 placements x Device + 15 'both' placements x {VariationIndex, 3 pieces, builder} + representatives for format 1, mixed, fillers; thorough: full product",
        "mark_base_split_dev": "k in {20,40,70} (quick) / 18..=100 step 4 x marks per class 1..=3 (thorough) x kinds {Device, VariationIndex, mixed} x 200 bases, 0 or 2 filler lookups",
    }));
    run.bound("threshold_families", json!({
        "pair1": "k first glyphs x 100 seconds, value styles {xAdv, xAdv+yPla|xPla, xAdv+Device, xAdv+VariationIndex(direct), xAdv+Device|xPla+Device, xAdv + Device alone in the xPla / yPla / yAdv slot}, coverage styles {contiguous, alternate, runs}, last pair set swept (quick: crossing +-3 records; thorough: 0..=100), k at 1x/2x/3x 64 KiB, with 0 or 2 filler lookups",
        "pair2": "k x 51 singleton classes, k within +-3 (quick) / +-12 (thorough) of the first k giving 2, 3, 4 sub-tables; 5 value styles incl. two where both value records of every Class2Record have their own distinct Device / VariationIndex tables (one by direct construction); 0 or 2 filler lookups",
        "mark_base_shared": "k single-mark classes x 500 bases (so that the shared anchor bytes exceed the slack of a sub-table), base anchors shared across mark classes: patterns {all distinct, one anchor per base, pairwise shared, shared Device}; k within +-3 (quick) / +-10 (thorough) of the first k giving 2, 3 (thorough 4) sub-tables; PackingFailed is a violation",
        "mark_base": "k single-mark classes x 200 bases, k within +-3 (quick) / +-10 (thorough) of the first k giving 2, 3, 4 sub-tables; 3 anchor styles; 0 or 2 filler lookups",
    }));
}

/// smallest k in lo..=hi whose compiled lookup has at least `target` sub-tables (bisection on the
/// real compiler; used only to place the sweeps; the verdict never depends on it)
fn first_k_with(probe: &(dyn Fn(u64) -> Case + Sync), target: usize, lo: u64, max: u64) -> u64 {
    let n = |k: u64| check_impl(&probe(k), true).map(|o| if o.refused { usize::MAX } else { o.subtables }).unwrap_or(usize::MAX);
    // gallop upwards to bracket the boundary
    let (mut lo, mut hi) = (lo, (lo * 16).min(max));
    while n(hi) < target {
        if hi >= max {
            return max;
        }
        lo = hi + 1;
        hi = (hi * 2).min(max);
    }
    while lo < hi {
        let mid = (lo + hi) / 2;
        if n(mid) >= target {
            hi = mid;
        } else {
            lo = mid + 1;
        }
    }
    lo
}

fn report_split_histogram(run: &Run, name: &str, cases: &[Case], outs: &[(usize, usize, bool)]) {
    let mut hist: std::collections::BTreeMap<usize, u64> = Default::default();
    for (_, n, _) in outs {
        *hist.entry(*n).or_insert(0) += 1;
    }
    run.extra(&format!("subtable_count_histogram[{name}]"), json!(hist.iter().map(|(k, v)| (k.to_string(), *v)).collect::<std::collections::BTreeMap<_, _>>()));
    if let Some((i, n, ext)) = outs.iter().find(|o| o.1 > 1) {
        run.sample(json!({"case": cases[*i].to_json(), "subtables": n, "extension": ext}));
    }
    // (only when every case passed: failing cases are reported as violations and are not in `outs`)
    if hist.len() < 2 && outs.len() == cases.len() {
        // a sweep that never changes the number of sub-tables did not straddle a threshold
        run.machinery_error(&format!("threshold family {name}: every case produced the same number of sub-tables ({hist:?})"));
    }
}
