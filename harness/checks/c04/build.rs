//! C04 build script: derives everything "per type" mechanically from the repository under test.
//!
//! 1. REGISTRY  — scans `write-fonts/src/tables/*.rs` for `include!(".../generated_X.rs")`, and each
//!    included generated file for `impl<'a> FontRead<'a> for T` (= an owned table type that can be
//!    read without arguments).  Emits `registry.rs` with one `ops::<path::T>(..)` entry per type,
//!    the top-level tag where the type is a `TopLevelTable`, and the list of table types that have
//!    `FromTableRef` but no `FontRead` (read-with-args types; hand adaptors or "skipped").
//! 2. SCHEMA    — parses `resources/codegen_inputs/*.rs` (the DSL both the reader and the writer are
//!    generated from) into `schema.json`: per table/record the fields with their `#[count]`,
//!    `#[compile]`, `#[version]`, `#[since_version]`, `#[if_flag]`, `#[read_with]`… annotations, per
//!    `flags` block the declared bit mask.  main.rs interprets this to decide schema consistency.
//! 3. BLOBS     — lists the `pub static NAME: &[u8]` byte blobs of font-test-data.
//!
//! Nothing here looks at the behaviour of the code under test; only at declarations.

use serde_json::{json, Value};
use std::fmt::Write as _;
use std::path::{Path, PathBuf};

fn repo_root() -> PathBuf {
    println!("cargo:rerun-if-env-changed=VERIF_REPO");
    match std::env::var("VERIF_REPO") {
        Ok(p) => PathBuf::from(p),
        // NB: tools/mutant_run.sh rewrites this literal to the scratch worktree
        Err(_) => PathBuf::from("/repo/"),
    }
}

fn main() {
    let root = repo_root();
    let out = PathBuf::from(std::env::var("OUT_DIR").unwrap());
    println!("cargo:rerun-if-changed=build.rs");
    for d in [
        "write-fonts/generated",
        "write-fonts/src/tables",
        "resources/codegen_inputs",
        "font-test-data/src",
    ] {
        println!("cargo:rerun-if-changed={}", root.join(d).display());
    }
    let reg = registry(&root);
    std::fs::write(out.join("registry.rs"), reg).unwrap();
    let schema = schema(&root);
    std::fs::write(
        out.join("schema.json"),
        serde_json::to_string_pretty(&schema).unwrap(),
    )
    .unwrap();
    std::fs::write(out.join("blobs.rs"), blobs(&root)).unwrap();
}

// ---------------------------------------------------------------------------------------------
// 1. registry
// ---------------------------------------------------------------------------------------------

fn sorted_files(dir: &Path) -> Vec<PathBuf> {
    let mut v: Vec<PathBuf> = std::fs::read_dir(dir)
        .unwrap_or_else(|e| panic!("read_dir {}: {e}", dir.display()))
        .flatten()
        .map(|e| e.path())
        .filter(|p| p.extension().map(|e| e == "rs").unwrap_or(false))
        .collect();
    v.sort();
    v
}

/// identifier following `pat` at every occurrence
fn idents_after<'a>(text: &'a str, pat: &str) -> Vec<&'a str> {
    let mut out = vec![];
    let mut rest = text;
    while let Some(i) = rest.find(pat) {
        let s = &rest[i + pat.len()..];
        let end = s
            .find(|c: char| !(c.is_alphanumeric() || c == '_'))
            .unwrap_or(s.len());
        out.push(&s[..end]);
        rest = &s[end..];
    }
    out
}

fn registry(root: &Path) -> String {
    let mut src = String::new();
    let mut n = 0;
    let mut args_types: Vec<(String, String)> = vec![];
    let mut no_serde: Vec<(String, String)> = vec![];
    writeln!(src, "pub fn registry() -> Vec<TypeOps> {{ vec![").unwrap();
    for modfile in sorted_files(&root.join("write-fonts/src/tables")) {
        let module = modfile.file_stem().unwrap().to_string_lossy().to_string();
        let text = std::fs::read_to_string(&modfile).unwrap();
        // hand-written `impl FontRead for X` next to the include (gsub/gpos lookup enums and lists);
        // glyf's Glyph/SimpleGlyph/CompositeGlyph have no serde derive → listed as skipped
        {
            let t: String = text.split_whitespace().collect::<Vec<_>>().join(" ");
            for name in idents_after(&t, "impl<'a> FontRead<'a> for ") {
                if module == "glyf" {
                    no_serde.push((module.clone(), name.to_string()));
                } else {
                    writeln!(src, "  ops::<write_fonts::tables::{module}::{name}>({module:?}, {name:?}, None),").unwrap();
                    n += 1;
                }
            }
        }
        for inc in idents_after(&text, "generated/generated_") {
            let gen = root.join(format!("write-fonts/generated/generated_{inc}.rs"));
            let Ok(g) = std::fs::read_to_string(&gen) else {
                continue;
            };
            // normalise whitespace so that multi-line impl headers are matched
            let g: String = g.split_whitespace().collect::<Vec<_>>().join(" ");
            let readable = idents_after(&g, "impl<'a> FontRead<'a> for ");
            let mut readable: Vec<&str> = readable
                .into_iter()
                .chain(idents_after(&g, "impl FontRead<'_> for "))
                .collect();
            readable.sort();
            readable.dedup();
            for t in &readable {
                // top-level tag?
                let tagpat = format!("impl TopLevelTable for {t} {{ const TAG: Tag = Tag::new(b\"");
                let tag = g.find(&tagpat).map(|i| {
                    let s = &g[i + tagpat.len()..];
                    s[..s.find('"').unwrap()].to_string()
                });
                writeln!(
                    src,
                    "  ops::<write_fonts::tables::{module}::{t}>({module:?}, {t:?}, {}),",
                    match tag {
                        Some(t) => format!("Some({t:?})"),
                        None => "None".into(),
                    }
                )
                .unwrap();
                n += 1;
            }
            // tables that convert from a read-fonts table but cannot be read without arguments
            let mut rest = g.as_str();
            while let Some(i) = rest.find("FromTableRef<read_fonts::tables::") {
                let s = &rest[i..];
                if let Some(j) = s.find(" for ") {
                    let t = &s[j + 5..];
                    let end = t
                        .find(|c: char| !(c.is_alphanumeric() || c == '_'))
                        .unwrap_or(t.len());
                    let name = &t[..end];
                    if !readable.contains(&name) {
                        args_types.push((module.clone(), name.to_string()));
                    }
                    rest = &s[j + 5..];
                } else {
                    break;
                }
            }
        }
    }
    writeln!(src, "] }}").unwrap();
    writeln!(src, "pub const REGISTRY_LEN: usize = {n};").unwrap();
    args_types.sort();
    args_types.dedup();
    writeln!(
        src,
        "/// table types with FromTableRef but without FontRead (need read arguments)"
    )
    .unwrap();
    writeln!(src, "pub static READ_WITH_ARGS_TYPES: &[(&str, &str)] = &[").unwrap();
    for (m, t) in &args_types {
        writeln!(src, "  ({m:?}, {t:?}),").unwrap();
    }
    writeln!(src, "];").unwrap();
    writeln!(src, "/// FontRead types without serde derives (cannot be enumerated by X2)").unwrap();
    writeln!(src, "pub static NO_SERDE_TYPES: &[(&str, &str)] = &[").unwrap();
    for (m, t) in &no_serde {
        writeln!(src, "  ({m:?}, {t:?}),").unwrap();
    }
    writeln!(src, "];").unwrap();
    src
}

// ---------------------------------------------------------------------------------------------
// 2. schema (codegen inputs DSL)
// ---------------------------------------------------------------------------------------------

struct P<'a> {
    s: &'a [u8],
    i: usize,
}

impl<'a> P<'a> {
    fn ws(&mut self) {
        loop {
            while self.i < self.s.len() && (self.s[self.i] as char).is_whitespace() {
                self.i += 1;
            }
            if self.s[self.i..].starts_with(b"//") {
                while self.i < self.s.len() && self.s[self.i] != b'\n' {
                    self.i += 1;
                }
            } else {
                break;
            }
        }
    }
    fn eof(&mut self) -> bool {
        self.ws();
        self.i >= self.s.len()
    }
    fn peek(&mut self) -> u8 {
        self.ws();
        *self.s.get(self.i).unwrap_or(&0)
    }
    fn ident(&mut self) -> String {
        self.ws();
        let st = self.i;
        while self.i < self.s.len()
            && ((self.s[self.i] as char).is_alphanumeric() || self.s[self.i] == b'_')
        {
            self.i += 1;
        }
        String::from_utf8_lossy(&self.s[st..self.i]).to_string()
    }
    fn eat(&mut self, c: u8) -> bool {
        if self.peek() == c {
            self.i += 1;
            true
        } else {
            false
        }
    }
    /// balanced text up to (not including) the closing delimiter matching an already consumed opener
    fn balanced(&mut self, open: u8, close: u8) -> String {
        let st = self.i;
        let mut depth = 1;
        while self.i < self.s.len() {
            let c = self.s[self.i];
            if c == b'"' {
                self.i += 1;
                while self.i < self.s.len() && self.s[self.i] != b'"' {
                    self.i += 1;
                }
            } else if c == open {
                depth += 1;
            } else if c == close {
                depth -= 1;
                if depth == 0 {
                    let t = String::from_utf8_lossy(&self.s[st..self.i]).to_string();
                    self.i += 1;
                    return t;
                }
            }
            self.i += 1;
        }
        panic!("unbalanced");
    }
    /// `#[name(args)]`, `#[name = value]`, `#[name]` → (name, args-or-value)
    fn attrs(&mut self) -> Vec<(String, String)> {
        let mut out = vec![];
        loop {
            self.ws();
            if self.s[self.i..].starts_with(b"#![") {
                self.i += 3;
                self.balanced(b'[', b']');
                continue;
            }
            if self.s[self.i..].starts_with(b"#[") {
                self.i += 2;
                let inner = self.balanced(b'[', b']');
                let inner = inner.trim();
                let end = inner
                    .find(|c: char| !(c.is_alphanumeric() || c == '_'))
                    .unwrap_or(inner.len());
                let name = inner[..end].to_string();
                let rest = inner[end..].trim();
                let arg = if let Some(r) = rest.strip_prefix('(') {
                    r.strip_suffix(')').unwrap_or(r).trim().to_string()
                } else if let Some(r) = rest.strip_prefix('=') {
                    r.trim().trim_matches('"').to_string()
                } else {
                    String::new()
                };
                out.push((name, arg));
                continue;
            }
            break;
        }
        out
    }
    /// text up to a `,` at nesting depth 0 or the closing `}` of the item (not consumed)
    fn until_comma(&mut self) -> String {
        self.ws();
        let st = self.i;
        let mut depth = 0i32;
        while self.i < self.s.len() {
            let c = self.s[self.i];
            match c {
                b'<' | b'(' | b'[' => depth += 1,
                b'>' | b')' | b']' => depth -= 1,
                b',' if depth == 0 => break,
                b'}' if depth == 0 => break,
                _ => {}
            }
            self.i += 1;
        }
        let t = String::from_utf8_lossy(&self.s[st..self.i]).trim().to_string();
        if self.i < self.s.len() && self.s[self.i] == b',' {
            self.i += 1;
        }
        t
    }
}

fn parse_num(s: &str) -> Option<u64> {
    let s = s.trim().replace('_', "");
    if let Some(h) = s.strip_prefix("0x").or_else(|| s.strip_prefix("0X")) {
        u64::from_str_radix(h, 16).ok()
    } else if let Some(b) = s.strip_prefix("0b") {
        u64::from_str_radix(b, 2).ok()
    } else {
        s.parse().ok()
    }
}

/// convert thing_offset -> thing, thing_offsets -> things (font-codegen/src/fields.rs
/// `remove_offset_from_field_name`; declaration-level naming rule, re-stated here)
fn owned_name(name: &str, is_offset: bool) -> String {
    if !is_offset || !(name.ends_with("_offset") || name.ends_with("_offsets")) {
        return name.to_string();
    }
    if name.ends_with('s') {
        let temp = name.trim_end_matches("_offsets");
        let suffix = if temp.ends_with("attach") || temp.ends_with("patch") {
            "es"
        } else if temp.ends_with("data") {
            ""
        } else {
            "s"
        };
        format!("{temp}{suffix}")
    } else {
        name.trim_end_matches("_offset").to_string()
    }
}

fn attrs_json(attrs: &[(String, String)]) -> Value {
    let mut m = serde_json::Map::new();
    for (k, v) in attrs {
        m.insert(k.clone(), json!(v));
    }
    Value::Object(m)
}

fn schema(root: &Path) -> Value {
    let mut structs = vec![];
    let mut flags = vec![];
    let mut formats = vec![];
    let mut enums = vec![];
    let mut groups = vec![];
    for f in sorted_files(&root.join("resources/codegen_inputs")) {
        let file = f.file_stem().unwrap().to_string_lossy().to_string();
        if file.starts_with("test_") {
            continue;
        }
        let text = std::fs::read_to_string(&f).unwrap();
        let mut p = P {
            s: text.as_bytes(),
            i: 0,
        };
        while !p.eof() {
            let attrs = p.attrs();
            if p.eof() {
                break;
            }
            let kw = p.ident();
            match kw.as_str() {
                "extern" => {
                    // `extern scalar X;` / `extern record X;`
                    while p.i < p.s.len() && p.s[p.i] != b';' {
                        p.i += 1;
                    }
                    p.i += 1;
                }
                "table" | "record" => {
                    let name = p.ident();
                    if p.eat(b'<') {
                        p.balanced(b'<', b'>');
                    }
                    assert!(p.eat(b'{'), "{file}: expected {{ after {name}");
                    let mut fields = vec![];
                    loop {
                        let fattrs = p.attrs();
                        if p.eat(b'}') {
                            break;
                        }
                        let fname = p.ident();
                        assert!(p.eat(b':'), "{file}::{name}: expected ':' after {fname}");
                        let ty = p.until_comma();
                        let is_offset = ty.contains("Offset16")
                            || ty.contains("Offset24")
                            || ty.contains("Offset32");
                        fields.push(json!({
                            "name": fname,
                            "owned": owned_name(&fname, is_offset),
                            "ty": ty,
                            "is_offset": is_offset,
                            "is_array": ty.starts_with('[') || ty.starts_with("VarLenArray") || ty.starts_with("ComputedArray"),
                            "attrs": attrs_json(&fattrs),
                        }));
                    }
                    structs.push(json!({
                        "file": file, "kind": kw, "name": name,
                        "attrs": attrs_json(&attrs), "fields": fields,
                    }));
                }
                "flags" | "enum" => {
                    let repr = p.ident();
                    let name = p.ident();
                    assert!(p.eat(b'{'));
                    let mut consts = vec![];
                    let mut mask = 0u64;
                    loop {
                        let _ = p.attrs();
                        if p.eat(b'}') {
                            break;
                        }
                        let cname = p.ident();
                        assert!(p.eat(b'='), "{file}::{name}::{cname}");
                        let v = p.until_comma();
                        let n = parse_num(&v).unwrap_or_else(|| panic!("{file}::{name}::{cname} = {v}"));
                        mask |= n;
                        consts.push(json!({"name": cname, "value": n}));
                    }
                    let item = json!({"file": file, "name": name, "repr": repr, "consts": consts, "mask": mask});
                    if kw == "flags" {
                        flags.push(item)
                    } else {
                        enums.push(item)
                    }
                }
                "group" => {
                    // `group Name(Inner, $field) { 1 => Variant(Type), … }` — the variant is selected by
                    // the value of `$field` of the Inner table
                    let name = p.ident();
                    assert!(p.eat(b'('));
                    let head = p.balanced(b'(', b')');
                    let mut hs = head.split(',').map(|x| x.trim().trim_start_matches('$').to_string());
                    let inner = hs.next().unwrap_or_default();
                    let field = hs.next().unwrap_or_default();
                    assert!(p.eat(b'{'));
                    let body = p.balanced(b'{', b'}');
                    let mut variants = vec![];
                    for line in body.split(',') {
                        if let Some((n, rest)) = line.split_once("=>") {
                            let vname = rest.trim().split('(').next().unwrap_or("").trim().to_string();
                            if let Some(n) = parse_num(n) {
                                variants.push(json!({"value": n, "name": vname}));
                            }
                        }
                    }
                    groups.push(json!({"file": file, "name": name, "inner": inner, "field": field, "variants": variants}));
                }
                "format" => {
                    // `format u16 Name {` or `format DeltaFormat@4 Name {`
                    let repr = p.ident();
                    if p.eat(b'@') {
                        p.ident();
                    }
                    let name = p.ident();
                    assert!(p.eat(b'{'));
                    let mut variants = vec![];
                    loop {
                        let vattrs = p.attrs();
                        if p.eat(b'}') {
                            break;
                        }
                        let vname = p.ident();
                        assert!(p.eat(b'('));
                        let inner = p.balanced(b'(', b')');
                        p.eat(b',');
                        variants.push(json!({"name": vname, "ty": inner.trim(), "attrs": attrs_json(&vattrs)}));
                    }
                    formats.push(json!({"file": file, "name": name, "repr": repr, "variants": variants}));
                }
                other => panic!("{file}: unexpected item keyword {other:?} at byte {}", p.i),
            }
        }
    }
    json!({"structs": structs, "flags": flags, "enums": enums, "formats": formats, "groups": groups})
}

// ---------------------------------------------------------------------------------------------
// 3. font-test-data blobs
// ---------------------------------------------------------------------------------------------

fn blobs(root: &Path) -> String {
    let mut src = String::new();
    writeln!(src, "pub fn test_data_blobs() -> Vec<(&'static str, Vec<u8>)> {{ vec![").unwrap();
    for f in sorted_files(&root.join("font-test-data/src")) {
        let module = f.file_stem().unwrap().to_string_lossy().to_string();
        if module == "lib" || module == "bebuffer" {
            continue;
        }
        let text = std::fs::read_to_string(&f).unwrap();
        for line in text.lines() {
            let l = line.trim();
            if let Some(r) = l.strip_prefix("pub static ") {
                if let Some((name, rest)) = r.split_once(':') {
                    if rest.trim_start().starts_with("&[u8]") {
                        let name = name.trim();
                        writeln!(
                            src,
                            "  ({:?}, font_test_data::{module}::{name}.to_vec()),",
                            format!("{module}::{name}")
                        )
                        .unwrap();
                    }
                }
            } else if let Some(r) = l.strip_prefix("pub fn ") {
                if let Some((name, rest)) = r.split_once('(') {
                    if rest.trim_start().starts_with(") -> BeBuffer") {
                        writeln!(
                            src,
                            "  ({:?}, font_test_data::{module}::{name}().as_slice().to_vec()),",
                            format!("{module}::{name}()")
                        )
                        .unwrap();
                    }
                }
            }
        }
    }
    writeln!(src, "] }}").unwrap();
    src
}
