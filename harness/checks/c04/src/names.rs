//! Source 4 — the `name` table over the full product (platform, encoding) × boundary string × form.
//! X2 reaches these only partly (a Windows (3,10) record with a non-BMP string is four deviations),
//! so the product is enumerated directly; the oracle is the same strong oracle as everywhere else
//! (`strong::<Name, Plain>`), the schema domain does not restrict anything here.
//!
//! pairs:  (0,3) (0,4) Unicode, (1,0) MacRoman, (3,0) (3,1) (3,10) Windows → UTF-16BE,
//!         (2,0) and (3,2): no supported encoding — `Validate` must reject them (counted, never a panic)
//! forms:  one record; two sorted records (the string first or second); one record plus a
//!         version-1 language tag carrying the string.

//!
//! The same module also runs two smaller text families the serde tape cannot reach within k
//! (five or more deviations deep): `post` version 2 glyph names (Pascal strings; `Post::new_v2`) and
//! `meta` data maps ('dlng' ScriptLangTags lists and an opaque-bytes entry).

use super::{strong, Ctx, Local, Plain, TypeOps};
use write_fonts::tables::meta::{DataMapRecord, Meta, Metadata, ScriptLangTag};
use write_fonts::tables::post::Post;
use write_fonts::types::Tag;
use crate::tde::family_strings as boundary_strings;
use serde_json::{json, Value};
use write_fonts::tables::name::{LangTagRecord, Name, NameRecord};
use write_fonts::types::NameId;

pub const PAIRS: &[(u16, u16)] = &[(0, 3), (0, 4), (1, 0), (3, 0), (3, 1), (3, 10), (2, 0), (3, 2)];
pub const FORMS: &[&str] = &["one_record", "two_records_string_first", "two_records_string_second", "record_and_lang_tag"];

fn build(pair: (u16, u16), s: &str, form: &str) -> Name {
    let rec = |id: u16, s: &str| NameRecord::new(pair.0, pair.1, 0, NameId::new(id), s.to_string().into());
    let mut n = Name::default();
    match form {
        "two_records_string_first" => n.name_record = vec![rec(1, s), rec(2, "a")],
        "two_records_string_second" => n.name_record = vec![rec(1, "a"), rec(2, s)],
        "record_and_lang_tag" => {
            n.name_record = vec![rec(1, "a")];
            n.lang_tag_record = Some(vec![LangTagRecord::new(s.to_string().into())]);
        }
        _ => n.name_record = vec![rec(1, s)],
    }
    n
}

fn one(ctx: &Ctx, ops: &TypeOps, pair: (u16, u16), si: usize, form: &str, l: &mut Local) {
    let strings = boundary_strings();
    let Some(s) = strings.get(si) else { return };
    let v = build(pair, s, form);
    l.evals += 1;
    l.cnt("name_family_cases");
    let case = || json!({"source": "name_family", "pair": [pair.0, pair.1], "string_index": si, "string": s.chars().take(8).collect::<String>(), "form": form});
    strong::<Name, Plain>(ctx, ops, &v, &case, " (name family)", true, l);
}

pub const POST_FORMS: &[&str] = &["only", "after_notdef", "before_custom", "twice"];
pub const META_FORMS: &[&str] = &["dlng_one", "dlng_first_of_two", "dlng_second_of_two", "other_bytes"];

fn text_case(ctx: &Ctx, reg: &[TypeOps], family: &str, si: usize, form: &str, l: &mut Local) {
    let strings = boundary_strings();
    let Some(s) = strings.get(si) else { return };
    let case = || json!({"source": "text_family", "family": family, "string_index": si, "string": s.chars().take(8).collect::<String>(), "form": form});
    l.evals += 1;
    match family {
        "post" => {
            let Some(ops) = reg.iter().find(|o| o.module == "post" && o.name == "Post") else { return };
            let names: Vec<&str> = match form {
                "after_notdef" => vec![".notdef", s],
                "before_custom" => vec![s, "custom"],
                "twice" => vec![s, "A", s],
                _ => vec![s],
            };
            let v = Post::new_v2(names);
            l.cnt("post_family_cases");
            strong::<Post, Plain>(ctx, ops, &v, &case, " (post glyph-name family)", true, l);
        }
        _ => {
            let Some(ops) = reg.iter().find(|o| o.module == "meta" && o.name == "Meta") else { return };
            let tag = |t: &str| ScriptLangTag::new(t.to_string()).expect("ScriptLangTag::new is infallible");
            let data = match form {
                "dlng_first_of_two" => (Tag::new(b"dlng"), Metadata::ScriptLangTags(vec![tag(s), tag("a")])),
                "dlng_second_of_two" => (Tag::new(b"dlng"), Metadata::ScriptLangTags(vec![tag("a"), tag(s)])),
                "other_bytes" => (Tag::new(b"appl"), Metadata::Other(s.as_bytes().to_vec())),
                _ => (Tag::new(b"dlng"), Metadata::ScriptLangTags(vec![tag(s)])),
            };
            let v = Meta::new(vec![DataMapRecord::new(data.0, data.1)]);
            l.cnt("meta_family_cases");
            strong::<Meta, Plain>(ctx, ops, &v, &case, " (meta text family)", true, l);
        }
    }
}

pub fn run_text_families(ctx: &Ctx, reg: &[TypeOps], l: &mut Local) {
    ctx.run.bound(
        "post_and_meta_text_families",
        json!({"strings": "the X2 string alphabet + 10 UTF-16 boundary characters and 7 MacRoman boundary characters, each in first / middle / last position (tde::family_strings)", "post_v2_forms": POST_FORMS, "meta_forms": META_FORMS}),
    );
    for si in 0..boundary_strings().len() {
        for form in POST_FORMS {
            text_case(ctx, reg, "post", si, form, l);
        }
        for form in META_FORMS {
            text_case(ctx, reg, "meta", si, form, l);
        }
    }
}

pub fn replay_text(ctx: &Ctx, reg: &[TypeOps], case: &Value, l: &mut Local) {
    let family = if case["family"].as_str() == Some("post") { "post" } else { "meta" };
    let si = case["string_index"].as_u64().unwrap_or(0) as usize;
    let form = POST_FORMS
        .iter()
        .chain(META_FORMS.iter())
        .find(|f| Some(**f) == case["form"].as_str())
        .copied()
        .unwrap_or("only");
    text_case(ctx, reg, family, si, form, l);
}

pub fn run_family(ctx: &Ctx, reg: &[TypeOps], l: &mut Local) {
    let Some(ops) = reg.iter().find(|o| o.module == "name" && o.name == "Name") else {
        l.machinery.push("name::Name is not in the registry".into());
        return;
    };
    ctx.run.bound(
        "name_family",
        json!({"platform_encoding_pairs": PAIRS, "strings": "the X2 string alphabet + 10 UTF-16 boundary characters and 7 MacRoman boundary characters, each in first / middle / last position (tde::family_strings)", "forms": FORMS}),
    );
    for pair in PAIRS {
        for si in 0..boundary_strings().len() {
            for form in FORMS {
                one(ctx, ops, *pair, si, form, l);
            }
        }
    }
}

pub fn replay(ctx: &Ctx, reg: &[TypeOps], case: &Value, l: &mut Local) {
    let Some(ops) = reg.iter().find(|o| o.module == "name" && o.name == "Name") else { return };
    let pair = (
        case["pair"][0].as_u64().unwrap_or(0) as u16,
        case["pair"][1].as_u64().unwrap_or(0) as u16,
    );
    let si = case["string_index"].as_u64().unwrap_or(0) as usize;
    let form = FORMS
        .iter()
        .find(|f| Some(**f) == case["form"].as_str())
        .copied()
        .unwrap_or("one_record");
    one(ctx, ops, pair, si, form, l);
}
