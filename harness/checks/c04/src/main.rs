//! C04 — a compiled table reads back as the table that was written.  See DESIGN.md §3 C04.
//!
//! SPACE ENUMERATED
//!   source 1 (X2): for every registered owned type T, every value `T::deserialize(tape)` whose tape
//!     has at most k non-zero choices (`vcore::explore` order, one task per first deviation); k per
//!     type is recorded (`per_type[..].k_completed`): all types at k, and k+1 for every type whose
//!     ≤k pass yields at most `extend_below` values.  Alphabets: `tde::Alphabets` (scalars, lengths),
//!     all enum variants, {None, Some}, flag words from the schema's declared bits, tags from
//!     `tde::TAGS`.
//!   source 2 (parse-derived): `read(bytes)` → owned for every table of every corpus font whose tag has
//!     a registered top-level type (distinct (type, bytes, read-args) only), and for every
//!     font-test-data byte blob against the type(s) its name designates.
//!   REGISTRY: build.rs lists every write-fonts type with `FontRead` (generated + the hand-written
//!     lookup enums/lists); `adaptors()` adds read-with-args tables with a hand-written reader; the
//!     remaining read-with-args tables and the serde-less glyf types are listed in the evidence.
//! ORACLES  `strong` / `stability`, as in DESIGN C04.
//! DOMAIN   `domain::Schema::verdict` — consistency derived from resources/codegen_inputs/*.rs plus
//!          three small explicit tables for hand-written types (all printed in the evidence); values
//!          outside are counted as outside_domain{reason} and never judged.
//! DEVELOPMENT SWITCHES (env): C04_K, C04_EXTEND override the bounds (shown in `bounds`);
//!          C04_ONLY=x2|corpus|blobs restricts the sources and marks the run non-exhaustive.

mod dcounts;
mod direct;
mod domain;
mod names;
mod packed;
mod tde;
mod vser;
mod widths;
mod x3;

use domain::{Schema, Verdict, OPAQUE_RELATION_TYPES};
use rayon::prelude::*;
use read_fonts::{FontData, FontRead};
use serde::de::DeserializeOwned;
use serde::Serialize;
use serde_json::{json, Value};
use std::collections::{BTreeMap, BTreeSet, HashSet};
use std::sync::Mutex;
use tde::{Alphabets, TapeDe};
use vcore::*;
use write_fonts::validate::Validate;
use write_fonts::{dump_table, FontWrite};

include!(concat!(env!("OUT_DIR"), "/registry.rs"));
include!(concat!(env!("OUT_DIR"), "/blobs.rs"));

fn main() {
    main_for("C04", body)
}

// ---------------------------------------------------------------------------------------------
// type-erased per-type operations
// ---------------------------------------------------------------------------------------------

pub trait Owned: FontWrite + Validate + PartialEq + std::fmt::Debug + Serialize + DeserializeOwned {}
impl<T> Owned for T where T: FontWrite + Validate + PartialEq + std::fmt::Debug + Serialize + DeserializeOwned {}

/// Read arguments that come from other tables of the same font (corpus values of read-with-args types).
#[derive(Clone, Copy, Debug, Default)]
pub struct FontArgs {
    pub num_glyphs: u16,
    pub number_of_h_metrics: u16,
    pub number_of_long_ver_metrics: u16,
}

/// How bytes become an owned `T`.  `Plain` = `T::read(bytes)` (every generated `FontRead` type).
/// Types whose reader needs arguments get a hand-written adaptor (`adaptors` below) that takes the
/// arguments from the value that was written (`like`) or, for a corpus table, from the font.
pub trait Reader<T>: 'static {
    fn read(bytes: &[u8], like: Option<&T>, font: Option<&FontArgs>) -> Result<T, read_fonts::ReadError>;
    /// the read arguments `read(.., Some(like), ..)` will use, in the order of the schema's
    /// `#[read_args(..)]` — the schema predicates bind them so that e.g. `#[count(add($num_glyphs, 1))]`
    /// is checked against what the adaptor supplies
    fn root_args(_like: &T) -> Vec<i128> {
        vec![]
    }
    /// the type's own `compute_size()` where it has a public one: must equal the compiled length
    fn expected_size(_v: &T) -> Option<usize> {
        None
    }
}
pub struct Plain;
impl<T: for<'a> FontRead<'a>> Reader<T> for Plain {
    fn read(bytes: &[u8], _: Option<&T>, _: Option<&FontArgs>) -> Result<T, read_fonts::ReadError> {
        T::read(FontData::new(bytes))
    }
}

pub struct TypeOps {
    pub module: &'static str,
    pub name: &'static str,
    pub tag: Option<&'static str>,
    /// enumerate all tapes with ≤ k deviations
    pub x2: fn(&Ctx, &TypeOps, &mut Local),
    /// run exactly one tape
    pub x2_one: fn(&Ctx, &TypeOps, &[u32], &mut Local),
    /// parse-derived value from bytes; returns whether the bytes parsed
    pub parsed: fn(&Ctx, &TypeOps, &[u8], &str, bool, Option<&FontArgs>, &mut Local) -> bool,
    /// "FontRead" or the name of the hand adaptor
    pub reader: &'static str,
    /// count-width family: the all-default value with the named array fields forced to n elements
    pub bound_case: fn(&Ctx, &TypeOps, &widths::Group, usize, bool, &mut Local),
    /// distinct-counts family: the value selected by one (mode, order, presence) spec
    pub dc_case: fn(&Ctx, &TypeOps, &dcounts::Spec, &mut Local),
}

impl TypeOps {
    fn full(&self) -> String {
        format!("{}::{}", self.module, self.name)
    }
}

pub fn ops<T: Owned + for<'a> FontRead<'a>>(module: &'static str, name: &'static str, tag: Option<&'static str>) -> TypeOps {
    ops_with::<T, Plain>(module, name, tag, "FontRead")
}

pub fn ops_with<T: Owned, R: Reader<T>>(
    module: &'static str,
    name: &'static str,
    tag: Option<&'static str>,
    reader: &'static str,
) -> TypeOps {
    TypeOps {
        module,
        name,
        tag,
        x2: x2_all::<T, R>,
        x2_one: x2_one::<T, R>,
        parsed: parsed::<T, R>,
        reader,
        bound_case: widths::bound_case::<T, R>,
        dc_case: dcounts::dc_case::<T, R>,
    }
}

pub struct Ctx<'a> {
    pub run: &'a Run,
    pub schema: Schema,
    /// schema of the pinned tree (distinct-counts family), see `Schema::pinned`
    pub pinned: Schema,
    pub alpha: Alphabets,
    pub tier_name: &'static str,
    pub k: usize,
    pub cap_per_type: u64,
    /// a type whose ≤k pass yields at most this many values is also explored at k+1
    pub extend_below: u64,
    /// X3 worker subprocess: violations are streamed to the supervisor (which owns the replay files),
    /// and a panic of the owned conversion on deviated bytes is an observation, not a verdict
    pub worker: bool,
}

impl Ctx<'_> {
    pub fn violation(&self, identity: &str, what: &str, case: Value) {
        if self.worker {
            println!("V {}", json!({"identity": identity, "what": what, "case": case}));
        } else {
            self.run.violation(identity, what, case);
        }
    }
}

#[derive(Default)]
pub struct Local {
    all: HashSet<u64>,
    nontrivial: HashSet<u64>,
    counters: BTreeMap<String, u64>,
    evals: u64,
    trans: u64,
    stability_reasons: BTreeSet<String>,
    unjudged_panics: BTreeSet<String>,
    predicate_disagreements: Vec<Value>,
    samples: Vec<Value>,
    capped: Vec<String>,
    machinery: Vec<String>,
    k_completed: usize,
    /// count-width family: cases rejected by a constraint other than the length bound
    other_constraints: BTreeSet<String>,
}

impl Local {
    fn cnt(&mut self, k: &str) {
        *self.counters.entry(k.to_string()).or_insert(0) += 1;
    }
    fn merge(&mut self, o: Local) {
        self.all.extend(o.all);
        self.nontrivial.extend(o.nontrivial);
        for (k, v) in o.counters {
            *self.counters.entry(k).or_insert(0) += v;
        }
        self.evals += o.evals;
        self.trans += o.trans;
        self.stability_reasons.extend(o.stability_reasons);
        self.unjudged_panics.extend(o.unjudged_panics);
        self.predicate_disagreements.extend(o.predicate_disagreements);
        self.samples.extend(o.samples);
        self.other_constraints.extend(o.other_constraints);
        self.capped.extend(o.capped);
        self.machinery.extend(o.machinery);
    }
}

// ---------------------------------------------------------------------------------------------
// hand adaptors for tables whose reader needs arguments
// ---------------------------------------------------------------------------------------------

mod adapt {
    use super::{FontArgs, Reader};
    use read_fonts::{FontData, ReadError};
    use write_fonts::from_obj::ToOwnedTable;
    use write_fonts::tables as wt;

    fn need<A>(a: Option<A>) -> Result<A, ReadError> {
        a.ok_or(ReadError::InvalidFormat(0xA465))
    }

    /// hmtx: (numberOfHMetrics, numGlyphs) = (h_metrics.len(), h_metrics.len() + left_side_bearings.len())
    pub struct HmtxR;
    impl Reader<wt::hmtx::Hmtx> for HmtxR {
        fn root_args(v: &wt::hmtx::Hmtx) -> Vec<i128> {
            vec![v.h_metrics.len() as i128, (v.h_metrics.len() + v.left_side_bearings.len()) as i128]
        }
        fn read(b: &[u8], like: Option<&wt::hmtx::Hmtx>, font: Option<&FontArgs>) -> Result<wt::hmtx::Hmtx, ReadError> {
            let (n, g) = need(
                like.map(|v| (Self::root_args(v)[0] as u16, Self::root_args(v)[1] as u16))
                    .or(font.map(|f| (f.number_of_h_metrics, f.num_glyphs))),
            )?;
            read_fonts::tables::hmtx::Hmtx::read(FontData::new(b), n, g).map(|t| t.to_owned_table())
        }
    }
    pub struct VmtxR;
    impl Reader<wt::vmtx::Vmtx> for VmtxR {
        fn root_args(v: &wt::vmtx::Vmtx) -> Vec<i128> {
            vec![v.v_metrics.len() as i128, (v.v_metrics.len() + v.top_side_bearings.len()) as i128]
        }
        fn read(b: &[u8], like: Option<&wt::vmtx::Vmtx>, font: Option<&FontArgs>) -> Result<wt::vmtx::Vmtx, ReadError> {
            let (n, g) = need(
                like.map(|v| (Self::root_args(v)[0] as u16, Self::root_args(v)[1] as u16))
                    .or(font.map(|f| (f.number_of_long_ver_metrics, f.num_glyphs))),
            )?;
            read_fonts::tables::vmtx::Vmtx::read(FontData::new(b), n, g).map(|t| t.to_owned_table())
        }
    }
    /// STAT AxisValueArray: axisValueCount = axis_values.len()
    pub struct AxisValueArrayR;
    impl Reader<wt::stat::AxisValueArray> for AxisValueArrayR {
        fn root_args(v: &wt::stat::AxisValueArray) -> Vec<i128> {
            vec![v.axis_values.len() as i128]
        }
        fn read(b: &[u8], like: Option<&wt::stat::AxisValueArray>, _: Option<&FontArgs>) -> Result<wt::stat::AxisValueArray, ReadError> {
            let n = need(like.map(|v| Self::root_args(v)[0] as u16))?;
            read_fonts::tables::stat::AxisValueArray::read(FontData::new(b), n).map(|t| t.to_owned_table())
        }
    }
    /// sbix / Strike: numGlyphs = glyph_data_offsets.len() - 1 of the (first) strike
    pub struct SbixR;
    impl Reader<wt::sbix::Sbix> for SbixR {
        fn root_args(v: &wt::sbix::Sbix) -> Vec<i128> {
            vec![v.strikes.first().map(|s| s.glyph_data_offsets.len().saturating_sub(1) as i128).unwrap_or(0)]
        }
        fn read(b: &[u8], like: Option<&wt::sbix::Sbix>, font: Option<&FontArgs>) -> Result<wt::sbix::Sbix, ReadError> {
            let n = need(
                like.map(|v| Self::root_args(v)[0] as u16)
                    .or(font.map(|f| f.num_glyphs)),
            )?;
            read_fonts::tables::sbix::Sbix::read(FontData::new(b), n).map(|t| t.to_owned_table())
        }
    }
    pub struct StrikeR;
    impl Reader<wt::sbix::Strike> for StrikeR {
        fn root_args(v: &wt::sbix::Strike) -> Vec<i128> {
            vec![v.glyph_data_offsets.len().saturating_sub(1) as i128]
        }
        fn read(b: &[u8], like: Option<&wt::sbix::Strike>, _: Option<&FontArgs>) -> Result<wt::sbix::Strike, ReadError> {
            let n = need(like.map(|v| Self::root_args(v)[0] as u16))?;
            read_fonts::tables::sbix::Strike::read(FontData::new(b), n).map(|t| t.to_owned_table())
        }
    }
    /// GPOS BaseArray: markClassCount = number of anchors of the (first) base record
    pub struct BaseArrayR;
    impl Reader<wt::gpos::BaseArray> for BaseArrayR {
        fn root_args(v: &wt::gpos::BaseArray) -> Vec<i128> {
            vec![v.base_records.first().map(|r| r.base_anchors.len() as i128).unwrap_or(0)]
        }
        fn read(b: &[u8], like: Option<&wt::gpos::BaseArray>, _: Option<&FontArgs>) -> Result<wt::gpos::BaseArray, ReadError> {
            let n = need(like.map(|v| Self::root_args(v)[0] as u16))?;
            read_fonts::tables::gpos::BaseArray::read(FontData::new(b), n).map(|t| t.to_owned_table())
        }
    }
    /// TupleVariationHeader / Tuple: axisCount = length of whichever coordinate array is present
    pub struct TupleVariationHeaderR;
    impl Reader<wt::variations::TupleVariationHeader> for TupleVariationHeaderR {
        fn root_args(v: &wt::variations::TupleVariationHeader) -> Vec<i128> {
            let n = if !v.peak_tuple.is_empty() {
                v.peak_tuple.len()
            } else if !v.intermediate_start_tuple.is_empty() {
                v.intermediate_start_tuple.len()
            } else {
                v.intermediate_end_tuple.len()
            };
            vec![n as i128]
        }
        fn expected_size(v: &wt::variations::TupleVariationHeader) -> Option<usize> {
            Some(v.compute_size() as usize)
        }
        fn read(
            b: &[u8],
            like: Option<&wt::variations::TupleVariationHeader>,
            _: Option<&FontArgs>,
        ) -> Result<wt::variations::TupleVariationHeader, ReadError> {
            let n = need(like.map(|v| Self::root_args(v)[0] as u16))?;
            read_fonts::tables::variations::TupleVariationHeader::read(FontData::new(b), n).map(|t| t.to_owned_table())
        }
    }
    pub struct TupleR;
    impl Reader<wt::variations::Tuple> for TupleR {
        fn root_args(v: &wt::variations::Tuple) -> Vec<i128> {
            vec![v.values.len() as i128]
        }
        fn read(b: &[u8], like: Option<&wt::variations::Tuple>, _: Option<&FontArgs>) -> Result<wt::variations::Tuple, ReadError> {
            use write_fonts::from_obj::ToOwnedObj;
            let n = need(like.map(|v| v.values.len() as u16))?;
            read_fonts::tables::variations::Tuple::read(FontData::new(b), n).map(|t| t.to_owned_obj(FontData::new(b)))
        }
    }
    pub struct Mark2ArrayR;
    impl Reader<wt::gpos::Mark2Array> for Mark2ArrayR {
        fn root_args(v: &wt::gpos::Mark2Array) -> Vec<i128> {
            vec![v.mark2_records.first().map(|r| r.mark2_anchors.len() as i128).unwrap_or(0)]
        }
        fn read(b: &[u8], like: Option<&wt::gpos::Mark2Array>, _: Option<&FontArgs>) -> Result<wt::gpos::Mark2Array, ReadError> {
            let n = need(like.map(|v| Self::root_args(v)[0] as u16))?;
            read_fonts::tables::gpos::Mark2Array::read(FontData::new(b), n).map(|t| t.to_owned_table())
        }
    }
}

/// registry entries for read-with-args types (hand-written; the rest of READ_WITH_ARGS_TYPES is
/// listed in the evidence as not covered as a root type — they are still covered inside their
/// parent tables)
fn adaptors() -> Vec<TypeOps> {
    use write_fonts::tables as wt;
    vec![
        ops_with::<wt::hmtx::Hmtx, adapt::HmtxR>("hmtx", "Hmtx", Some("hmtx"), "value: (h_metrics.len, h_metrics.len + left_side_bearings.len); corpus: hhea.numberOfHMetrics, maxp.numGlyphs"),
        ops_with::<wt::vmtx::Vmtx, adapt::VmtxR>("vmtx", "Vmtx", Some("vmtx"), "value: (v_metrics.len, v_metrics.len + top_side_bearings.len); corpus: vhea.numOfLongVerMetrics, maxp.numGlyphs"),
        ops_with::<wt::stat::AxisValueArray, adapt::AxisValueArrayR>("stat", "AxisValueArray", None, "value: axis_values.len"),
        ops_with::<wt::sbix::Sbix, adapt::SbixR>("sbix", "Sbix", Some("sbix"), "value: strikes[0].glyph_data_offsets.len - 1; corpus: maxp.numGlyphs"),
        ops_with::<wt::sbix::Strike, adapt::StrikeR>("sbix", "Strike", None, "value: glyph_data_offsets.len - 1"),
        ops_with::<wt::gpos::BaseArray, adapt::BaseArrayR>("gpos", "BaseArray", None, "value: base_records[0].base_anchors.len"),
        ops_with::<wt::gpos::Mark2Array, adapt::Mark2ArrayR>("gpos", "Mark2Array", None, "value: mark2_records[0].mark2_anchors.len"),
        ops_with::<wt::variations::TupleVariationHeader, adapt::TupleVariationHeaderR>("variations", "TupleVariationHeader", None, "value: length of the first non-empty coordinate array; compute_size() compared with the compiled length"),
        ops_with::<wt::variations::Tuple, adapt::TupleR>("variations", "Tuple", None, "value: values.len"),
    ]
}

// ---------------------------------------------------------------------------------------------
// the oracles
// ---------------------------------------------------------------------------------------------

fn err_kind<E: std::fmt::Debug>(e: &E) -> String {
    let s = format!("{e:?}");
    s.split(|c: char| c == '(' || c == '{' || c == ' ')
        .next()
        .unwrap_or("")
        .to_string()
}

/// Known defects get the identity the coordinator files them under; every other difference gets the
/// generic `"<Type> round trip: <path> <class>"`, so a different defect has a different identity.
fn identity_for(schema: &Schema, type_name: &str, d: &vser::Diff, written: &Value) -> String {
    // the defect is named after the innermost struct that owns the differing field, so that one
    // defect seen through several containing tables has one identity
    let generic = format!("{} round trip: {} {}", d.owner, d.rel, d.class);
    let is_null = |k: &str| written.get(k).map(|v| v.is_null()).unwrap_or(false);
    if type_name == "Avar"
        && d.path == "axis_segment_maps"
        && d.class == "re-read array longer"
        && (!is_null("axis_index_map") || !is_null("var_store"))
    {
        return "Avar round trip: v2 axis_segment_maps re-read with extra maps".into();
    }
    if type_name == "Colr"
        && d.path == "base_glyph_list"
        && d.class == "present when written, absent after re-read"
        && ["layer_list", "clip_list", "var_index_map", "item_variation_store"]
            .iter()
            .all(|k| is_null(k))
    {
        return "Colr round trip: v1 table with only base_glyph_list compiles as v0".into();
    }
    // one root cause seen through several tables: `ComputedArray::new` derives the element count as
    // byte_len / element_size, so an array of zero-size records (e.g. regions of a 0-axis region
    // list) re-reads empty.  Recognised only when the schema types the field as ComputedArray, the
    // re-read array is empty and every written element consists of nothing but absent fields and empty arrays.
    let is_computed = schema
        .structs
        .get(&d.owner)
        .map(|v| v.iter().any(|s| s.fields.iter().any(|f| f.owned == d.rel && f.ty.starts_with("ComputedArray"))))
        .unwrap_or(false);
    let zero_size = |e: &Value| {
        e.as_object()
            .map(|o| {
                o.iter().all(|(k, x)| {
                    k.starts_with('$')
                        || x.is_null()
                        || x.as_array().map(|a| a.is_empty()).unwrap_or(false)
                        || x.get("bits").and_then(|b| b.as_u64()) == Some(0) // an explicit empty format word
                })
            })
            .unwrap_or(false)
    };
    if is_computed
        && d.class == "re-read array shorter"
        && d.reread.as_array().map(|a| a.is_empty()).unwrap_or(false)
        && d.written.as_array().map(|a| a.iter().all(zero_size)).unwrap_or(false)
    {
        return format!("ComputedArray round trip: zero-size records re-read as an empty array ({}.{})", d.owner, d.rel);
    }
    generic
}

/// STRONG ORACLE.  `v.validate()` Ok ⇒ `b = dump_table(v)` does not panic and is Ok or PackingFailed;
/// `v' = T::read(b)` is Ok; `v' == v` (whole-remainder arrays: written prefix); `dump_table(v') == b`.
/// `stage` is "" for directly judged values and " (re-read value)" for the stability oracle.
fn strong<T: Owned, R: Reader<T>>(
    ctx: &Ctx,
    ops: &TypeOps,
    v: &T,
    case: &dyn Fn() -> Value,
    stage: &str,
    nontrivial: bool,
    l: &mut Local,
) {
    let t = ops.name;
    match guard(|| v.validate()) {
        Err(p) => {
            ctx.violation(
                &format!("{t} validate panics: {} in {}", p.kind(), p.site()),
                &format!("{}{stage}", p.message),
                case(),
            );
            return;
        }
        Ok(Err(_)) => {
            l.cnt("validate_rejected");
            return;
        }
        Ok(Ok(())) => {}
    }
    l.trans += 1;
    let b = match guard(|| dump_table(v)) {
        Err(p) => {
            ctx.violation(
                &format!("{t} dump_table panics on a validated value: {} in {}", p.kind(), p.site()),
                &format!("{}{stage}", p.message),
                case(),
            );
            return;
        }
        Ok(Err(write_fonts::error::Error::PackingFailed(_))) => {
            l.cnt("packing_failed");
            return;
        }
        Ok(Err(e)) => {
            ctx.violation(
                &format!("{t} dump_table fails after validate Ok: {}", err_kind(&e)),
                &format!("{e:?}{stage}"),
                case(),
            );
            return;
        }
        Ok(Ok(b)) => b,
    };
    if let Some(n) = R::expected_size(v) {
        l.cnt("compute_size_compared");
        if n != b.len() {
            ctx.violation(
                &format!("{t} compute_size disagrees with the compiled length"),
                &format!("compute_size() = {n}, compiled {} bytes{stage}: {}", b.len(), hex(&b[..b.len().min(200)])),
                case(),
            );
            return;
        }
    }
    l.trans += 1;
    let v1 = match guard(|| R::read(&b, Some(v), None)) {
        Err(p) => {
            ctx.violation(
                &format!("{t} read of compiled bytes panics: {} in {}", p.kind(), p.site()),
                &format!("{}{stage} ; bytes={}", p.message, hex(&b)),
                case(),
            );
            return;
        }
        Ok(Err(e)) => {
            ctx.violation(
                &format!("{t} round trip: compiled bytes do not read back ({})", err_kind(&e)),
                &format!("{e:?}{stage}; compiled bytes = {}", hex(&b[..b.len().min(200)])),
                case(),
            );
            return;
        }
        Ok(Ok(v1)) => v1,
    };
    let mut prefix_tolerated = false;
    if &v1 != v {
        let (Ok(a), Ok(bj)) = (vser::to_typed(v), vser::to_typed(&v1)) else {
            l.machinery.push(format!("{t}: typed rendering failed"));
            return;
        };
        let mut tolerated = (0u64, 0u64);
        let d = vser::first_diff(
            &a,
            &bj,
            &|s, f| {
                if ctx.schema.is_remainder(s, f) {
                    vser::TOL_REMAINDER
                } else if domain::HINT_FIELDS.iter().any(|(hs, hf, _)| *hs == s && *hf == f) {
                    vser::TOL_HINT_WHEN_NONE
                } else {
                    vser::TOL_NONE
                }
            },
            &mut tolerated,
        );
        match d {
            // The offset packer resolves 16-bit overflows of GSUB/GPOS by promoting lookups to Extension
            // lookups and by splitting subtables (write-fonts/src/graph/*): the re-read table then has
            // the same meaning but not the same shape.  Whether that preserves lookup semantics is C16's
            // property; here such values (compiled size > 64 KiB, difference = a lookup re-read as
            // Extension or with more subtables) are counted and not compared.
            Some(d)
                if b.len() > 0xFFFF
                    && ((d.class == "variant changed" && d.reread.get("$v").and_then(|x| x.as_str()) == Some("Extension"))
                        || (d.owner == "Lookup" && d.rel == "subtables" && d.class == "re-read array longer")) =>
            {
                l.cnt("packer_overflow_resolution_not_compared");
                return;
            }
            Some(d) => {
                let id = identity_for(&ctx.schema, t, &d, &a);
                ctx.violation(
                    &id,
                    &format!(
                        "root type {t}{stage}, at {}: written {} / re-read {}; compiled bytes = {}",
                        d.at,
                        vser::brief(&d.written),
                        vser::brief(&d.reread),
                        hex(&b[..b.len().min(200)])
                    ),
                    case(),
                );
                return;
            }
            None if tolerated.0 > 0 => {
                // whole-remainder array re-read longer with the written prefix intact
                l.cnt("remainder_array_prefix_compared");
                prefix_tolerated = true;
            }
            None if tolerated.1 > 0 => {
                // equal except for hint fields written as None (recompilation is still compared)
                l.cnt("equal_modulo_hint_fields_written_as_none");
            }
            None => {
                ctx.violation(
                    &format!("{t} round trip: values compare unequal but render identically"),
                    &format!("PartialEq reports a difference that the serde rendering does not show{stage}"),
                    case(),
                );
                return;
            }
        }
    }
    if !prefix_tolerated {
        l.trans += 1;
        match guard(|| dump_table(&v1)) {
            Ok(Ok(b2)) => {
                if b2 != b {
                    ctx.violation(
                        &format!("{t} recompile of the re-read value gives different bytes"),
                        &format!("{stage} first = {} / second = {}", hex(&b[..b.len().min(200)]), hex(&b2[..b2.len().min(200)])),
                        case(),
                    );
                    return;
                }
            }
            Ok(Err(e)) => {
                ctx.violation(
                    &format!("{t} recompile of the re-read value fails: {}", err_kind(&e)),
                    &format!("{e:?}{stage}"),
                    case(),
                );
                return;
            }
            Err(p) => {
                ctx.violation(
                    &format!("{t} recompile of the re-read value panics: {} in {}", p.kind(), p.site()),
                    &format!("{}{stage}", p.message),
                    case(),
                );
                return;
            }
        }
    }
    l.cnt("round_trips_held");
    let mut h = Fnv::new();
    h.str(ops.module);
    h.str(t);
    h.bytes(&b);
    let d = h.finish();
    l.all.insert(d);
    if nontrivial && b.len() >= 4 {
        l.nontrivial.insert(d);
    }
}

/// STABILITY ORACLE (X2 values whose relations the schema cannot express): with
/// `v1 = T::read(dump_table(v0))` readable, the strong oracle must hold for v1 (v1 is a parse-derived
/// value): read(dump(v1)) == v1 and dump(v1) is a fixpoint of dump∘read∘dump.  Nothing is demanded
/// of v0 itself; panics / errors on the way to v1 are counted, not judged.
fn stability<T: Owned, R: Reader<T>>(ctx: &Ctx, ops: &TypeOps, v0: &T, case: &dyn Fn() -> Value, nontrivial: bool, l: &mut Local) {
    match guard(|| v0.validate()) {
        Ok(Ok(())) => {}
        Ok(Err(_)) => {
            l.cnt("validate_rejected");
            return;
        }
        Err(p) => {
            l.cnt("stability_unjudged_panic");
            l.unjudged_panics.insert(format!("{} validate: {} in {}", ops.name, p.kind(), p.site()));
            return;
        }
    }
    l.trans += 1;
    let b0 = match guard(|| dump_table(v0)) {
        Ok(Ok(b)) => b,
        Ok(Err(_)) => {
            l.cnt("stability_v0_not_compilable");
            return;
        }
        Err(p) => {
            l.cnt("stability_unjudged_panic");
            l.unjudged_panics.insert(format!("{} dump_table: {} in {}", ops.name, p.kind(), p.site()));
            return;
        }
    };
    l.trans += 1;
    let v1 = match guard(|| R::read(&b0, Some(v0), None)) {
        Ok(Ok(v1)) => v1,
        Ok(Err(_)) => {
            l.cnt("stability_v0_bytes_unreadable");
            return;
        }
        Err(p) => {
            // a reader panic on bytes is a C01 matter, but it is reported here too: reading must not panic
            ctx.violation(
                &format!("{} read of compiled bytes panics: {} in {}", ops.name, p.kind(), p.site()),
                &p.message,
                case(),
            );
            return;
        }
    };
    // v1 itself must describe one table: owned(read(..)) replaces unreadable sub-tables by
    // `Default`, which can be schema-inconsistent (e.g. a default `Device` lacks its packed word)
    if let Ok(tv1) = vser::to_typed(&v1) {
        if let Verdict::Outside(r) = ctx.schema.verdict(&tv1, &R::root_args(&v1)) {
            l.cnt(&format!("stability_reread_value_outside_domain{{{}}}", outside_class(&r)));
            return;
        }
    }
    l.cnt("stability_judged");
    strong::<T, R>(ctx, ops, &v1, case, " (re-read value)", nontrivial, l);
}

// ---------------------------------------------------------------------------------------------
// source 1: X2
// ---------------------------------------------------------------------------------------------

fn outside_class(reason: &str) -> &str {
    reason.split(':').next().unwrap_or(reason)
}

/// `min_dev`: tapes with fewer deviations were already judged by an earlier pass and are only
/// executed (to discover their choice points), not judged or counted again.
fn x2_case<T: Owned, R: Reader<T>>(ctx: &Ctx, ops: &TypeOps, tape: &mut Tape, min_dev: usize, l: &mut Local) -> Option<Value> {
    let v: T = {
        let mut de = TapeDe::new(tape, &ctx.alpha, &ctx.schema.literal_counts, &ctx.schema.flag_alphabets);
        match guard(|| T::deserialize(&mut de)) {
            Ok(Ok(v)) => v,
            Ok(Err(e)) => {
                l.evals += 1;
                l.cnt("x2_not_constructible");
                l.unjudged_panics.insert(format!("{} deserialize error: {}", ops.name, e));
                return None;
            }
            Err(p) => {
                l.evals += 1;
                l.cnt("x2_not_constructible");
                l.unjudged_panics.insert(format!("{} deserialize panic: {}", ops.name, p.kind()));
                return None;
            }
        }
    };
    if tape.deviations() < min_dev {
        return None;
    }
    l.evals += 1;
    let tv = match vser::to_typed(&v) {
        Ok(tv) => tv,
        Err(e) => {
            l.machinery.push(format!("{}: typed rendering failed: {e}", ops.full()));
            return None;
        }
    };
    let choices = tape.choices.clone();
    let tier = ctx.tier_name;
    let full = ops.full();
    let case = || json!({"source": "x2", "type": full, "tape": choices, "alphabet": tier, "value": tv});
    let nontrivial = tape.deviations() >= 1;
    match ctx.schema.verdict(&tv, &R::root_args(&v)) {
        Verdict::Outside(r) => {
            l.cnt(&format!("outside_domain{{{}}}", outside_class(&r)));
            l.cnt("x2_outside_domain");
        }
        Verdict::StabilityOnly(r) => {
            l.cnt("x2_stability_only");
            l.stability_reasons.insert(r);
            stability::<T, R>(ctx, ops, &v, &case, nontrivial, l);
        }
        Verdict::InDomain => {
            l.cnt("x2_in_domain");
            strong::<T, R>(ctx, ops, &v, &case, "", nontrivial, l);
        }
    }
    Some(tv)
}

/// `vcore::explore` restricted to the subtree below `root` (same algorithm, same order): all tapes
/// that extend `root` by deviations at later choice points, at most `bound` deviations in total.
/// Used to spread one type's exploration over all cores (one task per first deviation).
fn explore_from(
    root: Vec<u32>,
    bound: usize,
    mut body: impl FnMut(&mut Tape) -> bool,
) -> Result<ExploreStats, TapeDivergence> {
    let mut st = ExploreStats::default();
    let mut stack: Vec<Vec<u32>> = vec![root];
    while let Some(prefix) = stack.pop() {
        let mut t = Tape::new(&prefix);
        let go = body(&mut t);
        st.executions += 1;
        if let Some(d) = t.diverged {
            return Err(TapeDivergence(d));
        }
        if t.choices.len() < prefix.len() {
            return Err(TapeDivergence(format!(
                "body consumed {} choices but prefix has {}",
                t.choices.len(),
                prefix.len()
            )));
        }
        st.max_depth = st.max_depth.max(t.choices.len());
        if !go {
            st.capped = true;
            break;
        }
        let used = prefix.iter().filter(|c| **c != 0).count();
        if used >= bound {
            continue;
        }
        for i in (prefix.len()..t.choices.len()).rev() {
            for alt in (1..t.arity[i]).rev() {
                let mut p = t.choices[..i].to_vec();
                p.push(alt);
                stack.push(p);
            }
        }
    }
    Ok(st)
}

/// One pass over all tapes with ≤ k deviations; tapes with < min_dev deviations are executed but not
/// judged (they were judged by an earlier pass).  Returns whether the pass was complete.
fn x2_pass<T: Owned, R: Reader<T>>(ctx: &Ctx, ops: &TypeOps, k: usize, min_dev: usize, l: &mut Local) -> bool {
    // the all-default tape: also yields the choice points for the first deviation
    let mut t = Tape::new(&[]);
    let first = x2_case::<T, R>(ctx, ops, &mut t, min_dev, l);
    if min_dev == 0 && l.samples.is_empty() {
        if let Some(v) = &first {
            l.samples.push(json!({"type": ops.full(), "tape": t.choices, "value": v}));
        }
    }
    if k == 0 {
        return true;
    }
    let mut roots: Vec<Vec<u32>> = vec![];
    for i in 0..t.choices.len() {
        for alt in 1..t.arity[i] {
            let mut p = vec![0u32; i];
            p.push(alt);
            roots.push(p);
        }
    }
    let parts: Vec<(Local, bool)> = roots
        .par_iter()
        .map(|root| {
            let mut l = Local::default();
            let mut n = 0u64;
            let r = explore_from(root.clone(), k, |tape| {
                let first = x2_case::<T, R>(ctx, ops, tape, min_dev, &mut l);
                // determinism self-test on the first tapes of every subtree: same tape ⇒ same value
                if n < 4 {
                    let mut t2 = Tape::new(&tape.choices.clone());
                    let mut scratch = Local::default();
                    let second = x2_case::<T, R>(ctx, ops, &mut t2, min_dev, &mut scratch);
                    if first != second || t2.choices != tape.choices {
                        l.machinery.push(format!("{}: tape replay produced a different value", ops.full()));
                    }
                }
                n += 1;
                n < ctx.cap_per_type
            });
            let complete = match r {
                Ok(st) => {
                    if st.capped {
                        l.capped.push(format!(
                            "{}: X2 pass k={k} capped at {} tapes below first deviation {:?}",
                            ops.full(),
                            ctx.cap_per_type,
                            root
                        ));
                    }
                    !st.capped
                }
                Err(d) => {
                    l.machinery.push(format!("{}: tape divergence: {}", ops.full(), d.0));
                    false
                }
            };
            (l, complete)
        })
        .collect();
    let mut complete = true;
    for (part, c) in parts {
        complete &= c;
        l.merge(part);
    }
    complete
}

/// Pass 1: every tape with ≤ k deviations (all types).  Pass 2 (only when pass 1 produced at most
/// `ctx.extend_below` values): every tape with exactly k+1 deviations.  The per-type bound reached
/// is recorded in the evidence (`per_type[..].k_completed`).
fn x2_all<T: Owned, R: Reader<T>>(ctx: &Ctx, ops: &TypeOps, l: &mut Local) {
    let complete = x2_pass::<T, R>(ctx, ops, ctx.k, 0, l);
    l.k_completed = if complete { ctx.k } else { ctx.k.saturating_sub(1) };
    if complete && l.evals <= ctx.extend_below {
        if x2_pass::<T, R>(ctx, ops, ctx.k + 1, ctx.k + 1, l) {
            l.k_completed = ctx.k + 1;
        }
    }
}

fn x2_one<T: Owned, R: Reader<T>>(ctx: &Ctx, ops: &TypeOps, prefix: &[u32], l: &mut Local) {
    let mut tape = Tape::new(prefix);
    x2_case::<T, R>(ctx, ops, &mut tape, 0, l);
    if let Some(d) = tape.diverged {
        l.machinery.push(format!("replay tape diverged: {d}"));
    }
}

// ---------------------------------------------------------------------------------------------
// source 2: parse-derived values
// ---------------------------------------------------------------------------------------------

/// `trusted_consistent`: the bytes are a table of this very type from a real font — judged by the
/// strong oracle whatever the schema predicates say (their verdict is recorded as a self-check of
/// the predicates).  Otherwise (a byte blob tried against every type) values the schema calls
/// self-contradictory are not judged.
fn parsed<T: Owned, R: Reader<T>>(
    ctx: &Ctx,
    ops: &TypeOps,
    bytes: &[u8],
    label: &str,
    trusted_consistent: bool,
    font: Option<&FontArgs>,
    l: &mut Local,
) -> bool {
    let v = match guard(|| R::read(bytes, None, font)) {
        Ok(Ok(v)) => v,
        Ok(Err(_)) => return false,
        Err(p) if ctx.worker => {
            // hostile bytes: a panic in read / owned conversion is C01/C02's business
            l.cnt("x3_owned_conversion_panics");
            l.unjudged_panics.insert(format!("x3: {} read/to_owned panics: {} in {}", ops.name, p.kind(), p.site()));
            return false;
        }
        Err(p) => {
            ctx.violation(
                &format!("{} read panics: {} in {}", ops.name, p.kind(), p.site()),
                &format!("{} on {label}", p.message),
                json!({"source": "parsed", "type": ops.full(), "label": label, "bytes": hex(bytes), "trusted": trusted_consistent, "font_args": font.map(|f| json!([f.num_glyphs, f.number_of_h_metrics, f.number_of_long_ver_metrics]))}),
            );
            return false;
        }
    };
    l.evals += 1;
    let full = ops.full();
    let case = || json!({"source": "parsed", "type": full, "label": label, "bytes": hex(bytes), "trusted": trusted_consistent, "font_args": font.map(|f| json!([f.num_glyphs, f.number_of_h_metrics, f.number_of_long_ver_metrics]))});
    let verdict = vser::to_typed(&v).map(|tv| ctx.schema.verdict(&tv, &R::root_args(&v)));
    match (&verdict, trusted_consistent) {
        (Ok(Verdict::Outside(r)), true) => {
            l.cnt("parsed_corpus_value_outside_schema_predicates");
            if l.predicate_disagreements.len() < 8 {
                l.predicate_disagreements.push(json!({"type": full, "label": label, "reason": r}));
            }
        }
        (Ok(Verdict::Outside(r)), false) => {
            l.cnt(&format!("parsed_blob_outside_domain{{{}}}", outside_class(r)));
            return true;
        }
        _ => {}
    }
    if trusted_consistent {
        if let Ok(Err(report)) = guard(|| v.validate()) {
            // a real font's table whose owned form fails validation: outside the property's
            // precondition, listed for information
            if l.predicate_disagreements.len() < 8 {
                l.predicate_disagreements.push(json!({"type": full, "label": label, "validate_rejects": format!("{report:?}").chars().take(300).collect::<String>()}));
            }
        }
    }
    if ctx.worker {
        if let Ok(Verdict::StabilityOnly(r)) = &verdict {
            // X3: deviated bytes whose relations the schema cannot express (e.g. mark class counts):
            // stability oracle only, like X2 values (name-matched test blobs keep the strong oracle)
            l.cnt("parsed_blob_stability_only");
            l.stability_reasons.insert(r.clone());
            stability::<T, R>(ctx, ops, &v, &case, true, l);
            return true;
        }
    }
    l.cnt(if trusted_consistent { "parsed_corpus_values" } else { "parsed_blob_values" });
    strong::<T, R>(ctx, ops, &v, &case, " (parsed value)", true, l);
    true
}

// ---------------------------------------------------------------------------------------------
// driver
// ---------------------------------------------------------------------------------------------

fn alphabets(tier: &str) -> Alphabets {
    if tier == "thorough" {
        Alphabets::thorough()
    } else {
        Alphabets::quick()
    }
}

/// every distinct (registered top-level type, table bytes, read arguments) of the corpus, in a
/// fixed order (fonts sorted by path, tables in directory order)
pub fn corpus_jobs(reg: &[TypeOps]) -> Vec<(usize, String, Vec<u8>, FontArgs)> {
    let mut jobs: Vec<(usize, String, Vec<u8>, FontArgs)> = vec![];
    let mut seen = HashSet::new();
    for (path, bytes) in corpus_fonts() {
        let fonts: Vec<read_fonts::FontRef> = match read_fonts::FileRef::new(&bytes) {
            Ok(f) => f.fonts().flatten().collect(),
            Err(_) => continue,
        };
        for (fi, font) in fonts.iter().enumerate() {
            use read_fonts::TableProvider;
            let fa = FontArgs {
                num_glyphs: font.maxp().map(|m| m.num_glyphs()).unwrap_or(0),
                number_of_h_metrics: font.hhea().map(|h| h.number_of_h_metrics()).unwrap_or(0),
                number_of_long_ver_metrics: font.vhea().map(|h| h.number_of_long_ver_metrics()).unwrap_or(0),
            };
            for rec in font.table_directory.table_records() {
                let tag = rec.tag();
                let Some(data) = font.table_data(tag) else { continue };
                let tag_s = tag.to_string();
                for (i, ops) in reg.iter().enumerate() {
                    if ops.tag == Some(tag_s.as_str()) {
                        let mut h = Fnv::new();
                        h.u64(i as u64);
                        h.u64(fa.num_glyphs as u64 | (fa.number_of_h_metrics as u64) << 16 | (fa.number_of_long_ver_metrics as u64) << 32);
                        h.bytes(data.as_bytes());
                        if seen.insert(h.finish()) {
                            jobs.push((i, format!("{path}#{fi}:{tag_s}"), data.as_bytes().to_vec(), fa));
                        }
                    }
                }
            }
        }
    }
    jobs
}

fn body(run: &Run, replay: Option<&Value>) {
    run.rule("a case is one owned value of one registered write-fonts type: either the value selected by a choice tape with ≤ k non-zero choices (X2, all tapes enumerated) or T::read of a corpus table / test-data blob; it is judged if schema-consistent; it is non-trivial when it has ≥ 1 non-default choice (or is parse-derived), validates, compiles to ≥ 4 bytes and passes; distinct = distinct (type, compiled bytes)");
    run.assume("schema consistency is computed from resources/codegen_inputs/*.rs by the harness build script (count relations, literal counts, plain version vs since_version, if_flag presence, declared flag bits, Pending* placeholders); values outside are counted, never judged");
    run.assume("distinct-counts family: count relations, optional fields and literal counts are taken from pinned_schema.json (the build script's transcription of resources/codegen_inputs on the pinned tree), not from the live codegen inputs, so a relation changed consistently in schema, reader and writer is still contradicted; differences between pinned and live relations are listed in the evidence");
    run.assume("PartialEq of the owned types is the equality of the property; the serde rendering is only used to name the first differing field and to evaluate the schema predicates");
    run.assume("serde's derived Deserialize constructs exactly the value described by the visited fields (trusted: serde, serde_json, vcore explorer)");
    let mut reg = registry();
    reg.extend(adaptors());
    if let Some(case) = replay {
        let tier = case["alphabet"].as_str().unwrap_or("quick");
        let ctx = Ctx {
            run,
            schema: Schema::load(),
        pinned: Schema::pinned(),
            alpha: alphabets(tier),
            tier_name: if tier == "thorough" { "thorough" } else { "quick" },
            k: 0,
            cap_per_type: 1,
            extend_below: 0,
            worker: false,
        };
        if matches!(case["source"].as_str(), Some("packed_points") | Some("packed_deltas")) {
            let mut l = Local::default();
            packed::replay(run, case, &mut l);
            for (k, v) in &l.counters {
                println!("  {k} = {v}");
            }
            return;
        }
        if case["source"].as_str() == Some("count_width") {
            let mut l = Local::default();
            widths::replay(&ctx, &reg, case, &mut l);
            for (k, v) in &l.counters {
                println!("  {k} = {v}");
            }
            return;
        }
        if case["source"].as_str() == Some("direct_family") {
            let mut l = Local::default();
            direct::one(&ctx, &reg, case, &mut l);
            for (k, v) in &l.counters {
                println!("  {k} = {v}");
            }
            for m in &l.machinery {
                run.machinery_error(m);
            }
            return;
        }
        if case["source"].as_str() == Some("distinct_counts") {
            let mut l = Local::default();
            dcounts::replay(&ctx, &reg, case, &mut l);
            for (k, v) in &l.counters {
                println!("  {k} = {v}");
            }
            return;
        }
        if matches!(case["source"].as_str(), Some("name_family") | Some("text_family")) {
            let mut l = Local::default();
            if case["source"].as_str() == Some("name_family") {
                names::replay(&ctx, &reg, case, &mut l);
            } else {
                names::replay_text(&ctx, &reg, case, &mut l);
            }
            for (k, v) in &l.counters {
                println!("  {k} = {v}");
            }
            return;
        }
        let ty = case["type"].as_str().unwrap_or("");
        let Some(ops) = reg.iter().find(|o| o.full() == ty) else {
            println!("replay: unknown type {ty}");
            return;
        };
        let mut l = Local::default();
        match case["source"].as_str() {
            Some("x2") => {
                let tape: Vec<u32> = case["tape"]
                    .as_array()
                    .map(|a| a.iter().map(|x| x.as_u64().unwrap_or(0) as u32).collect())
                    .unwrap_or_default();
                (ops.x2_one)(&ctx, ops, &tape, &mut l);
            }
            Some("parsed") => {
                let bytes = unhex(case["bytes"].as_str().unwrap_or(""));
                let fa = case["font_args"].as_array().map(|a| FontArgs {
                    num_glyphs: a[0].as_u64().unwrap_or(0) as u16,
                    number_of_h_metrics: a[1].as_u64().unwrap_or(0) as u16,
                    number_of_long_ver_metrics: a[2].as_u64().unwrap_or(0) as u16,
                });
                (ops.parsed)(
                    &ctx,
                    ops,
                    &bytes,
                    case["label"].as_str().unwrap_or(""),
                    case["trusted"].as_bool().unwrap_or(true),
                    fa.as_ref(),
                    &mut l,
                );
            }
            _ => println!("replay: unknown source"),
        }
        for (k, v) in &l.counters {
            println!("  {k} = {v}");
        }
        for m in &l.machinery {
            run.machinery_error(m);
        }
        return;
    }

    let tier_name = run.tier.name();
    let ctx = Ctx {
        run,
        schema: Schema::load(),
        pinned: Schema::pinned(),
        alpha: alphabets(tier_name),
        tier_name: if tier_name == "thorough" { "thorough" } else { "quick" },
        k: std::env::var("C04_K").ok().and_then(|s| s.parse().ok()).unwrap_or(run.tier.pick(2, 3)),
        cap_per_type: run.tier.pick(2_000_000, 50_000_000),
        extend_below: std::env::var("C04_EXTEND").ok().and_then(|s| s.parse().ok()).unwrap_or(run.tier.pick(2_500, 8_000)),
        worker: std::env::var("C04_X3_WORKER").is_ok(),
    };
    if let Ok(spec) = std::env::var("C04_X3_WORKER") {
        x3::worker(&ctx, &reg, &spec); // never returns
    }
    run.bound("x2_deviation_bound_k_all_types", json!(ctx.k));
    run.bound("x2_deviation_bound_k_plus_1_for_types_with_at_most_this_many_values_at_k", json!(ctx.extend_below));
    run.bound("x2_cap_tapes_per_first_deviation_subtree", json!(ctx.cap_per_type));
    run.bound("x2_alphabets", ctx.alpha.describe());
    run.bound("x2_max_nesting_depth", json!(tde::MAX_DEPTH));
    run.count("types_registered", reg.len() as u64);
    run.count("types_registered_with_hand_adaptor", reg.iter().filter(|o| o.reader != "FontRead").count() as u64);
    run.extra(
        "hand_adaptors_for_read_with_args_types",
        json!(reg.iter().filter(|o| o.reader != "FontRead").map(|o| json!({"type": o.full(), "arguments_from": o.reader})).collect::<Vec<_>>()),
    );
    run.extra("schema_survey", ctx.schema.survey.clone());
    run.extra(
        "opaque_relation_types",
        json!(OPAQUE_RELATION_TYPES.iter().map(|(t, w)| json!({"type": t, "why": w})).collect::<Vec<_>>()),
    );
    run.extra(
        "hint_fields_not_compared_when_written_as_none",
        json!(domain::HINT_FIELDS.iter().map(|(s, f, w)| json!({"field": format!("{s}.{f}"), "why": w})).collect::<Vec<_>>()),
    );
    run.extra(
        "flag_bits_fixed_at_one_by_the_spec",
        json!(domain::BITS_FIXED_AT_ONE.iter().map(|(t, b, w)| json!({"flags": t, "bits": b, "source": w})).collect::<Vec<_>>()),
    );
    run.extra(
        "font_read_types_skipped_for_lack_of_serde",
        json!(NO_SERDE_TYPES.iter().map(|(m, t)| format!("{m}::{t}")).collect::<Vec<_>>()),
    );
    run.extra(
        "tag_selected_variant_relations",
        json!(domain::TAG_SELECTED_VARIANTS.iter().map(|(p, t, path, map, other)| json!({"parent": p, "tag_field": t, "enum_at": path, "tag_prefix_to_variant": map.iter().map(|(a, b)| format!("{a}→{b}")).collect::<Vec<_>>(), "other_tags": other})).collect::<Vec<_>>()),
    );
    run.extra(
        "whole_remainder_array_fields_compared_on_written_prefix",
        json!(ctx.schema.remainder_fields.iter().map(|(s, f)| format!("{s}.{f}")).collect::<Vec<_>>()),
    );
    run.extra(
        "read_with_args_table_types_not_in_registry",
        json!(READ_WITH_ARGS_TYPES
            .iter()
            .filter(|(m, t)| !reg.iter().any(|o| o.module == *m && o.name == *t))
            .map(|(m, t)| format!("{m}::{t}"))
            .collect::<Vec<_>>()),
    );

    let total = Mutex::new(Local::default());
    let per_type = Mutex::new(BTreeMap::<String, Value>::new());

    // development switch: C04_ONLY=x2|corpus|blobs restricts the sources (evidence then says so)
    let only = std::env::var("C04_ONLY").ok();
    let want = |s: &str| only.as_deref().map(|o| o.split(',').any(|x| x == s)).unwrap_or(true);
    if let Some(o) = &only {
        run.cap_hit(&format!("C04_ONLY={o}: not all value sources were run"));
    }
    // ---- source 1: X2, one task per type -------------------------------------------------
    let t0 = run.elapsed();
    reg.par_iter().filter(|_| want("x2")).for_each(|ops| {
        let mut l = Local::default();
        (ops.x2)(&ctx, ops, &mut l);
        let row = json!({
            "k_completed": l.k_completed,
            "x2_values": l.evals,
            "in_domain": l.counters.get("x2_in_domain").copied().unwrap_or(0),
            "stability_only": l.counters.get("x2_stability_only").copied().unwrap_or(0),
            "outside_domain": l.counters.get("x2_outside_domain").copied().unwrap_or(0),
            "validate_rejected": l.counters.get("validate_rejected").copied().unwrap_or(0),
            "round_trips_held": l.counters.get("round_trips_held").copied().unwrap_or(0),
            "distinct_compiled": l.all.len(),
        });
        per_type.lock().unwrap().insert(ops.full(), row);
        total.lock().unwrap().merge(l);
    });
    run.extra("x2_wall_s", json!(run.elapsed() - t0));
    {
        let pt = per_type.lock().unwrap();
        let mut by_k: BTreeMap<String, u64> = BTreeMap::new();
        for row in pt.values() {
            *by_k.entry(format!("k={}", row["k_completed"])).or_insert(0) += 1;
        }
        run.extra("x2_types_by_deviation_bound_completed", json!(by_k));
    }

    // ---- source 2a: corpus tables ---------------------------------------------------------
    let t1 = run.elapsed();
    let jobs = if want("corpus") { corpus_jobs(&reg) } else { vec![] };
    run.count("corpus_tables_distinct", jobs.len() as u64);
    jobs.par_iter().for_each(|(i, label, bytes, fa)| {
        let mut l = Local::default();
        let ops = &reg[*i];
        if !(ops.parsed)(&ctx, ops, bytes, label, true, Some(fa), &mut l) {
            l.cnt("corpus_table_unreadable");
        }
        total.lock().unwrap().merge(l);
    });
    run.extra("corpus_wall_s", json!(run.elapsed() - t1));

    // ---- source 2b: font-test-data blobs × every type --------------------------------------
    // A blob is tried against the registered types its name designates (mechanical rule: the
    // lower-cased blob name without '_' / a trailing "table" equals the lower-cased type name, or the
    // type name followed by "format<N>"; IFT mapping-table builders `*_format1()` / `*_format2()` go to
    // ift::PatchMapFormat1/2 and ift::Ift).  Trying every blob against every type is NOT done: garbage
    // such as a whole font file read as base::BaseScript makes the owned conversion allocate without
    // bound (a hostile-input matter, properties C01/C02), which needs worker isolation.
    let blobs = if want("blobs") { test_data_blobs() } else { vec![] };
    run.count("test_data_blobs", blobs.len() as u64);
    let unmatched = Mutex::new(BTreeSet::new());
    blobs.par_iter().for_each(|(label, bytes)| {
        let mut l = Local::default();
        let (module, short) = label.split_once("::").unwrap_or(("", label));
        let bname: String = short
            .trim_end_matches("()")
            .to_ascii_lowercase()
            .replace('_', "");
        let bname = bname.trim_end_matches("table").to_string();
        let mut matched = false;
        for ops in reg.iter() {
            let lname = ops.name.to_ascii_lowercase();
            let by_name = bname == lname
                || bname
                    .strip_prefix(&format!("{lname}format"))
                    .map(|r| !r.is_empty() && r.chars().all(|c| c.is_ascii_digit()))
                    .unwrap_or(false);
            let by_ift = module == "ift"
                && ops.module == "ift"
                && ((bname.contains("format1") && (ops.name == "PatchMapFormat1" || ops.name == "Ift"))
                    || (bname.contains("format2") && (ops.name == "PatchMapFormat2" || ops.name == "Ift")));
            if !(by_name || by_ift) {
                continue;
            }
            l.cnt("blob_type_pairs_tried");
            if (ops.parsed)(&ctx, ops, bytes, label, false, None, &mut l) {
                matched = true;
            }
        }
        if !matched {
            unmatched.lock().unwrap().insert(label.to_string());
        }
        total.lock().unwrap().merge(l);
    });
    run.extra("test_data_blobs_without_a_name_matched_readable_type", json!(*unmatched.lock().unwrap()));

    // ---- source 5: X3 one-byte deviations of corpus tables, in supervised worker processes -------
    if want("x3") {
        let t = run.elapsed();
        let l = x3::supervise(run, &reg);
        total.lock().unwrap().merge(l);
        run.extra("x3_wall_s", json!(run.elapsed() - t));
    }

    // ---- source 4: name table, (platform, encoding) × boundary strings × forms -------------------
    if want("names") {
        let mut l = Local::default();
        names::run_family(&ctx, &reg, &mut l);
        names::run_text_families(&ctx, &reg, &mut l);
        total.lock().unwrap().merge(l);
    }

    // ---- source 6: count-width boundary family ---------------------------------------------------
    if want("widths") {
        let l = widths::run_family(&ctx, &reg);
        total.lock().unwrap().merge(l);
    }

    // ---- source 7: distinct-counts family ---------------------------------------------------------
    if want("dcounts") {
        let t = run.elapsed();
        let l = dcounts::run_family(&ctx, &reg);
        total.lock().unwrap().merge(l);
        run.extra("distinct_counts_wall_s", json!(run.elapsed() - t));
    }

    // ---- source 8: direct families for hand-computed counts (fvar, PairPos 2, MarkBasePos) -----------
    if want("direct") {
        let l = direct::run_families(&ctx, &reg);
        total.lock().unwrap().merge(l);
    }

    // ---- source 3: hand-written packed point numbers / packed deltas, structured families ----------
    if want("packed") {
        let l = packed::run_families(run);
        total.lock().unwrap().merge(l);
    }

    // ---- evidence ---------------------------------------------------------------------------
    let l = std::mem::take(&mut *total.lock().unwrap());
    run.evals(l.evals);
    run.trans(l.trans);
    run.observe_many(&l.all, &l.nontrivial);
    for (k, v) in &l.counters {
        run.count(k, *v);
    }
    for s in l.samples.iter().take(4) {
        run.sample(s.clone());
    }
    for c in &l.capped {
        run.cap_hit(c);
    }
    for m in &l.machinery {
        run.machinery_error(m);
    }
    run.extra("count_width_cases_not_judged_other_constraint", json!(l.other_constraints));
    run.extra("stability_only_relations_derived_from_schema", json!(l.stability_reasons));
    run.extra("unjudged_panics_and_construction_failures", json!(l.unjudged_panics));
    run.extra("corpus_values_rejected_by_schema_predicates_or_by_validate", json!(l.predicate_disagreements));
    run.extra("per_type", json!(*per_type.lock().unwrap()));
}
