//! Source 7 — DISTINCT-COUNTS family ("which count field governs which array").
//!
//! X2 reaches a count and its array with two deviations, so within k = 2/3 every *other* count of the
//! same table is 0 or equal: a reader (or writer) that sizes array A with the count of array B is
//! never contradicted.  This family builds, for every registered type whose schema struct has at
//! least one count-governed array, values in which every independently choosable count takes a
//! different small value and every array element is distinguishable.
//!
//! PLAN (derived from resources/codegen_inputs via schema.json, no per-type code).  The *count
//! variables* of a struct, in declaration order, are
//!   * its `#[read_args]` that a count expression mentions (root types: the hand adaptor derives the
//!     arguments from the value, so they follow the arrays),
//!   * every plain (user-visible) integer field mentioned in a `#[count(..)]` / `#[read_with(..)]` /
//!     `#[read_offset_with(..)]` expression,
//!   * every array that drives a computed count (`#[compile(array_len($a))]`, `plus_one($a.len())`,
//!     `2 * array_len($a)`).
//! Variable i takes the i-th value of SEQ (order `asc`), of SEQ reversed over the variables (`desc`),
//! or 0 with the others ascending (`zero:i`).  Every other count-governed array (including arrays
//! behind `Offset<[T]>` read with a count) gets the length its count expression evaluates to
//! (`domain::Schema::count_expr`, the harness's re-implementation of the schema transforms);
//! whole-remainder arrays get 2 elements.  Mode `root` plans the root struct only (nested tables
//! stay default-shaped); mode `tree` also plans the structs named in the root's field types,
//! recursively to depth 3, binding a child's read arguments to the values its parent passes.
//! PRESENCE of the root's optional (nullable / since_version) fields: `all`, `none`, `upto:<v>` for
//! every version level, `only:<f>` for every nullable field (plus the non-nullable fields its version
//! requires) — this walks every version of the table because all real `#[version]` fields are
//! computed from the optional fields.
//! ELEMENTS: every remaining integer / float scalar that is a member of a schema struct (and is
//! not a governing field, flags word, version, tuple index, enumerated field) takes the next value of
//! a running counter, so no two array elements are equal; everything else is the all-default tape.
//!
//! ORACLE: exactly the X2 dispatch — schema verdict InDomain ⇒ strong oracle, StabilityOnly ⇒
//! stability oracle, Outside ⇒ counted (`distinct_counts_outside_domain{..}`), never judged.

use super::{outside_class, stability, strong, Ctx, Local, Owned, Reader, TypeOps};
use crate::domain::{SStruct, Schema, Verdict};
use crate::tde::TapeDe;
use rayon::prelude::*;
use serde_json::{json, Map, Value};
use std::collections::{BTreeMap, BTreeSet};
use vcore::*;

pub const SEQ: [i128; 10] = [1, 2, 3, 5, 7, 4, 6, 8, 9, 10];
pub const REMAINDER_LEN: usize = 2;
pub const TREE_DEPTH: usize = 3;
/// a planned array longer than this is left unforced (cannot happen with SEQ and the schema's
/// transforms except through multiplication; stated so that the bound is explicit)
pub const MAX_FORCED_LEN: i128 = 512;

#[derive(Clone, Debug, PartialEq)]
pub struct Spec {
    pub mode: String,
    pub order: String,
    pub presence: String,
}

#[derive(Default, Debug)]
pub struct Plan {
    /// names of the count variables, `Struct.var`
    pub vars: Vec<String>,
    pub lens: BTreeMap<(String, String), usize>,
    pub scalars: BTreeMap<(String, String), i128>,
    pub unresolved: Vec<String>,
    planned: BTreeSet<String>,
    next_var: usize,
}

fn int_type(ty: &str) -> bool {
    matches!(ty.trim(), "u8" | "u16" | "u32" | "Uint24")
}

fn dollar_idents(expr: &str) -> Vec<String> {
    let mut out = vec![];
    let b: Vec<char> = expr.chars().collect();
    let mut i = 0;
    while i < b.len() {
        if b[i] == '$' {
            let mut j = i + 1;
            while j < b.len() && (b[j].is_alphanumeric() || b[j] == '_') {
                j += 1;
            }
            out.push(b[i + 1..j].iter().collect());
            i = j;
        } else {
            i += 1;
        }
    }
    out
}

/// raw names of the fields / arguments that some count-like expression of `s` mentions
pub fn governing_names(s: &SStruct) -> BTreeSet<String> {
    let mut g = BTreeSet::new();
    for f in &s.fields {
        if let Some(c) = &f.count {
            g.extend(dollar_idents(c));
        }
        g.extend(f.read_with.iter().cloned());
        if let Some((flag, _)) = &f.if_flag {
            g.insert(flag.clone());
        }
    }
    g
}

/// `array_len($a)` / `plus_one($a.len())` / `2 * array_len($a)` → a
fn driver_of(compile: &str) -> Option<&str> {
    let c = compile.trim();
    c.strip_prefix("array_len($")
        .and_then(|r| r.strip_suffix(')'))
        .or(c.strip_prefix("plus_one($").and_then(|r| r.strip_suffix(".len())")))
        .or(c.strip_prefix("2 * array_len($").and_then(|r| r.strip_suffix(')')))
}

fn hand_computed_count(f: &crate::domain::SField, g: &BTreeSet<String>) -> bool {
    !f.is_array
        && !f.version
        && int_type(&f.ty)
        && g.contains(&f.name)
        && f.compile.as_deref().map(|c| driver_of(c).is_none() && c.trim().parse::<i128>().is_err()).unwrap_or(false)
}

fn is_counted_array(f: &crate::domain::SField) -> bool {
    (f.is_array && f.count.is_some()) || (f.ty.contains("<[") && !f.read_with.is_empty())
}

/// the value variable number `i` of the whole plan takes
fn var_value(order: &str, i: usize, n_root_vars: usize) -> i128 {
    let asc = SEQ[i % SEQ.len()];
    if order == "asc" {
        asc
    } else if order == "desc" {
        if i < n_root_vars {
            SEQ[(n_root_vars - 1 - i) % SEQ.len()]
        } else {
            asc
        }
    } else if let Some(j) = order.strip_prefix("zero:").and_then(|j| j.parse::<usize>().ok()) {
        if i == j {
            0
        } else {
            asc
        }
    } else {
        asc
    }
}

/// the count variables of `s` (root struct only), in plan order
pub fn count_vars(schema: &Schema, s: &SStruct) -> Vec<String> {
    let mut plan = Plan::default();
    plan_struct(schema, s, &BTreeMap::new(), "asc", 0, 0, false, &mut plan);
    plan.vars
}

fn plan_struct(
    schema: &Schema,
    s: &SStruct,
    bound_in: &BTreeMap<String, Option<i128>>,
    order: &str,
    n_root_vars: usize,
    depth: usize,
    tree: bool,
    plan: &mut Plan,
) {
    if !plan.planned.insert(s.name.clone()) {
        return;
    }
    let g = governing_names(s);
    let mut o: Map<String, Value> = Map::new();
    let mut bound: BTreeMap<String, Option<i128>> = BTreeMap::new();
    let mut drivers: BTreeSet<String> = BTreeSet::new();
    let fresh = |plan: &mut Plan, name: String| -> i128 {
        let v = var_value(order, plan.next_var, n_root_vars);
        plan.next_var += 1;
        plan.vars.push(name);
        v
    };
    for a in &s.read_args {
        match bound_in.get(a) {
            Some(v) => {
                bound.insert(a.clone(), *v);
            }
            None if g.contains(a) => {
                let v = fresh(plan, format!("{}.<arg {a}>", s.name));
                bound.insert(a.clone(), Some(v));
            }
            None => {}
        }
    }
    for f in &s.fields {
        if !f.is_array && f.compile.is_none() && !f.version && int_type(&f.ty) && g.contains(&f.name) {
            let v = fresh(plan, format!("{}.{}", s.name, f.owned));
            o.insert(f.owned.clone(), json!(v as i64));
            plan.scalars.insert((s.name.clone(), f.owned.clone()), v);
        } else if let Some(a) = f.compile.as_deref().and_then(driver_of) {
            if let Some(arr) = s.fields.iter().find(|x| x.name == a && (x.is_array || x.ty.contains("<["))) {
                let v = fresh(plan, format!("{}.len({})", s.name, a));
                o.insert(arr.owned.clone(), Value::Array(vec![Value::Null; v as usize]));
                plan.lens.insert((s.name.clone(), arr.owned.clone()), v as usize);
                drivers.insert(arr.name.clone());
            }
        } else if hand_computed_count(f, &g) {
            // `#[compile(self.f())]` count: the writer derives it from the arrays; the arrays are
            // planned as if it had this value (the schema verdict then routes the value to the
            // stability oracle, which demands nothing of the planned value itself)
            let v = fresh(plan, format!("{}.<computed {}>", s.name, f.name));
            o.insert(f.owned.clone(), json!(v as i64));
        }
    }
    for f in &s.fields {
        if !is_counted_array(f) || drivers.contains(&f.name) {
            continue;
        }
        let n = if f.is_array {
            match schema.count_expr(s, &o, &bound, f.count.as_deref().unwrap_or("")) {
                Ok(Some(n)) => Some(n),
                Ok(None) => Some(REMAINDER_LEN as i128),
                Err(()) => None,
            }
        } else {
            schema.operand(s, &o, &bound, &f.read_with[0])
        };
        match n {
            Some(n) if (0..=MAX_FORCED_LEN).contains(&n) => {
                plan.lens.insert((s.name.clone(), f.owned.clone()), n as usize);
                o.insert(f.owned.clone(), Value::Array(vec![Value::Null; n as usize]));
            }
            _ => plan.unresolved.push(format!("{}.{}", s.name, f.owned)),
        }
    }
    if !tree || depth >= TREE_DEPTH {
        return;
    }
    // children: schema structs named in the field types; read arguments bound positionally
    for f in &s.fields {
        let mut names: Vec<String> = vec![];
        let mut cur = String::new();
        for ch in f.ty.chars().chain(std::iter::once(' ')) {
            if ch.is_alphanumeric() || ch == '_' {
                cur.push(ch);
            } else {
                if !cur.is_empty() && schema.structs.contains_key(&cur) {
                    names.push(cur.clone());
                }
                cur.clear();
            }
        }
        for cn in names {
            let cands = &schema.structs[&cn];
            let child = cands.iter().find(|c| c.file == s.file).unwrap_or(&cands[0]);
            let mut b = BTreeMap::new();
            for (i, a) in child.read_args.iter().enumerate() {
                if let Some(x) = f.read_with.get(i) {
                    b.insert(a.clone(), schema.operand(s, &o, &bound, x));
                }
            }
            // an argument the parent computes by hand is unknown here: leave it a free variable
            b.retain(|_, v| v.is_some());
            plan_struct(schema, child, &b, order, n_root_vars, depth + 1, tree, plan);
        }
    }
}

pub fn build_plan(schema: &Schema, root: &SStruct, spec: &Spec) -> Plan {
    let mut plan = Plan::default();
    let n = count_vars(schema, root).len();
    plan_struct(schema, root, &BTreeMap::new(), &spec.order, n, 0, spec.mode == "tree", &mut plan);
    plan
}

fn since(f: &crate::domain::SField) -> (u16, u16) {
    f.since_version.unwrap_or((0, 0))
}

/// presence patterns of the root's optional fields
pub fn presences(s: &SStruct) -> Vec<String> {
    let opt: Vec<&crate::domain::SField> = s.fields.iter().filter(|f| (f.nullable || f.since_version.is_some()) && f.if_flag.is_none()).collect();
    if opt.is_empty() {
        return vec!["all".into()];
    }
    let mut out = vec!["all".to_string(), "none".to_string()];
    let levels: BTreeSet<(u16, u16)> = opt.iter().filter(|f| f.since_version.is_some()).map(|f| since(f)).collect();
    let top = levels.iter().next_back().copied();
    for l in &levels {
        if Some(*l) != top {
            out.push(format!("upto:{}.{}", l.0, l.1));
        }
    }
    for f in &opt {
        if f.nullable {
            out.push(format!("only:{}", f.owned));
        }
    }
    out
}

pub fn presence_map(s: &SStruct, presence: &str) -> BTreeMap<(String, String), bool> {
    let mut m = BTreeMap::new();
    let opt: Vec<&crate::domain::SField> = s.fields.iter().filter(|f| (f.nullable || f.since_version.is_some()) && f.if_flag.is_none()).collect();
    let only = presence.strip_prefix("only:").and_then(|n| opt.iter().find(|f| f.owned == n).copied());
    let upto = presence.strip_prefix("upto:").and_then(|v| {
        let mut it = v.split('.');
        Some((it.next()?.parse::<u16>().ok()?, it.next()?.parse::<u16>().ok()?))
    });
    for f in &opt {
        let some = if presence == "all" {
            true
        } else if presence == "none" {
            false
        } else if let Some(l) = upto {
            f.since_version.is_some() && since(f) <= l || f.since_version.is_none()
        } else if let Some(o) = only {
            f.owned == o.owned || (!f.nullable && f.since_version.is_some() && since(f) <= since(o))
        } else {
            false
        };
        m.insert((s.name.clone(), f.owned.clone()), some);
    }
    m
}

fn root_struct<'a>(ctx: &'a Ctx, module: &str, name: &str) -> Option<&'a SStruct> {
    let cands = ctx.pinned.structs.get(name)?;
    Some(cands.iter().find(|s| s.file == module).unwrap_or(&cands[0]))
}

/// all specs of one root type, in the fixed enumeration order.  Mode `root` is run when the root
/// struct has count variables or optional fields, mode `tree` when planning the children forces
/// more arrays than the root plan does.
pub fn specs(schema: &Schema, s: &SStruct) -> Vec<Spec> {
    let n = count_vars(schema, s).len();
    let mut orders = vec!["asc".to_string(), "desc".to_string()];
    for j in 0..n {
        orders.push(format!("zero:{j}"));
    }
    let pres = presences(s);
    let spec = |m: &str| Spec { mode: m.into(), order: "asc".into(), presence: "all".into() };
    let root_plan = build_plan(schema, s, &spec("root"));
    let tree_plan = build_plan(schema, s, &spec("tree"));
    let mut modes = vec![];
    if !root_plan.lens.is_empty() || pres.len() > 1 {
        modes.push("root");
    }
    if tree_plan.lens.len() > root_plan.lens.len() {
        modes.push("tree");
    }
    let mut out = vec![];
    for mode in modes {
        for o in &orders {
            for p in &pres {
                out.push(Spec { mode: mode.into(), order: o.clone(), presence: p.clone() });
            }
        }
    }
    out
}

pub fn dc_case<T: Owned, R: Reader<T>>(ctx: &Ctx, ops: &TypeOps, spec: &Spec, l: &mut Local) {
    let Some(s) = root_struct(ctx, ops.module, ops.name) else { return };
    let plan = build_plan(&ctx.pinned, s, spec);
    let mut lens = ctx.pinned.literal_counts.clone();
    for (k, v) in &plan.lens {
        lens.insert(k.clone(), *v);
    }
    let options = presence_map(s, &spec.presence);
    // governing fields and counter structs of the whole schema
    let mut governing: BTreeSet<(String, String)> = BTreeSet::new();
    let mut structs: BTreeSet<String> = BTreeSet::new();
    for (name, cands) in &ctx.pinned.structs {
        structs.insert(name.clone());
        for c in cands {
            let g = governing_names(c);
            for f in &c.fields {
                if g.contains(&f.name) || f.version || f.compile.is_some() {
                    governing.insert((name.clone(), f.owned.clone()));
                }
            }
        }
    }
    l.evals += 1;
    l.cnt("distinct_counts_cases");
    let mut tape = Tape::new(&[]);
    let v: T = {
        let mut de = TapeDe::new(&mut tape, &ctx.alpha, &lens, &ctx.pinned.flag_alphabets);
        de.force_some_for_forced_arrays = true; // nested optional arrays of the tree plan
        de.forced_scalars = Some(&plan.scalars);
        de.forced_options = Some(&options);
        de.counter = Some(0);
        de.counter_structs = Some(&structs);
        de.governing = Some(&governing);
        match guard(|| T::deserialize(&mut de)) {
            Ok(Ok(v)) => v,
            Ok(Err(e)) => {
                l.cnt("distinct_counts_not_constructible");
                l.unjudged_panics.insert(format!("{} distinct-counts deserialize error: {}", ops.name, e));
                return;
            }
            Err(p) => {
                l.cnt("distinct_counts_not_constructible");
                l.unjudged_panics.insert(format!("{} distinct-counts deserialize panic: {}", ops.name, p.kind()));
                return;
            }
        }
    };
    let tv = match crate::vser::to_typed(&v) {
        Ok(tv) => tv,
        Err(e) => {
            l.machinery.push(format!("{}: typed rendering failed: {e}", ops.full()));
            return;
        }
    };
    let full = ops.full();
    let case = || json!({"source": "distinct_counts", "type": full, "mode": spec.mode, "order": spec.order, "presence": spec.presence, "alphabet": ctx.tier_name, "value": tv});
    if l.samples.is_empty() && ops.name == "Cpal" && spec.order == "asc" && spec.presence == "all" {
        l.samples.push(json!({"distinct_counts": full, "spec": [spec.mode, spec.order, spec.presence], "variables": plan.vars, "value": tv}));
    }
    match ctx.pinned.verdict(&tv, &R::root_args(&v)) {
        Verdict::Outside(r) => {
            l.cnt(&format!("distinct_counts_outside_domain{{{}}}", outside_class(&r)));
            l.cnt("distinct_counts_outside_domain");
        }
        Verdict::StabilityOnly(r) => {
            l.cnt("distinct_counts_stability_only");
            l.stability_reasons.insert(r);
            stability::<T, R>(ctx, ops, &v, &case, true, l);
        }
        Verdict::InDomain => {
            l.cnt("distinct_counts_in_domain");
            strong::<T, R>(ctx, ops, &v, &case, " (distinct-counts family)", true, l);
        }
    }
}

pub fn run_family(ctx: &Ctx, reg: &[TypeOps]) -> Local {
    let mut jobs: Vec<(usize, Spec)> = vec![];
    let mut listing = vec![];
    for (i, ops) in reg.iter().enumerate() {
        let Some(s) = root_struct(ctx, ops.module, ops.name) else { continue };
        let sp = specs(&ctx.pinned, s);
        if sp.is_empty() {
            continue;
        }
        let tree = build_plan(&ctx.pinned, s, &Spec { mode: "tree".into(), order: "asc".into(), presence: "all".into() });
        listing.push(json!({"type": ops.full(), "root_variables": count_vars(&ctx.pinned, s), "tree_variables": tree.vars.len(),
            "forced_arrays_in_tree_plan": tree.lens.len(), "unresolved_arrays": tree.unresolved, "presences": presences(s), "cases": sp.len()}));
        for x in sp {
            jobs.push((i, x));
        }
    }
    ctx.run.bound(
        "distinct_counts_family",
        json!({"count_values": SEQ, "orders": "asc, desc, zero:i for every root variable", "modes": ["root", "tree"], "tree_depth": TREE_DEPTH,
               "remainder_array_len": REMAINDER_LEN, "presence": "all, none, upto:<version level>, only:<nullable field>",
               "types": listing.len(), "cases": jobs.len()}),
    );
    ctx.run.extra("distinct_counts_plans", json!(listing));
    // informative only: a difference is not a verdict (the family's cases decide by execution), but it
    // tells the reader of a violation that the live schema no longer matches the pinned transcription
    ctx.run.extra("distinct_counts_count_relations_differing_between_pinned_and_live_schema", json!(ctx.pinned.count_relation_differences(&ctx.schema)));
    let parts: Vec<(Local, Value)> = jobs
        .par_iter()
        .map(|(i, spec)| {
            let mut l = Local::default();
            (reg[*i].dc_case)(ctx, &reg[*i], spec, &mut l);
            let row = json!([reg[*i].full(),
                l.counters.get("distinct_counts_in_domain").copied().unwrap_or(0),
                l.counters.get("distinct_counts_stability_only").copied().unwrap_or(0),
                l.counters.get("distinct_counts_outside_domain").copied().unwrap_or(0),
                l.counters.get("round_trips_held").copied().unwrap_or(0)]);
            (l, row)
        })
        .collect();
    let mut total = Local::default();
    let mut per: BTreeMap<String, [u64; 4]> = BTreeMap::new();
    for (p, row) in parts {
        let e = per.entry(row[0].as_str().unwrap_or("").to_string()).or_insert([0; 4]);
        for k in 0..4 {
            e[k] += row[k + 1].as_u64().unwrap_or(0);
        }
        total.merge(p);
    }
    ctx.run.extra(
        "distinct_counts_per_type_[in_domain,stability_only,outside_domain,round_trips_held]",
        json!(per),
    );
    total
}

pub fn replay(ctx: &Ctx, reg: &[TypeOps], case: &Value, l: &mut Local) {
    let ty = case["type"].as_str().unwrap_or("");
    let Some(ops) = reg.iter().find(|o| o.full() == ty) else { return };
    let spec = Spec {
        mode: case["mode"].as_str().unwrap_or("root").to_string(),
        order: case["order"].as_str().unwrap_or("asc").to_string(),
        presence: case["presence"].as_str().unwrap_or("all").to_string(),
    };
    (ops.dc_case)(ctx, ops, &spec, l);
}
