//! X2 — a non-self-describing serde `Deserializer` in which every decision is a `tape.choose(..)`.
//!
//! `T::deserialize(&mut TapeDe::new(tape, ..))` therefore builds *the* value of `T` selected by the
//! tape, and `vcore::explore(k, ..)` enumerates every value of `T` that differs from the all-zero
//! tape (zero scalars, empty sequences, `None`, first enum variant) in at most k decisions.
//!
//! Alphabets: scalars draw from small boundary sets (below), sequences from lengths {0,1,2},
//! options from {None, Some}, enums from all variants, fixed-size arrays/tuples have their
//! declared length.  A sequence that the schema declares with a literal `#[count(N)]` gets exactly
//! N elements (no choice) — the struct/field context needed for that comes from
//! `deserialize_struct(name, fields)`, i.e. from serde, not from per-type code.

use serde::de::{self, DeserializeSeed, IntoDeserializer, Visitor};
use std::collections::BTreeMap;
use vcore::Tape;

#[derive(Debug)]
pub struct DeErr(pub String);
impl std::fmt::Display for DeErr {
    fn fmt(&self, f: &mut std::fmt::Formatter) -> std::fmt::Result {
        write!(f, "{}", self.0)
    }
}
impl std::error::Error for DeErr {}
impl de::Error for DeErr {
    fn custom<T: std::fmt::Display>(msg: T) -> Self {
        DeErr(msg.to_string())
    }
}

/// scalar alphabets (index 0 is always the zero/default value)
pub struct Alphabets {
    pub u8_: Vec<u8>,
    pub i8_: Vec<i8>,
    pub u16_: Vec<u16>,
    pub i16_: Vec<i16>,
    pub u32_: Vec<u32>,
    pub i32_: Vec<i32>,
    pub u64_: Vec<u64>,
    pub i64_: Vec<i64>,
    pub u24: Vec<u32>,
    pub i24: Vec<i32>,
    pub f: Vec<f64>,
    pub strings: Vec<String>,
    pub seq_lens: Vec<usize>,
}

impl Alphabets {
    pub fn quick() -> Self {
        Alphabets {
            u8_: vec![0, 1, 2, 0xFF],
            i8_: vec![0, 1, -1, 127, -128],
            u16_: vec![0, 1, 2, 0xFFFF],
            i16_: vec![0, 1, -1, 0x7FFF, -0x8000],
            u32_: vec![0, 1, 2, 0xFFFF, 0x10000, 0xFFFF_FFFF],
            i32_: vec![0, 1, -1, 0x7FFF_FFFF, -0x8000_0000],
            u64_: vec![0, 1, 2, u64::MAX],
            i64_: vec![0, 1, -1, i64::MAX, i64::MIN],
            u24: vec![0, 1, 2, 0xFFFF, 0x10000, 0xFF_FFFF],
            i24: vec![0, 1, -1, 0x7F_FFFF, -0x80_0000],
            f: vec![0.0, 1.0, -1.0, 0.5],
            strings: boundary_strings(),
            seq_lens: vec![0, 1, 2],
        }
    }
    /// thorough: a few more boundary values per scalar (sign bit, 3 = first value needing 2 bits)
    pub fn thorough() -> Self {
        let mut a = Self::quick();
        a.u8_.extend([3, 0x7F, 0x80]);
        a.u16_.extend([3, 0x7FFF, 0x8000, 0x00FF, 0x0100]);
        a.i16_.extend([2, -2, 0x00FF, 0x0100]);
        a.u32_.extend([3, 0x7FFF_FFFF, 0x8000_0000]);
        a.i32_.extend([2, 0xFFFF, 0x10000, -0x10000]);
        a.u24.extend([3, 0x7F_FFFF, 0x80_0000]);
        a.seq_lens = vec![0, 1, 2, 3];
        a
    }
    pub fn describe(&self) -> serde_json::Value {
        serde_json::json!({
            "u8": self.u8_, "i8": self.i8_, "u16": self.u16_, "i16": self.i16_,
            "u32": self.u32_, "i32": self.i32_, "u64": self.u64_, "i64": self.i64_,
            "Uint24": self.u24, "Int24": self.i24, "float": self.f, "string": self.strings.iter().map(|s| if s.len() > 40 { format!("'x' repeated {} times", s.len()) } else { s.clone() }).collect::<Vec<_>>(), "field_alphabets": FIELD_ALPHABETS.iter().map(|(s, f, a)| format!("{s}.{f}: {a:?}")).collect::<Vec<_>>(),
            "seq_len": self.seq_lens, "Tag": TAGS, "Version16Dot16": VERSIONS_16DOT16, "TupleIndex": TUPLE_INDEX, "flags word": "0, every constant declared in the schema's flags block, their union, all ones", "option": ["None", "Some"], "enum": "all variants",
            "literal #[count(N)] arrays": format!("exactly N elements; for N > {PIN_ABOVE} only elements 0, 1 and N-1 vary, the rest stay default"),
        })
    }
}

pub struct TapeDe<'t> {
    pub tape: &'t mut Tape,
    pub alpha: &'t Alphabets,
    /// (struct, field) → literal element count declared in the schema
    pub literal_counts: &'t BTreeMap<(String, String), usize>,
    /// flags type name → alphabet of `bits` values derived from the schema's `flags` block
    pub flag_alphabets: &'t BTreeMap<String, Vec<u64>>,
    /// count-width family only: an `Option<Vec<..>>` field whose length is forced is `Some` without a choice
    pub force_some_for_forced_arrays: bool,
    /// alphabet for the next unsigned scalar (set when entering a flags struct)
    flag_alpha: Option<&'t Vec<u64>>,
    depth: usize,
    /// struct/field currently being deserialized (consumed by the next seq)
    cur: Option<(&'static str, &'static str)>,
    /// > 0 while inside an element of a long literal-count array that is pinned to its default
    frozen: usize,
    /// newtype name wrapping the next scalar (Uint24 / Int24 have narrower ranges than their repr)
    newtype: Option<&'static str>,
    /// distinct-counts family: (struct, field) → value of a plain integer field, taken without a choice
    pub forced_scalars: Option<&'t BTreeMap<(String, String), i128>>,
    /// distinct-counts family: (struct, field) → an `Option` field is Some / None without a choice
    pub forced_options: Option<&'t BTreeMap<(String, String), bool>>,
    /// distinct-counts family: when Some, every integer / float scalar that is a direct member (field
    /// or array element) of a struct listed in `counter_structs`, is not one of that struct's
    /// `governing` fields, is not a flags word / version / tuple index / enumerated field and is not
    /// pinned, takes the next value of a running counter (1, 2, 3 …) instead of a choice, so that
    /// every array element is distinguishable
    pub counter: Option<u64>,
    pub counter_structs: Option<&'t std::collections::BTreeSet<String>>,
    pub governing: Option<&'t std::collections::BTreeSet<(String, String)>>,
    /// is the innermost struct being deserialized one of `counter_structs`?
    struct_stack: Vec<bool>,
}

pub const MAX_DEPTH: usize = 40;

/// Boundary strings for every owned `String` (name records, language tags, post glyph names,
/// meta script/lang tags …): empty, ASCII, BMP non-ASCII representable in MacRoman ("é"), BMP not in
/// MacRoman ("Ж"), a non-BMP character (surrogate pair in UTF-16), BMP/non-BMP mixed, the last BMP
/// code point, U+FFFD, an embedded NUL, and the 255 / 256 byte lengths of Pascal strings.
pub fn boundary_strings() -> Vec<String> {
    let mut v: Vec<String> = ["", "a", "ab", "é", "Ж", "😀", "a😀b", "\u{FFFF}", "\u{FFFD}", "a\0b"]
        .iter()
        .map(|s| s.to_string())
        .collect();
    v.push("x".repeat(255));
    v.push("x".repeat(256));
    // first and last supplementary code points (UTF-16 surrogate pair boundaries D800 DC00 / DBFF DFFF)
    v.push("\u{10000}".to_string());
    v.push("\u{10FFFF}".to_string());
    v
}

/// UTF-16 structure boundaries: last code point below the surrogate block, first above it, last BMP,
/// first supplementary, low-surrogate wrap (DBC0 DFFF | DC01 DC00 → D800 DFFF / D801 DC00), last
/// code point whose high surrogate is DBFE, first whose high surrogate is DBFF, last non-character-free
/// scalar and char::MAX.
pub const UTF16_BOUNDARY_CHARS: [char; 10] = [
    '\u{D7FF}', '\u{E000}', '\u{FFFF}', '\u{10000}', '\u{103FF}', '\u{10400}', '\u{10FBFF}', '\u{10FC00}', '\u{10FFFD}', '\u{10FFFF}',
];

/// MacRoman boundaries: last ASCII byte 0x7F, byte 0x80 (U+00C4), byte 0xFF (U+02C7), the smallest
/// (U+00A0) and largest (U+FB02) remapped code points, the private-use Apple logo (U+F8FF), and
/// U+00A4, which lies between two mapped code points but is not in MacRoman (must be rejected there).
pub const MACROMAN_BOUNDARY_CHARS: [char; 7] = ['\u{7F}', '\u{C4}', '\u{2C7}', '\u{A0}', '\u{FB02}', '\u{F8FF}', '\u{A4}'];

/// Strings of the name / post / meta product families: the X2 string alphabet followed by every
/// boundary character in first, middle and last position of a three-character string.
pub fn family_strings() -> Vec<String> {
    let mut v = boundary_strings();
    for c in UTF16_BOUNDARY_CHARS.iter().chain(MACROMAN_BOUNDARY_CHARS.iter()) {
        v.push(format!("{c}ab"));
        v.push(format!("a{c}b"));
        v.push(format!("ab{c}"));
    }
    v
}

/// Scalar fields whose interesting values are an enumeration the u16 alphabet does not contain
/// (hand-written; (struct, field) context comes from serde's `deserialize_struct`).
/// name: platform 0 Unicode, 1 Macintosh, 3 Windows, 2 = unsupported; encodings 0, 1, 3, 4, 10, 2.
pub const FIELD_ALPHABETS: &[(&str, &str, &[u16])] = &[
    ("NameRecord", "platform_id", &[0, 1, 3, 2]),
    ("NameRecord", "encoding_id", &[0, 1, 10, 4, 3, 2]),
];

/// TupleIndex alphabet: 0, an index, EMBEDDED_PEAK_TUPLE, INTERMEDIATE_REGION, PRIVATE_POINT_NUMBERS,
/// peak+intermediate, everything
pub const TUPLE_INDEX: [u16; 7] = [0, 1, 0x8000, 0x4000, 0x2000, 0xC000, 0xFFFF];

pub const VERSIONS_16DOT16: [u32; 8] = [0, 0x0000_5000, 0x0001_0000, 0x0001_1000, 0x0002_0000, 0x0002_5000, 0x0003_0000, 0xFFFF_FFFF];

/// tag alphabet: a neutral tag first, then the tags that hand-written readers dispatch on
pub const TAGS: [&str; 7] = ["aaaa", "size", "ss01", "cv01", "dlng", "slng", "DFLT"];

impl<'t> TapeDe<'t> {
    pub fn new(
        tape: &'t mut Tape,
        alpha: &'t Alphabets,
        literal_counts: &'t BTreeMap<(String, String), usize>,
        flag_alphabets: &'t BTreeMap<String, Vec<u64>>,
    ) -> Self {
        TapeDe {
            tape,
            alpha,
            literal_counts,
            flag_alphabets,
            force_some_for_forced_arrays: false,
            flag_alpha: None,
            depth: 0,
            cur: None,
            frozen: 0,
            newtype: None,
            forced_scalars: None,
            forced_options: None,
            counter: None,
            counter_structs: None,
            governing: None,
            struct_stack: vec![],
        }
    }
    /// forced value of the plain integer field `cur`, if the plan names it
    fn forced(&self, cur: Option<(&'static str, &'static str)>) -> Option<i128> {
        let (s, f) = cur?;
        self.forced_scalars?.get(&(s.to_string(), f.to_string())).copied()
    }
    /// next counter value for a scalar at `cur` (None = use the ordinary alphabet)
    fn next_counter(&mut self, cur: Option<(&'static str, &'static str)>) -> Option<u64> {
        let c = self.counter?;
        if self.frozen > 0 || !self.struct_stack.last().copied().unwrap_or(false) {
            return None;
        }
        if let (Some((s, f)), Some(g)) = (cur, self.governing) {
            if g.contains(&(s.to_string(), f.to_string())) {
                return None;
            }
        }
        self.counter = Some(c + 1);
        Some(c + 1)
    }
    /// every decision goes through here; inside a pinned element the default is taken and no
    /// choice point is recorded
    fn choose(&mut self, n: u32) -> u32 {
        if self.frozen > 0 {
            0
        } else {
            self.tape.choose(n)
        }
    }
    fn pick<T: Copy>(&mut self, xs: &[T]) -> T {
        xs[self.choose(xs.len() as u32) as usize]
    }
    fn enter(&mut self) -> Result<(), DeErr> {
        self.depth += 1;
        if self.depth > MAX_DEPTH {
            return Err(DeErr("X2 recursion depth limit".into()));
        }
        Ok(())
    }
}

macro_rules! scalar {
    ($fn:ident, $visit:ident, $field:ident, $ty:ty) => {
        fn $fn<V: Visitor<'de>>(self, v: V) -> Result<V::Value, DeErr> {
            let cur = self.cur.take();
            self.newtype = None;
            if let Some(x) = self.forced(cur) {
                self.flag_alpha = None;
                return v.$visit(x as $ty);
            }
            if let Some(fa) = self.flag_alpha.take() {
                // `bits` of a flags word: 0, every declared constant, their union, all ones
                let x = self.pick(fa);
                return v.$visit(x as $ty);
            }
            if let Some(c) = self.next_counter(cur) {
                // keep small so that the value fits every integer width without wrapping to 0
                return v.$visit(((c - 1) % 120 + 1) as $ty);
            }
            let a = self.alpha;
            let x: $ty = self.pick(&a.$field);
            v.$visit(x)
        }
    };
}

impl<'de, 'a, 't> de::Deserializer<'de> for &'a mut TapeDe<'t> {
    type Error = DeErr;

    /// `true` only so that `font_types::Tag` asks for a string (`deserialize_str`), which lets the
    /// tag alphabet contain the tags that select enum variants; nothing else in these crates
    /// depends on it.
    fn is_human_readable(&self) -> bool {
        true
    }
    fn deserialize_any<V: Visitor<'de>>(self, _v: V) -> Result<V::Value, DeErr> {
        Err(DeErr("deserialize_any: format is not self-describing".into()))
    }
    fn deserialize_ignored_any<V: Visitor<'de>>(self, _v: V) -> Result<V::Value, DeErr> {
        Err(DeErr("deserialize_ignored_any".into()))
    }
    fn deserialize_bool<V: Visitor<'de>>(self, v: V) -> Result<V::Value, DeErr> {
        self.cur = None;
        let b = self.choose(2) == 1;
        v.visit_bool(b)
    }
    scalar!(deserialize_u8, visit_u8, u8_, u8);
    scalar!(deserialize_i8, visit_i8, i8_, i8);
    fn deserialize_u16<V: Visitor<'de>>(self, v: V) -> Result<V::Value, DeErr> {
        let cur = self.cur.take();
        let nt = self.newtype.take();
        if let Some(x) = self.forced(cur) {
            self.flag_alpha = None;
            return v.visit_u16(x as u16);
        }
        if let Some((s, f)) = cur {
            if let Some((_, _, a)) = FIELD_ALPHABETS.iter().find(|(fs, ff, _)| *fs == s && *ff == f) {
                if nt.is_none() && self.flag_alpha.is_none() {
                    let x = self.pick(a);
                    return v.visit_u16(x);
                }
            }
        }
        if let Some(fa) = self.flag_alpha.take() {
            let x = self.pick(fa);
            return v.visit_u16(x as u16);
        }
        if nt == Some("TupleIndex") {
            // packed word of the hand-written TupleIndex: index bits and each flag on its own
            let x = self.pick(&TUPLE_INDEX);
            return v.visit_u16(x);
        }
        if let Some(c) = self.next_counter(cur) {
            return v.visit_u16(((c - 1) % 30000 + 1) as u16);
        }
        let a = self.alpha;
        let x = self.pick(&a.u16_);
        v.visit_u16(x)
    }
    scalar!(deserialize_i16, visit_i16, i16_, i16);
    scalar!(deserialize_u64, visit_u64, u64_, u64);
    scalar!(deserialize_i64, visit_i64, i64_, i64);
    fn deserialize_u32<V: Visitor<'de>>(self, v: V) -> Result<V::Value, DeErr> {
        let cur = self.cur.take();
        if let Some(x) = self.forced(cur) {
            self.flag_alpha = None;
            self.newtype = None;
            return v.visit_u32(x as u32);
        }
        if let Some(fa) = self.flag_alpha.take() {
            self.newtype = None;
            let x = self.pick(fa);
            return v.visit_u32(x as u32);
        }
        let a = self.alpha;
        let nt = self.newtype.take();
        if nt != Some("Version16Dot16") {
            if let Some(c) = self.next_counter(cur) {
                return v.visit_u32(((c - 1) % 30000 + 1) as u32);
            }
        }
        let x = if nt == Some("Uint24") {
            self.pick(&a.u24)
        } else if nt == Some("Version16Dot16") {
            // 0, then the versions the tables define: 0.5, 1.0, 1.1, 2.0, 2.5, 3.0, and all ones
            self.pick(&VERSIONS_16DOT16)
        } else {
            self.pick(&a.u32_)
        };
        v.visit_u32(x)
    }
    fn deserialize_i32<V: Visitor<'de>>(self, v: V) -> Result<V::Value, DeErr> {
        let cur = self.cur.take();
        if let Some(c) = self.next_counter(cur) {
            self.newtype = None;
            return v.visit_i32(((c - 1) % 30000 + 1) as i32);
        }
        let a = self.alpha;
        let x = if self.newtype.take() == Some("Int24") {
            self.pick(&a.i24)
        } else {
            self.pick(&a.i32_)
        };
        v.visit_i32(x)
    }
    fn deserialize_f32<V: Visitor<'de>>(self, v: V) -> Result<V::Value, DeErr> {
        let cur = self.cur.take();
        if let Some(c) = self.next_counter(cur) {
            // k/64 in [0, 1): exact in f32, F2Dot14 and Fixed
            return v.visit_f32((c % 64) as f32 / 64.0);
        }
        let a = self.alpha;
        let x = self.pick(&a.f);
        v.visit_f32(x as f32)
    }
    fn deserialize_f64<V: Visitor<'de>>(self, v: V) -> Result<V::Value, DeErr> {
        let cur = self.cur.take();
        if let Some(c) = self.next_counter(cur) {
            return v.visit_f64((c % 64) as f64 / 64.0);
        }
        let a = self.alpha;
        let x = self.pick(&a.f);
        v.visit_f64(x)
    }
    fn deserialize_char<V: Visitor<'de>>(self, v: V) -> Result<V::Value, DeErr> {
        self.cur = None;
        let c = self.pick(&['a', '\0', 'é', '\u{FFFF}', '😀', '\u{10FFFF}']);
        v.visit_char(c)
    }
    /// only `Tag` deserializes through `deserialize_str` (owned strings use `deserialize_string`)
    fn deserialize_str<V: Visitor<'de>>(self, v: V) -> Result<V::Value, DeErr> {
        self.cur = None;
        let s = self.pick(&TAGS);
        v.visit_str(s)
    }
    fn deserialize_string<V: Visitor<'de>>(self, v: V) -> Result<V::Value, DeErr> {
        self.cur = None;
        let a = self.alpha;
        let i = self.choose(a.strings.len() as u32) as usize;
        v.visit_string(a.strings[i].clone())
    }
    fn deserialize_bytes<V: Visitor<'de>>(self, v: V) -> Result<V::Value, DeErr> {
        self.deserialize_byte_buf(v)
    }
    fn deserialize_byte_buf<V: Visitor<'de>>(self, v: V) -> Result<V::Value, DeErr> {
        self.cur = None;
        let a = self.alpha;
        let n = self.pick(&a.seq_lens);
        let mut b = vec![];
        for _ in 0..n {
            b.push(self.pick(&a.u8_));
        }
        v.visit_byte_buf(b)
    }
    fn deserialize_option<V: Visitor<'de>>(self, v: V) -> Result<V::Value, DeErr> {
        if let (Some((s, f)), Some(fo)) = (self.cur, self.forced_options) {
            if let Some(some) = fo.get(&(s.to_string(), f.to_string())).copied() {
                if !some {
                    self.cur = None;
                    return v.visit_none();
                }
                // keep `cur` so that a sequence inside sees its forced length
                self.enter()?;
                let r = v.visit_some(&mut *self);
                self.depth -= 1;
                return r;
            }
        }
        if self.force_some_for_forced_arrays {
            if let Some((s, f)) = self.cur {
                if self.literal_counts.contains_key(&(s.to_string(), f.to_string())) {
                    // keep `cur` so that the sequence inside sees its forced length
                    self.enter()?;
                    let r = v.visit_some(&mut *self);
                    self.depth -= 1;
                    return r;
                }
            }
        }
        self.cur = None;
        if self.choose(2) == 1 {
            self.enter()?;
            let r = v.visit_some(&mut *self);
            self.depth -= 1;
            r
        } else {
            v.visit_none()
        }
    }
    fn deserialize_unit<V: Visitor<'de>>(self, v: V) -> Result<V::Value, DeErr> {
        v.visit_unit()
    }
    fn deserialize_unit_struct<V: Visitor<'de>>(
        self,
        _name: &'static str,
        v: V,
    ) -> Result<V::Value, DeErr> {
        v.visit_unit()
    }
    fn deserialize_newtype_struct<V: Visitor<'de>>(
        self,
        name: &'static str,
        v: V,
    ) -> Result<V::Value, DeErr> {
        self.newtype = Some(name);
        v.visit_newtype_struct(self)
    }
    fn deserialize_seq<V: Visitor<'de>>(self, v: V) -> Result<V::Value, DeErr> {
        let lit = self.cur.take().and_then(|(s, f)| {
            self.literal_counts
                .get(&(s.to_string(), f.to_string()))
                .copied()
        });
        let n = match lit {
            Some(n) => n,
            None => {
                let a = self.alpha;
                self.pick(&a.seq_lens)
            }
        };
        self.enter()?;
        let r = v.visit_seq(Seq {
            de: &mut *self,
            left: n,
            fields: None,
            sname: "",
            idx: 0,
            pinned_total: if lit.map(|n| n > PIN_ABOVE).unwrap_or(false) { n } else { 0 },
            cur_override: None,
        });
        self.depth -= 1;
        r
    }
    fn deserialize_tuple<V: Visitor<'de>>(self, len: usize, v: V) -> Result<V::Value, DeErr> {
        self.cur = None;
        self.enter()?;
        let r = v.visit_seq(Seq {
            de: &mut *self,
            left: len,
            fields: None,
            sname: "",
            idx: 0,
            pinned_total: 0,
            cur_override: None,
        });
        self.depth -= 1;
        r
    }
    fn deserialize_tuple_struct<V: Visitor<'de>>(
        self,
        _name: &'static str,
        len: usize,
        v: V,
    ) -> Result<V::Value, DeErr> {
        self.deserialize_tuple(len, v)
    }
    fn deserialize_map<V: Visitor<'de>>(self, v: V) -> Result<V::Value, DeErr> {
        self.cur = None;
        let a = self.alpha;
        let n = self.pick(&a.seq_lens);
        self.enter()?;
        let r = v.visit_map(MapAcc {
            de: &mut *self,
            left: n,
        });
        self.depth -= 1;
        r
    }
    fn deserialize_struct<V: Visitor<'de>>(
        self,
        name: &'static str,
        fields: &'static [&'static str],
        v: V,
    ) -> Result<V::Value, DeErr> {
        // distinct-counts family only: `OffsetMarker{obj}` / `NullableOffsetMarker{obj}` are transparent,
        // i.e. the (struct, field) context of the offset field reaches the Option / sequence inside,
        // so that forced presence and forced lengths apply to arrays behind offsets as well
        let wrapper = self.forced_options.is_some() && fields.len() == 1 && fields[0] == "obj" && (name == "OffsetMarker" || name == "NullableOffsetMarker");
        let outer = self.cur;
        self.cur = None;
        self.flag_alpha = if fields.len() == 1 && fields[0] == "bits" {
            self.flag_alphabets.get(name)
        } else {
            None
        };
        self.enter()?;
        let known = if wrapper {
            self.struct_stack.last().copied().unwrap_or(false)
        } else {
            self.counter_structs.map(|k| k.contains(name)).unwrap_or(false)
        };
        self.struct_stack.push(known);
        let r = v.visit_seq(Seq {
            de: &mut *self,
            left: fields.len(),
            fields: Some(fields),
            sname: name,
            idx: 0,
            pinned_total: 0,
            cur_override: if wrapper { outer } else { None },
        });
        self.struct_stack.pop();
        self.depth -= 1;
        r
    }
    fn deserialize_enum<V: Visitor<'de>>(
        self,
        _name: &'static str,
        variants: &'static [&'static str],
        v: V,
    ) -> Result<V::Value, DeErr> {
        self.cur = None;
        let idx = self.choose(variants.len() as u32);
        self.enter()?;
        let r = v.visit_enum(EnumAcc { de: &mut *self, idx });
        self.depth -= 1;
        r
    }
    fn deserialize_identifier<V: Visitor<'de>>(self, _v: V) -> Result<V::Value, DeErr> {
        Err(DeErr("deserialize_identifier on the tape".into()))
    }
}

struct Seq<'a, 't> {
    de: &'a mut TapeDe<'t>,
    left: usize,
    fields: Option<&'static [&'static str]>,
    sname: &'static str,
    idx: usize,
    /// for a literal-count array longer than PIN_ABOVE: its length; only elements 0, 1 and the last
    /// are choice points, the others are pinned to their default
    pinned_total: usize,
    /// transparent offset-marker wrapper: the context handed to the single inner field
    cur_override: Option<(&'static str, &'static str)>,
}

/// literal-count arrays up to this length have every element as a choice point
pub const PIN_ABOVE: usize = 16;

impl<'de, 'a, 't> de::SeqAccess<'de> for Seq<'a, 't> {
    type Error = DeErr;
    fn next_element_seed<S: DeserializeSeed<'de>>(
        &mut self,
        seed: S,
    ) -> Result<Option<S::Value>, DeErr> {
        if self.left == 0 {
            return Ok(None);
        }
        self.left -= 1;
        self.de.cur = self.cur_override.or(self.fields.map(|f| (self.sname, f[self.idx])));
        self.de.newtype = None;
        let i = self.idx;
        self.idx += 1;
        let pin = self.pinned_total > 0 && !(i == 0 || i == 1 || i + 1 == self.pinned_total);
        if pin {
            self.de.frozen += 1;
        }
        let r = seed.deserialize(&mut *self.de).map(Some);
        if pin {
            self.de.frozen -= 1;
        }
        r
    }
    fn size_hint(&self) -> Option<usize> {
        Some(self.left)
    }
}

struct MapAcc<'a, 't> {
    de: &'a mut TapeDe<'t>,
    left: usize,
}

impl<'de, 'a, 't> de::MapAccess<'de> for MapAcc<'a, 't> {
    type Error = DeErr;
    fn next_key_seed<S: DeserializeSeed<'de>>(&mut self, seed: S) -> Result<Option<S::Value>, DeErr> {
        if self.left == 0 {
            return Ok(None);
        }
        self.left -= 1;
        self.de.cur = None;
        seed.deserialize(&mut *self.de).map(Some)
    }
    fn next_value_seed<S: DeserializeSeed<'de>>(&mut self, seed: S) -> Result<S::Value, DeErr> {
        self.de.cur = None;
        seed.deserialize(&mut *self.de)
    }
}

struct EnumAcc<'a, 't> {
    de: &'a mut TapeDe<'t>,
    idx: u32,
}

impl<'de, 'a, 't> de::EnumAccess<'de> for EnumAcc<'a, 't> {
    type Error = DeErr;
    type Variant = Self;
    fn variant_seed<S: DeserializeSeed<'de>>(self, seed: S) -> Result<(S::Value, Self), DeErr> {
        let v = seed.deserialize(IntoDeserializer::<DeErr>::into_deserializer(self.idx))?;
        Ok((v, self))
    }
}

impl<'de, 'a, 't> de::VariantAccess<'de> for EnumAcc<'a, 't> {
    type Error = DeErr;
    fn unit_variant(self) -> Result<(), DeErr> {
        Ok(())
    }
    fn newtype_variant_seed<S: DeserializeSeed<'de>>(self, seed: S) -> Result<S::Value, DeErr> {
        self.de.cur = None;
        self.de.newtype = None;
        seed.deserialize(&mut *self.de)
    }
    fn tuple_variant<V: Visitor<'de>>(self, len: usize, v: V) -> Result<V::Value, DeErr> {
        de::Deserializer::deserialize_tuple(&mut *self.de, len, v)
    }
    fn struct_variant<V: Visitor<'de>>(
        self,
        fields: &'static [&'static str],
        v: V,
    ) -> Result<V::Value, DeErr> {
        de::Deserializer::deserialize_struct(&mut *self.de, "", fields, v)
    }
}
