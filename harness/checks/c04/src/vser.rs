//! A serde `Serializer` that renders any value as `serde_json::Value` *with type names*:
//!
//! * struct            → `{"$t": "StructName", field: value, …}`
//! * enum variant      → `{"$e": "EnumName", "$v": "VariantName", "$c": content-or-null}`
//! * newtype struct    → the inner value (GlyphId16, F2Dot14, … are just numbers)
//! * `OffsetMarker{obj}` / `NullableOffsetMarker{obj}` → the target (or null)
//! * Option            → null / inner;  seq, tuple → array;  map → array of [k, v] pairs
//!
//! The names come from serde's derive (`serialize_struct(name, ..)`), so the schema predicates and
//! the difference reporter need no per-type code.

use serde::ser::{self, Serialize};
use serde_json::{json, Map, Value};

#[derive(Debug)]
pub struct SerErr(pub String);
impl std::fmt::Display for SerErr {
    fn fmt(&self, f: &mut std::fmt::Formatter) -> std::fmt::Result {
        write!(f, "{}", self.0)
    }
}
impl std::error::Error for SerErr {}
impl ser::Error for SerErr {
    fn custom<T: std::fmt::Display>(msg: T) -> Self {
        SerErr(msg.to_string())
    }
}

pub fn to_typed<T: Serialize + ?Sized>(v: &T) -> Result<Value, SerErr> {
    v.serialize(VSer)
}

pub struct VSer;

pub struct SeqS(Vec<Value>);
pub struct MapS(Vec<Value>, Option<Value>);
pub struct StructS(&'static str, Map<String, Value>);
pub struct VariantSeqS(&'static str, &'static str, Vec<Value>);
pub struct VariantStructS(&'static str, &'static str, Map<String, Value>);

impl ser::Serializer for VSer {
    type Ok = Value;
    type Error = SerErr;
    type SerializeSeq = SeqS;
    type SerializeTuple = SeqS;
    type SerializeTupleStruct = SeqS;
    type SerializeTupleVariant = VariantSeqS;
    type SerializeMap = MapS;
    type SerializeStruct = StructS;
    type SerializeStructVariant = VariantStructS;

    fn is_human_readable(&self) -> bool {
        false
    }
    fn serialize_bool(self, v: bool) -> Result<Value, SerErr> {
        Ok(json!(v))
    }
    fn serialize_i8(self, v: i8) -> Result<Value, SerErr> {
        Ok(json!(v))
    }
    fn serialize_i16(self, v: i16) -> Result<Value, SerErr> {
        Ok(json!(v))
    }
    fn serialize_i32(self, v: i32) -> Result<Value, SerErr> {
        Ok(json!(v))
    }
    fn serialize_i64(self, v: i64) -> Result<Value, SerErr> {
        Ok(json!(v))
    }
    fn serialize_u8(self, v: u8) -> Result<Value, SerErr> {
        Ok(json!(v))
    }
    fn serialize_u16(self, v: u16) -> Result<Value, SerErr> {
        Ok(json!(v))
    }
    fn serialize_u32(self, v: u32) -> Result<Value, SerErr> {
        Ok(json!(v))
    }
    fn serialize_u64(self, v: u64) -> Result<Value, SerErr> {
        Ok(json!(v))
    }
    fn serialize_f32(self, v: f32) -> Result<Value, SerErr> {
        Ok(json!({"$f32bits": v.to_bits()}))
    }
    fn serialize_f64(self, v: f64) -> Result<Value, SerErr> {
        Ok(json!({"$f64bits": v.to_bits()}))
    }
    fn serialize_char(self, v: char) -> Result<Value, SerErr> {
        Ok(json!(v.to_string()))
    }
    fn serialize_str(self, v: &str) -> Result<Value, SerErr> {
        Ok(json!(v))
    }
    fn serialize_bytes(self, v: &[u8]) -> Result<Value, SerErr> {
        Ok(json!(v))
    }
    fn serialize_none(self) -> Result<Value, SerErr> {
        Ok(Value::Null)
    }
    fn serialize_some<T: Serialize + ?Sized>(self, v: &T) -> Result<Value, SerErr> {
        v.serialize(VSer)
    }
    fn serialize_unit(self) -> Result<Value, SerErr> {
        Ok(json!([]))
    }
    fn serialize_unit_struct(self, name: &'static str) -> Result<Value, SerErr> {
        Ok(json!({ "$t": name }))
    }
    fn serialize_unit_variant(
        self,
        name: &'static str,
        _i: u32,
        variant: &'static str,
    ) -> Result<Value, SerErr> {
        Ok(json!({"$e": name, "$v": variant, "$c": null}))
    }
    fn serialize_newtype_struct<T: Serialize + ?Sized>(
        self,
        _name: &'static str,
        v: &T,
    ) -> Result<Value, SerErr> {
        v.serialize(VSer)
    }
    fn serialize_newtype_variant<T: Serialize + ?Sized>(
        self,
        name: &'static str,
        _i: u32,
        variant: &'static str,
        v: &T,
    ) -> Result<Value, SerErr> {
        Ok(json!({"$e": name, "$v": variant, "$c": v.serialize(VSer)?}))
    }
    fn serialize_seq(self, len: Option<usize>) -> Result<SeqS, SerErr> {
        Ok(SeqS(Vec::with_capacity(len.unwrap_or(0))))
    }
    fn serialize_tuple(self, len: usize) -> Result<SeqS, SerErr> {
        Ok(SeqS(Vec::with_capacity(len)))
    }
    fn serialize_tuple_struct(self, _name: &'static str, len: usize) -> Result<SeqS, SerErr> {
        Ok(SeqS(Vec::with_capacity(len)))
    }
    fn serialize_tuple_variant(
        self,
        name: &'static str,
        _i: u32,
        variant: &'static str,
        len: usize,
    ) -> Result<VariantSeqS, SerErr> {
        Ok(VariantSeqS(name, variant, Vec::with_capacity(len)))
    }
    fn serialize_map(self, _len: Option<usize>) -> Result<MapS, SerErr> {
        Ok(MapS(vec![], None))
    }
    fn serialize_struct(self, name: &'static str, _len: usize) -> Result<StructS, SerErr> {
        Ok(StructS(name, Map::new()))
    }
    fn serialize_struct_variant(
        self,
        name: &'static str,
        _i: u32,
        variant: &'static str,
        _len: usize,
    ) -> Result<VariantStructS, SerErr> {
        Ok(VariantStructS(name, variant, Map::new()))
    }
}

impl ser::SerializeSeq for SeqS {
    type Ok = Value;
    type Error = SerErr;
    fn serialize_element<T: Serialize + ?Sized>(&mut self, v: &T) -> Result<(), SerErr> {
        self.0.push(v.serialize(VSer)?);
        Ok(())
    }
    fn end(self) -> Result<Value, SerErr> {
        Ok(Value::Array(self.0))
    }
}
impl ser::SerializeTuple for SeqS {
    type Ok = Value;
    type Error = SerErr;
    fn serialize_element<T: Serialize + ?Sized>(&mut self, v: &T) -> Result<(), SerErr> {
        self.0.push(v.serialize(VSer)?);
        Ok(())
    }
    fn end(self) -> Result<Value, SerErr> {
        Ok(Value::Array(self.0))
    }
}
impl ser::SerializeTupleStruct for SeqS {
    type Ok = Value;
    type Error = SerErr;
    fn serialize_field<T: Serialize + ?Sized>(&mut self, v: &T) -> Result<(), SerErr> {
        self.0.push(v.serialize(VSer)?);
        Ok(())
    }
    fn end(self) -> Result<Value, SerErr> {
        Ok(Value::Array(self.0))
    }
}
impl ser::SerializeTupleVariant for VariantSeqS {
    type Ok = Value;
    type Error = SerErr;
    fn serialize_field<T: Serialize + ?Sized>(&mut self, v: &T) -> Result<(), SerErr> {
        self.2.push(v.serialize(VSer)?);
        Ok(())
    }
    fn end(self) -> Result<Value, SerErr> {
        Ok(json!({"$e": self.0, "$v": self.1, "$c": self.2}))
    }
}
impl ser::SerializeMap for MapS {
    type Ok = Value;
    type Error = SerErr;
    fn serialize_key<T: Serialize + ?Sized>(&mut self, k: &T) -> Result<(), SerErr> {
        self.1 = Some(k.serialize(VSer)?);
        Ok(())
    }
    fn serialize_value<T: Serialize + ?Sized>(&mut self, v: &T) -> Result<(), SerErr> {
        let k = self.1.take().unwrap_or(Value::Null);
        self.0.push(json!([k, v.serialize(VSer)?]));
        Ok(())
    }
    fn end(self) -> Result<Value, SerErr> {
        Ok(Value::Array(self.0))
    }
}
impl ser::SerializeStruct for StructS {
    type Ok = Value;
    type Error = SerErr;
    fn serialize_field<T: Serialize + ?Sized>(
        &mut self,
        key: &'static str,
        v: &T,
    ) -> Result<(), SerErr> {
        self.1.insert(key.to_string(), v.serialize(VSer)?);
        Ok(())
    }
    fn end(mut self) -> Result<Value, SerErr> {
        if (self.0 == "OffsetMarker" || self.0 == "NullableOffsetMarker") && self.1.len() == 1 {
            if let Some(inner) = self.1.remove("obj") {
                return Ok(inner);
            }
        }
        self.1.insert("$t".into(), json!(self.0));
        Ok(Value::Object(self.1))
    }
}
impl ser::SerializeStructVariant for VariantStructS {
    type Ok = Value;
    type Error = SerErr;
    fn serialize_field<T: Serialize + ?Sized>(
        &mut self,
        key: &'static str,
        v: &T,
    ) -> Result<(), SerErr> {
        self.2.insert(key.to_string(), v.serialize(VSer)?);
        Ok(())
    }
    fn end(self) -> Result<Value, SerErr> {
        Ok(json!({"$e": self.0, "$v": self.1, "$c": Value::Object(self.2)}))
    }
}

// ---------------------------------------------------------------------------------------------
// first difference between two typed renderings
// ---------------------------------------------------------------------------------------------

/// (path with indices replaced by `[]`, class, precise path with indices)
pub struct Diff {
    /// innermost struct type that owns the differing field, and the path relative to it
    pub owner: String,
    pub rel: String,
    pub path: String,
    pub class: &'static str,
    pub at: String,
    pub written: Value,
    pub reread: Value,
}

/// shortened rendering for messages
pub fn brief(v: &Value) -> Value {
    let s = v.to_string();
    if s.len() > 300 {
        json!(format!("{}…", &s[..s.char_indices().take_while(|(i, _)| *i < 300).last().map(|(i, c)| i + c.len_utf8()).unwrap_or(0)]))
    } else {
        v.clone()
    }
}

/// `tolerate_longer(struct, field)` = the field is a whole-remainder array: the re-read array may be
/// longer than the written one as long as the written prefix is intact.
/// what `tolerate(struct, field)` may answer
pub const TOL_NONE: u8 = 0;
/// whole-remainder array: re-read may be longer, written prefix must be intact
pub const TOL_REMAINDER: u8 = 1;
/// hint field: when written as `None` ("infer") the re-read value is not compared
pub const TOL_HINT_WHEN_NONE: u8 = 2;

/// `tolerated` = (remainder arrays accepted on their prefix, hint fields skipped)
pub fn first_diff(
    a: &Value,
    b: &Value,
    tolerate_longer: &dyn Fn(&str, &str) -> u8,
    tolerated: &mut (u64, u64),
) -> Option<Diff> {
    let mut path = String::new();
    let mut at = String::new();
    let mut d = diff_rec(a, b, &mut path, &mut at, tolerate_longer, tolerated, TOL_NONE)?;
    // innermost owner: walk the written value along the precise path and remember the last `$t`
    let mut owner = a.get("$t").and_then(|x| x.as_str()).unwrap_or("").to_string();
    let mut rel_start = 0usize;
    let mut cur = a;
    let segs: Vec<&str> = d.at.split('.').filter(|s| !s.is_empty()).collect();
    let generic: Vec<&str> = d.path.split('.').filter(|s| !s.is_empty()).collect();
    for (si, seg) in segs.iter().enumerate() {
        // seg is `name`, `name[i][j]`, or `<Variant>`
        let mut next = cur;
        if seg.starts_with('<') {
            next = &cur["$c"];
        } else {
            let name = seg.split('[').next().unwrap_or("");
            next = &next[name];
            for idx in seg.split('[').skip(1) {
                let i: usize = idx.trim_end_matches(']').parse().unwrap_or(0);
                next = &next[i];
            }
        }
        if next.is_null() && si + 1 < segs.len() {
            break;
        }
        cur = next;
        if si + 1 < segs.len() {
            if let Some(t) = cur.get("$t").and_then(|x| x.as_str()) {
                owner = t.to_string();
                rel_start = si + 1;
            }
        }
    }
    d.owner = owner;
    d.rel = generic[rel_start.min(generic.len())..].join(".");
    Some(d)
}

fn diff_rec(
    a: &Value,
    b: &Value,
    path: &mut String,
    at: &mut String,
    tol: &dyn Fn(&str, &str) -> u8,
    tolerated: &mut (u64, u64),
    field_tolerance: u8,
) -> Option<Diff> {
    if field_tolerance == TOL_HINT_WHEN_NONE && a.is_null() {
        if !b.is_null() {
            tolerated.1 += 1;
        }
        return None;
    }
    let remainder_field = field_tolerance == TOL_REMAINDER;
    let mk = |class: &'static str, path: &str, at: &str| Diff {
        owner: String::new(),
        rel: String::new(),
        path: path.trim_start_matches('.').to_string(),
        class,
        at: at.trim_start_matches('.').to_string(),
        written: a.clone(),
        reread: b.clone(),
    };
    match (a, b) {
        (Value::Object(x), Value::Object(y)) => {
            if x.get("$t") != y.get("$t") {
                return Some(mk("type changed", path, at));
            }
            if x.contains_key("$e") {
                if x.get("$v") != y.get("$v") {
                    return Some(mk("variant changed", path, at));
                }
                let v = x.get("$v").and_then(|v| v.as_str()).unwrap_or("");
                let (pl, al) = (path.len(), at.len());
                path.push_str(&format!(".<{v}>"));
                at.push_str(&format!(".<{v}>"));
                let r = diff_rec(&x["$c"], &y["$c"], path, at, tol, tolerated, TOL_NONE);
                path.truncate(pl);
                at.truncate(al);
                return r;
            }
            let sname = x.get("$t").and_then(|v| v.as_str()).unwrap_or("");
            for (k, va) in x.iter() {
                if k == "$t" {
                    continue;
                }
                let Some(vb) = y.get(k) else {
                    return Some(mk("field missing", path, at));
                };
                let (pl, al) = (path.len(), at.len());
                path.push('.');
                path.push_str(k);
                at.push('.');
                at.push_str(k);
                let r = diff_rec(va, vb, path, at, tol, tolerated, tol(sname, k));
                path.truncate(pl);
                at.truncate(al);
                if r.is_some() {
                    return r;
                }
            }
            if x.len() != y.len() {
                return Some(mk("field set changed", path, at));
            }
            None
        }
        (Value::Array(x), Value::Array(y)) => {
            for (i, (va, vb)) in x.iter().zip(y.iter()).enumerate() {
                let (pl, al) = (path.len(), at.len());
                path.push_str("[]");
                at.push_str(&format!("[{i}]"));
                let r = diff_rec(va, vb, path, at, tol, tolerated, TOL_NONE);
                path.truncate(pl);
                at.truncate(al);
                if r.is_some() {
                    return r;
                }
            }
            if y.len() > x.len() {
                if remainder_field {
                    tolerated.0 += 1;
                    return None;
                }
                return Some(mk("re-read array longer", path, at));
            }
            if y.len() < x.len() {
                return Some(mk("re-read array shorter", path, at));
            }
            None
        }
        (Value::Null, Value::Null) => None,
        (Value::Null, _) => Some(mk("absent when written, present after re-read", path, at)),
        (_, Value::Null) => Some(mk("present when written, absent after re-read", path, at)),
        _ => {
            if a == b {
                None
            } else {
                Some(mk("value changed", path, at))
            }
        }
    }
}
