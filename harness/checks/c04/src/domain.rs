//! Schema consistency (DESIGN C04 "what the domain is").
//!
//! The predicates are *interpreted from* `schema.json`, which build.rs derives from
//! `resources/codegen_inputs/*.rs` (the DSL both the reader and the writer are generated from) —
//! never from the behaviour of the code under test:
//!
//!  (1) `#[count(expr)]` with resolvable operands:  expr(fields) == len(array)
//!  (2) literal `#[count(N)]`:                       len(array) == N
//!  (3) plain (user-visible) `#[version]` field:     a `#[since_version(v)]` field is present only if
//!      the version is compatible with v
//!  (3b) `#[if_flag($f, Flags::X)]`:                 field present iff the bit is set in the plain `$f`
//!  (4) flag words ⊆ bits declared in the `flags` block
//!  (5) `Pending*` placeholder variants/types are not table values
//!
//! A value for which a count relation exists but cannot be resolved from the schema (bespoke helper
//! such as `delta_value_count`, or an operand that is a hand-computed `#[compile(self.f())]` field
//! or an argument supplied by an unknown parent) is not judged by the strong oracle: it is
//! `StabilityOnly`.  So is every value that contains a type of the explicit `OPAQUE_RELATION_TYPES`
//! table.  Both lists are printed in the evidence.

use serde_json::Value;
use std::collections::{BTreeMap, BTreeSet};

pub static SCHEMA_JSON: &str = include_str!(concat!(env!("OUT_DIR"), "/schema.json"));
pub static PINNED_SCHEMA_JSON: &str = include_str!("../pinned_schema.json");

/// Types whose internal relations the schema DSL cannot express (DESIGN C04).  X2 values that
/// contain one of these are judged by the stability oracle only; the strong oracle still applies to
/// every parse-derived value of these types.  Each entry: (type name, why).
pub static OPAQUE_RELATION_TYPES: &[(&str, &str)] = &[];

/// Hint fields: `None` means "let the writer infer it", and owned(read(..)) always fills the field
/// in.  When written as `None` the field is not compared (everything else is, and recompilation
/// must still give the same bytes).  When written as `Some`, `value_record_relations` below decides
/// whether the hint contradicts the record.
pub static HINT_FIELDS: &[(&str, &str, &str)] = &[(
    "ValueRecord",
    "explicit_format",
    "private field of the hand-written gpos::ValueRecord; None = infer the ValueFormat from the fields that are present",
)];


/// Flag bits that the specification fixes at 1 and the writer therefore forces (the schema carries
/// this only as a doc comment).  A value with such a bit clear is not a table value →
/// `outside_domain{reserved_bit_must_be_set}`.  (flags type, bits, source)
pub static BITS_FIXED_AT_ONE: &[(&str, u64, &str)] = &[("HeaderFlags", 0x0001, "sbix header flags, 'Bit 0: Set to 1'")];

/// Hand-written enums whose variant is selected, when reading, by a tag stored in the parent record
/// (the schema only says `#[read_offset_with($tag)]`; the mapping lives in hand-written readers and
/// is re-stated here from the OpenType spec).  A value whose variant contradicts its tag is
/// self-contradictory → `outside_domain{tag_selects_variant}`.
/// (parent struct, tag field, path to the enum value, [(tag prefix, variant)], variant for other tags)
pub static TAG_SELECTED_VARIANTS: &[(&str, &str, &[&str], &[(&str, &str)], Option<&str>)] = &[
    (
        "FeatureRecord",
        "feature_tag",
        &["feature", "feature_params"],
        &[("size", "Size"), ("ss", "StylisticSet"), ("cv", "CharacterVariant")],
        None, // any other tag: no FeatureParams can be read back
    ),
    (
        "DataMapRecord",
        "tag",
        &["data"],
        &[("dlng", "ScriptLangTags"), ("slng", "ScriptLangTags")],
        Some("Other"),
    ),
];

#[derive(Debug, Clone)]
pub struct SField {
    pub name: String,
    pub owned: String,
    pub ty: String,
    pub is_array: bool,
    pub count: Option<String>,
    pub compile: Option<String>,
    pub version: bool,
    pub since_version: Option<(u16, u16)>,
    pub if_flag: Option<(String, String)>,
    pub read_with: Vec<String>,
    pub nullable: bool,
}

#[derive(Debug, Clone)]
pub struct SStruct {
    pub file: String,
    pub name: String,
    pub read_args: Vec<String>,
    pub fields: Vec<SField>,
}

pub struct Schema {
    pub structs: BTreeMap<String, Vec<SStruct>>,
    /// flags type name → (mask, const name → value)
    pub flags: BTreeMap<String, (u64, BTreeMap<String, u64>)>,
    /// enum type name → variant name → numeric value
    pub enums: BTreeMap<String, BTreeMap<String, u64>>,
    /// format (enum) name → (repr enum type, variant name → (is_equal, repr variant))  from `#[match_if($format ==|!= Repr::Variant)]`
    pub match_if: BTreeMap<String, (String, BTreeMap<String, (bool, String)>)>,
    /// group (enum) name → (inner table, discriminant field, variant name → value)
    pub groups: BTreeMap<String, Vec<(String, String, BTreeMap<String, u64>)>>,
    pub flag_alphabets: BTreeMap<String, Vec<u64>>,
    pub literal_counts: BTreeMap<(String, String), usize>,
    pub remainder_fields: BTreeSet<(String, String)>,
    pub survey: Value,
}

#[derive(Debug, Clone, PartialEq)]
pub enum Verdict {
    InDomain,
    /// self-contradictory / placeholder: never judged
    Outside(String),
    /// relation not expressible: stability oracle only
    StabilityOnly(String),
}

fn args_of(s: &str) -> Vec<String> {
    // "$a, $b" → ["a","b"]
    s.split(',')
        .map(|x| x.trim().trim_start_matches('$').to_string())
        .filter(|x| !x.is_empty())
        .collect()
}

impl Schema {
    pub fn load() -> Schema {
        Self::from_json(SCHEMA_JSON)
    }
    /// the schema as transcribed from the pinned, reviewed tree (`pinned_schema.json` = build.rs output
    /// on the unchanged repository): the distinct-counts family takes its count relations from here,
    /// so that a count relation altered in the codegen inputs *and* the generated code alike is still
    /// contradicted by execution.  Regenerate by copying OUT_DIR/schema.json when the schema is
    /// changed on purpose.
    pub fn pinned() -> Schema {
        Self::from_json(PINNED_SCHEMA_JSON)
    }
    /// count relations (`Struct.field: count / read_with / compile`) that differ between two schemas
    pub fn count_relation_differences(&self, other: &Schema) -> Vec<String> {
        let mut out = vec![];
        let rel = |f: &SField| format!("count={:?} read_with={:?} compile={:?}", f.count, f.read_with, f.compile);
        for (name, cands) in &self.structs {
            for (i, s) in cands.iter().enumerate() {
                let o = other.structs.get(name).and_then(|c| c.iter().find(|x| x.file == s.file).or(c.get(i)));
                match o {
                    None => out.push(format!("{}::{name}: struct only in one schema", s.file)),
                    Some(o) => {
                        for f in &s.fields {
                            match o.fields.iter().find(|x| x.name == f.name) {
                                None => out.push(format!("{}::{name}.{}: field only in one schema", s.file, f.name)),
                                Some(x) if rel(x) != rel(f) => out.push(format!("{}::{name}.{}: pinned [{}] live [{}]", s.file, f.name, rel(f), rel(x))),
                                _ => {}
                            }
                        }
                    }
                }
            }
        }
        out
    }
    fn from_json(text: &str) -> Schema {
        let v: Value = serde_json::from_str(text).expect("schema.json");
        let mut structs: BTreeMap<String, Vec<SStruct>> = BTreeMap::new();
        let mut literal_counts = BTreeMap::new();
        let mut remainder_fields = BTreeSet::new();
        let (mut n_count, mut n_bare, mut n_rem, mut n_lit, mut n_xform, mut n_compile) =
            (0, 0, 0, 0, 0, 0);
        let mut xforms: BTreeMap<String, u64> = BTreeMap::new();
        for s in v["structs"].as_array().unwrap() {
            let name = s["name"].as_str().unwrap().to_string();
            let read_args = s["attrs"]["read_args"]
                .as_str()
                .map(|a| {
                    a.split(',')
                        .map(|x| x.split(':').next().unwrap_or("").trim().to_string())
                        .filter(|x| !x.is_empty())
                        .collect()
                })
                .unwrap_or_default();
            let mut fields = vec![];
            for f in s["fields"].as_array().unwrap() {
                let at = &f["attrs"];
                let get = |k: &str| at.get(k).and_then(|x| x.as_str()).map(|x| x.to_string());
                let count = get("count");
                if let Some(c) = &count {
                    n_count += 1;
                    let c = c.trim();
                    if c == ".." {
                        n_rem += 1;
                        remainder_fields.insert((name.clone(), f["owned"].as_str().unwrap().to_string()));
                    } else if let Ok(n) = c.parse::<usize>() {
                        n_lit += 1;
                        literal_counts.insert((name.clone(), f["owned"].as_str().unwrap().to_string()), n);
                    } else if c.starts_with('$') {
                        n_bare += 1;
                    } else {
                        n_xform += 1;
                        *xforms.entry(c.split('(').next().unwrap_or("").to_string()).or_insert(0) += 1;
                    }
                }
                if at.get("compile").is_some() {
                    n_compile += 1;
                }
                let since_version = get("since_version").map(|s| {
                    let mut it = s.split('.');
                    let a = it.next().and_then(|x| x.trim().parse().ok()).unwrap_or(0);
                    let b = it.next().and_then(|x| x.trim().parse().ok()).unwrap_or(0);
                    (a, b)
                });
                let if_flag = get("if_flag").and_then(|s| {
                    let a: Vec<&str> = s.split(',').map(|x| x.trim()).collect();
                    if a.len() == 2 {
                        Some((a[0].trim_start_matches('$').to_string(), a[1].to_string()))
                    } else {
                        None
                    }
                });
                let mut read_with = vec![];
                for k in ["read_with", "read_offset_with"] {
                    if let Some(a) = get(k) {
                        read_with = args_of(&a);
                    }
                }
                fields.push(SField {
                    name: f["name"].as_str().unwrap().to_string(),
                    owned: f["owned"].as_str().unwrap().to_string(),
                    ty: f["ty"].as_str().unwrap().to_string(),
                    is_array: f["is_array"].as_bool().unwrap_or(false),
                    count,
                    compile: get("compile"),
                    version: at.get("version").is_some(),
                    since_version,
                    if_flag,
                    read_with,
                    nullable: at.get("nullable").is_some(),
                });
            }
            structs.entry(name.clone()).or_default().push(SStruct {
                file: s["file"].as_str().unwrap().to_string(),
                name,
                read_args,
                fields,
            });
        }
        let mut flags = BTreeMap::new();
        let mut flag_alphabets = BTreeMap::new();
        for f in v["flags"].as_array().unwrap() {
            let mut consts = BTreeMap::new();
            let mut alpha: Vec<u64> = vec![0];
            for c in f["consts"].as_array().unwrap() {
                consts.insert(c["name"].as_str().unwrap().to_string(), c["value"].as_u64().unwrap());
                alpha.push(c["value"].as_u64().unwrap());
            }
            alpha.push(f["mask"].as_u64().unwrap());
            alpha.push(match f["repr"].as_str().unwrap_or("u16") {
                "u8" => 0xFF,
                "u32" => 0xFFFF_FFFF,
                _ => 0xFFFF,
            });
            let mut seen = BTreeSet::new();
            alpha.retain(|x| seen.insert(*x));
            flag_alphabets.insert(f["name"].as_str().unwrap().to_string(), alpha);
            flags.insert(
                f["name"].as_str().unwrap().to_string(),
                (f["mask"].as_u64().unwrap(), consts),
            );
        }
        let mut enums: BTreeMap<String, BTreeMap<String, u64>> = BTreeMap::new();
        for e in v["enums"].as_array().unwrap() {
            let m = enums.entry(e["name"].as_str().unwrap().to_string()).or_default();
            for c in e["consts"].as_array().unwrap() {
                m.insert(c["name"].as_str().unwrap().to_string(), c["value"].as_u64().unwrap());
            }
        }
        let mut groups: BTreeMap<String, Vec<(String, String, BTreeMap<String, u64>)>> = BTreeMap::new();
        for g in v["groups"].as_array().unwrap() {
            let mut m = BTreeMap::new();
            for c in g["variants"].as_array().unwrap() {
                m.insert(c["name"].as_str().unwrap().to_string(), c["value"].as_u64().unwrap());
            }
            groups.entry(g["name"].as_str().unwrap().to_string()).or_default().push((
                g["inner"].as_str().unwrap().to_string(),
                g["field"].as_str().unwrap().to_string(),
                m,
            ));
        }
        let mut match_if: BTreeMap<String, (String, BTreeMap<String, (bool, String)>)> = BTreeMap::new();
        for f in v["formats"].as_array().unwrap() {
            let repr = f["repr"].as_str().unwrap().to_string();
            let mut m = BTreeMap::new();
            for var in f["variants"].as_array().unwrap() {
                if let Some(c) = var["attrs"].get("match_if").and_then(|x| x.as_str()) {
                    // `$format != DeltaFormat::VariationIndex`
                    let eq = c.contains("==");
                    if let Some((_, rhs)) = c.split_once(if eq { "==" } else { "!=" }) {
                        let rv = rhs.trim().rsplit("::").next().unwrap_or("").to_string();
                        m.insert(var["name"].as_str().unwrap().to_string(), (eq, rv));
                    }
                }
            }
            if !m.is_empty() {
                match_if.insert(f["name"].as_str().unwrap().to_string(), (repr, m));
            }
        }
        let survey = serde_json::json!({
            "schema_files_excluding_test_inputs": v["structs"].as_array().unwrap().iter().map(|s| s["file"].as_str().unwrap().to_string()).collect::<BTreeSet<_>>().len(),
            "tables_and_records": v["structs"].as_array().unwrap().len(),
            "flag_sets": flags.len(),
            "count_annotations": n_count, "count_bare_field": n_bare, "count_remainder": n_rem,
            "count_literal": n_lit, "count_transform": n_xform, "count_transforms_used": xforms,
            "compile_annotations": n_compile,
        });
        Schema {
            structs,
            enums,
            match_if,
            groups,
            flag_alphabets,
            flags,
            literal_counts,
            remainder_fields,
            survey,
        }
    }

    pub fn is_remainder(&self, sname: &str, field: &str) -> bool {
        self.remainder_fields
            .contains(&(sname.to_string(), field.to_string()))
    }

    /// `root_args`: the read arguments a hand adaptor will supply for the root table (derived by the
    /// adaptor from the value itself), positionally matching the schema's `#[read_args(..)]`.
    pub fn verdict(&self, v: &Value, root_args: &[i128]) -> Verdict {
        let mut st = St {
            outside: None,
            unresolved: None,
        };
        let mut root = BTreeMap::new();
        if !root_args.is_empty() {
            if let Some(o) = v.as_object() {
                let name = o.get("$t").and_then(|x| x.as_str()).unwrap_or("");
                if let Some(s) = self.pick_struct(name, o) {
                    for (a, val) in s.read_args.iter().zip(root_args.iter()) {
                        root.insert(a.clone(), Some(*val));
                    }
                }
            }
        }
        self.walk(v, &root, &mut st);
        if let Some(r) = st.outside {
            return Verdict::Outside(r);
        }
        if let Some(r) = st.unresolved {
            return Verdict::StabilityOnly(r);
        }
        Verdict::InDomain
    }

    /// Hand-written `gpos::ValueRecord` (no schema): its effective ValueFormat, or None when an explicit
    /// format contradicts the record (a scalar is present exactly when its bit is set; a device
    /// offset only when its bit is set).  Bit names come from the schema's `flags u16 ValueFormat`.
    fn value_record_format(&self, o: &serde_json::Map<String, Value>) -> Option<u64> {
        let (_, consts) = self.flags.get("ValueFormat")?;
        let pairs = [
            ("x_placement", "X_PLACEMENT", false),
            ("y_placement", "Y_PLACEMENT", false),
            ("x_advance", "X_ADVANCE", false),
            ("y_advance", "Y_ADVANCE", false),
            ("x_placement_device", "X_PLACEMENT_DEVICE", true),
            ("y_placement_device", "Y_PLACEMENT_DEVICE", true),
            ("x_advance_device", "X_ADVANCE_DEVICE", true),
            ("y_advance_device", "Y_ADVANCE_DEVICE", true),
        ];
        let mut inferred = 0u64;
        for (f, c, _) in pairs {
            if o.get(f).map(|x| !x.is_null()).unwrap_or(false) {
                inferred |= consts.get(c)?;
            }
        }
        match o.get("explicit_format") {
            None | Some(Value::Null) => Some(inferred),
            Some(e) => {
                let bits = e.get("bits")?.as_u64()?;
                for (f, c, is_offset) in pairs {
                    let bit = *consts.get(c)?;
                    let present = o.get(f).map(|x| !x.is_null()).unwrap_or(false);
                    let set = bits & bit != 0;
                    if (present && !set) || (!is_offset && set && !present) {
                        return None;
                    }
                }
                Some(bits)
            }
        }
    }

    fn pick_struct<'a>(&'a self, name: &str, obj: &serde_json::Map<String, Value>) -> Option<&'a SStruct> {
        let cands = self.structs.get(name)?;
        cands.iter().find(|s| {
            obj.keys()
                .filter(|k| !k.starts_with('$'))
                .all(|k| s.fields.iter().any(|f| &f.owned == k))
        })
    }

    fn walk(&self, v: &Value, bound: &BTreeMap<String, Option<i128>>, st: &mut St) {
        match v {
            Value::Array(a) => {
                for x in a {
                    self.walk(x, bound, st);
                }
            }
            Value::Object(o) => {
                if let Some(e) = o.get("$e") {
                    let var = o.get("$v").and_then(|x| x.as_str()).unwrap_or("");
                    if var.starts_with("Pending") {
                        st.out(format!("placeholder:{}::{}", e.as_str().unwrap_or(""), var));
                    }
                    let ename = e.as_str().unwrap_or("");
                    // (7) `format Repr@N F { #[match_if($format != Repr::X)] Variant(T) }`: the T value's
                    // field of type Repr must satisfy the condition of its variant
                    if let Some((repr, m)) = self.match_if.get(ename) {
                        if let (Some((eq, rv)), Some(c)) = (m.get(var), o["$c"].as_object()) {
                            for x in c.values() {
                                if x.get("$e").and_then(|e| e.as_str()) == Some(repr.as_str()) {
                                    let is = x.get("$v").and_then(|e| e.as_str()) == Some(rv.as_str());
                                    if is != *eq {
                                        st.out(format!("format_match_if:{ename}::{var}"));
                                    }
                                }
                            }
                        }
                    }
                    // (6) `group G(Inner, $field) { n => Variant(..) }`: a plain `$field` must carry n
                    if let Some(gs) = self.groups.get(ename) {
                        let c = &o["$c"];
                        let inner = c.get("$t").and_then(|x| x.as_str()).unwrap_or("");
                        for (gi, field, map) in gs {
                            if gi != inner {
                                continue;
                            }
                            if let (Some(x), Some(n)) = (c.get(field.as_str()).and_then(|x| x.as_u64()), map.get(var)) {
                                if x != *n {
                                    st.out(format!("group_discriminant:{ename}.{field}"));
                                }
                            }
                        }
                    }
                    if let Some((_, why)) = OPAQUE_RELATION_TYPES.iter().find(|(t, _)| *t == ename) {
                        st.unres(format!("opaque_relation_type:{ename} ({why})"));
                    }
                    self.walk(&o["$c"], bound, st);
                    return;
                }
                let name = o.get("$t").and_then(|x| x.as_str()).unwrap_or("");
                if name.starts_with("Pending") {
                    st.out(format!("placeholder:{name}"));
                }
                if let Some((_, why)) = OPAQUE_RELATION_TYPES.iter().find(|(t, _)| *t == name) {
                    st.unres(format!("opaque_relation_type:{name} ({why})"));
                }
                if let Some((mask, _)) = self.flags.get(name) {
                    if let Some(bits) = o.get("bits").and_then(|b| b.as_u64()) {
                        if bits & !mask != 0 {
                            st.out(format!("undefined_flag_bits:{name}"));
                        }
                        for (t, must, _) in BITS_FIXED_AT_ONE {
                            if *t == name && bits & must != *must {
                                st.out(format!("reserved_bit_must_be_set:{name}"));
                            }
                        }
                    }
                }
                if name == "ValueRecord" {
                    if self.value_record_format(o).is_none() {
                        st.out("value_record_format:ValueRecord.explicit_format".to_string());
                    }
                }
                if name == "SinglePosFormat2" {
                    // one table has one valueFormat (the writer takes the first record's)
                    if let Some(Value::Array(recs)) = o.get("value_records") {
                        let fmts: BTreeSet<Option<u64>> = recs
                            .iter()
                            .filter_map(|r| r.as_object())
                            .map(|r| self.value_record_format(r))
                            .collect();
                        if fmts.len() > 1 {
                            st.out("value_record_format:SinglePosFormat2.value_records".to_string());
                        }
                    }
                }
                for (parent, tag_field, path, map, other) in TAG_SELECTED_VARIANTS {
                    if *parent != name {
                        continue;
                    }
                    let tag: Vec<u8> = o
                        .get(*tag_field)
                        .and_then(|t| t.as_array())
                        .map(|a| a.iter().map(|b| b.as_u64().unwrap_or(0) as u8).collect())
                        .unwrap_or_default();
                    let mut cur: &Value = v;
                    for p in path.iter() {
                        cur = &cur[*p];
                    }
                    let expect = map
                        .iter()
                        .find(|(pre, _)| tag.starts_with(pre.as_bytes()))
                        .map(|(_, var)| *var)
                        .or(*other);
                    let got = cur.get("$v").and_then(|x| x.as_str());
                    if !cur.is_null() && got != expect {
                        st.out(format!("tag_selects_variant:{name}.{}", path.join(".")));
                    }
                }
                let Some(s) = self.pick_struct(name, o) else {
                    // hand-written or unknown type: no schema predicates; children carry no bindings
                    for (k, x) in o {
                        if !k.starts_with('$') {
                            self.walk(x, &BTreeMap::new(), st);
                        }
                    }
                    return;
                };
                self.check_struct(s, o, bound, st);
                // descend, passing read arguments
                for f in &s.fields {
                    let Some(child) = o.get(&f.owned) else { continue };
                    let mut b = BTreeMap::new();
                    if !f.read_with.is_empty() {
                        let vals: Vec<Option<i128>> =
                            f.read_with.iter().map(|a| self.operand(s, o, bound, a)).collect();
                        // bind positionally to the child's read_args (looked up by the child's type)
                        self.bind_children(child, &vals, &mut b);
                    }
                    self.walk(child, &b, st);
                }
            }
            _ => {}
        }
    }

    /// find the struct type(s) directly under `child` and bind `vals` to their `read_args` names
    fn bind_children(&self, child: &Value, vals: &[Option<i128>], b: &mut BTreeMap<String, Option<i128>>) {
        match child {
            Value::Array(a) => {
                for x in a {
                    self.bind_children(x, vals, b);
                }
            }
            Value::Object(o) => {
                if o.contains_key("$e") {
                    self.bind_children(&o["$c"], vals, b);
                    return;
                }
                let name = o.get("$t").and_then(|x| x.as_str()).unwrap_or("");
                if let Some(s) = self.pick_struct(name, o) {
                    for (i, a) in s.read_args.iter().enumerate() {
                        if let Some(v) = vals.get(i) {
                            b.insert(a.clone(), *v);
                        }
                    }
                }
            }
            _ => {}
        }
    }

    fn num(&self, v: &Value) -> Option<i128> {
        match v {
            Value::Number(n) => n.as_i64().map(|x| x as i128).or(n.as_u64().map(|x| x as i128)),
            Value::Object(o) => {
                // schema enum (e.g. DeltaFormat): numeric value of the variant
                if let (Some(e), Some(var)) = (o.get("$e").and_then(|x| x.as_str()), o.get("$v").and_then(|x| x.as_str())) {
                    return self.enums.get(e).and_then(|m| m.get(var)).map(|x| *x as i128);
                }
                // flags word
                let name = o.get("$t").and_then(|x| x.as_str()).unwrap_or("");
                if self.flags.contains_key(name) {
                    return o.get("bits").and_then(|b| b.as_u64()).map(|x| x as i128);
                }
                None
            }
            _ => None,
        }
    }

    /// value of raw schema field `x` of struct `s` in the value `o`
    pub(crate) fn operand(
        &self,
        s: &SStruct,
        o: &serde_json::Map<String, Value>,
        bound: &BTreeMap<String, Option<i128>>,
        x: &str,
    ) -> Option<i128> {
        if let Some(f) = s.fields.iter().find(|f| f.name == x) {
            if let Some(v) = o.get(&f.owned) {
                return self.num(v);
            }
            if let Some(c) = &f.compile {
                // #[compile(array_len($y))]
                let c = c.trim();
                if let Some(inner) = c.strip_prefix("array_len(").and_then(|r| r.strip_suffix(')')) {
                    let y = inner.trim().trim_start_matches('$');
                    if let Some(fy) = s.fields.iter().find(|f| f.name == y) {
                        if let Some(Value::Array(a)) = o.get(&fy.owned) {
                            return Some(a.len() as i128);
                        }
                    }
                }
                // #[compile(plus_one($y.len()))]
                if let Some(inner) = c.strip_prefix("plus_one(").and_then(|r| r.strip_suffix(".len())")) {
                    let y = inner.trim().trim_start_matches('$');
                    if let Some(fy) = s.fields.iter().find(|f| f.name == y) {
                        if let Some(Value::Array(a)) = o.get(&fy.owned) {
                            return Some(a.len() as i128 + 1);
                        }
                    }
                }
                // #[compile(2 * array_len($y))]
                if let Some(inner) = c.strip_prefix("2 * array_len(").and_then(|r| r.strip_suffix(')')) {
                    let y = inner.trim().trim_start_matches('$');
                    if let Some(fy) = s.fields.iter().find(|f| f.name == y) {
                        if let Some(Value::Array(a)) = o.get(&fy.owned) {
                            return Some(2 * a.len() as i128);
                        }
                    }
                }
                if let Ok(n) = c.parse::<i128>() {
                    return Some(n);
                }
            }
            return None;
        }
        if let Some(v) = bound.get(x) {
            return *v;
        }
        None
    }

    pub(crate) fn count_expr(
        &self,
        s: &SStruct,
        o: &serde_json::Map<String, Value>,
        bound: &BTreeMap<String, Option<i128>>,
        expr: &str,
    ) -> Result<Option<i128>, ()> {
        // Ok(None) = remainder (no relation); Err = not resolvable
        let e = expr.trim();
        if e == ".." {
            return Ok(None);
        }
        if let Ok(n) = e.parse::<i128>() {
            return Ok(Some(n));
        }
        let arg = |a: &str| -> Result<i128, ()> {
            let a = a.trim();
            if let Some(x) = a.strip_prefix('$') {
                self.operand(s, o, bound, x).ok_or(())
            } else {
                a.parse::<i128>().map_err(|_| ())
            }
        };
        if e.starts_with('$') {
            return arg(e).map(Some);
        }
        let (f, rest) = e.split_once('(').ok_or(())?;
        let rest = rest.strip_suffix(')').ok_or(())?;
        let a: Vec<&str> = rest.split(',').collect();
        let us = |x: i128| x.max(0); // transforms work on usize with unwrap_or_default
        // re-implementation of read_fonts::codegen_prelude::transforms (saturating usize arithmetic)
        let sat = |x: i128| x.clamp(0, usize::MAX as i128);
        let r = match (f.trim(), a.len()) {
            ("subtract", 2) => sat(us(arg(a[0])?) - us(arg(a[1])?)),
            ("add", 2) => sat(us(arg(a[0])?) + us(arg(a[1])?)),
            ("add_multiply", 3) => sat(sat(us(arg(a[0])?) + us(arg(a[1])?)) * us(arg(a[2])?)),
            ("multiply_add", 3) => sat(sat(us(arg(a[0])?) * us(arg(a[1])?)) + us(arg(a[2])?)),
            ("half", 1) => us(arg(a[0])?) / 2,
            ("subtract_add_two", 2) => sat(sat(us(arg(a[0])?) - us(arg(a[1])?)) + 2),
            ("bitmap_len", 1) => (us(arg(a[0])?) + 7) / 8,
            ("max_value_bitmap_len", 1) => (us(arg(a[0])?) + 1 + 7) / 8,
            ("try_into", 1) => us(arg(a[0])?),
            // Device: number of uint16 words holding (end - start + 1) packed deltas of 2/4/8 bits
            // (OpenType "Device and VariationIndex tables"); formats other than 1..3 carry no words
            ("delta_value_count", 3) => {
                let (fmt, start, end) = (arg(a[0])?, arg(a[1])?, arg(a[2])?);
                let per_word = match fmt {
                    1 => 8,
                    2 => 4,
                    3 => 2,
                    _ => 0,
                };
                if per_word == 0 || end < start {
                    0
                } else {
                    (end - start + 1 + per_word - 1) / per_word
                }
            }
            // DeltaSetIndexMap: map_count entries of ((entryFormat & 0x30) >> 4) + 1 bytes
            // (OpenType "Associating target items to variation data")
            ("delta_set_index_data", 2) => {
                let (fmt, n) = (us(arg(a[0])?), us(arg(a[1])?));
                (((fmt & 0x30) >> 4) + 1) * n
            }
            // ItemVariationData: item_count rows of word_count "long" + (region_count - word_count)
            // "short" deltas; LONG_WORDS (0x8000) doubles both sizes.  word_count > region_count is
            // not a table (→ a length no array can have → outside the domain)
            ("item_variation_data_len", 3) => {
                let (items, wdc, regions) = (us(arg(a[0])?), us(arg(a[1])?), us(arg(a[2])?));
                let (word, small) = if wdc & 0x8000 != 0 { (4, 2) } else { (2, 1) };
                let words = wdc & 0x7FFF;
                if words > regions {
                    -1
                } else {
                    items * (words * word + (regions - words) * small)
                }
            }
            // TupleVariationHeader: axis_count coordinates when EMBEDDED_PEAK_TUPLE (0x8000, which=0) /
            // INTERMEDIATE_REGION (0x4000, which=1) is set in tupleIndex, else none
            ("tuple_len", 3) => {
                let (idx, axes, which) = (us(arg(a[0])?), us(arg(a[1])?), arg(a[2])?);
                let flag = if which == 0 { 0x8000 } else { 0x4000 };
                if idx & flag != 0 {
                    axes
                } else {
                    0
                }
            }
            _ => return Err(()),
        };
        Ok(Some(r))
    }

    fn version_of(&self, v: &Value, ty: &str) -> Option<(u16, u16)> {
        match v {
            Value::Number(n) => {
                let x = n.as_u64()?;
                if ty.contains("Version16Dot16") {
                    Some(((x >> 16) as u16, ((x & 0xFFFF) >> 12) as u16))
                } else {
                    // plain u16 version: `compatible` is >=; model as (0, x)
                    Some((0, x as u16))
                }
            }
            Value::Object(o) => Some((
                o.get("major")?.as_u64()? as u16,
                o.get("minor")?.as_u64()? as u16,
            )),
            _ => None,
        }
    }

    fn check_struct(
        &self,
        s: &SStruct,
        o: &serde_json::Map<String, Value>,
        bound: &BTreeMap<String, Option<i128>>,
        st: &mut St,
    ) {
        // the schema says the generated writer skips an array of this table (`#[compile(skip)]`, in the
        // IFT tables annotated "TODO remove this once write fonts side is implemented"): what the
        // bytes will contain is not described by the schema
        for f in &s.fields {
            if f.is_array && f.compile.as_deref().map(|c| c.trim_start().starts_with("skip")).unwrap_or(false) {
                st.unres(format!("writer_skips_array:{}.{}", s.name, f.name));
            }
        }
        // (1b) `#[read_offset_with($n)] x_offset: Offset<[T]>` — the array behind the offset is read
        // with n as its element count
        for f in &s.fields {
            if !(f.ty.contains("<[") && !f.read_with.is_empty()) {
                continue;
            }
            let Some(Value::Array(arr)) = o.get(&f.owned) else { continue };
            match self.operand(s, o, bound, &f.read_with[0]) {
                Some(n) => {
                    if n != arr.len() as i128 {
                        st.out(format!("count:{}.{}", s.name, f.owned));
                    }
                }
                None => st.unres(format!("unresolvable_count:{}.{} = ${}", s.name, f.owned, f.read_with[0])),
            }
        }
        // (1)(2) counts
        for f in &s.fields {
            let Some(c) = &f.count else { continue };
            let Some(Value::Array(arr)) = o.get(&f.owned) else { continue };
            match self.count_expr(s, o, bound, c) {
                Ok(None) => {}
                Ok(Some(n)) => {
                    if n != arr.len() as i128 {
                        st.out(format!("count:{}.{}", s.name, f.owned));
                    }
                }
                Err(()) => st.unres(format!("unresolvable_count:{}.{} = {}", s.name, f.owned, c.trim())),
            }
        }
        // (3) plain version field vs since_version fields
        if let Some(vf) = s.fields.iter().find(|f| f.version) {
            if let Some(vv) = o.get(&vf.owned) {
                if let Some((maj, min)) = self.version_of(vv, &vf.ty) {
                    let numeric = !vf.ty.contains("MajorMinor") && !vf.ty.contains("Version16Dot16");
                    for f in &s.fields {
                        let Some((a, b)) = f.since_version else { continue };
                        let Some(x) = o.get(&f.owned) else { continue };
                        let compatible = if numeric { min >= a } else { maj == a && min >= b };
                        if !x.is_null() && !compatible {
                            st.out(format!("version:{}.{}", s.name, f.owned));
                        }
                    }
                }
            }
        }
        // (3b) if_flag
        for f in &s.fields {
            let Some((flag_field, constant)) = &f.if_flag else { continue };
            let Some(x) = o.get(&f.owned) else { continue };
            let Some(bits) = self.operand(s, o, bound, flag_field) else { continue };
            let (ty, cname) = constant.split_once("::").unwrap_or(("", constant));
            let Some(bit) = self.flags.get(ty.trim()).and_then(|(_, c)| c.get(cname.trim())) else {
                continue;
            };
            let set = (bits as u64) & bit != 0;
            if set == x.is_null() {
                st.out(format!("if_flag:{}.{}", s.name, f.owned));
            }
        }
    }
}

struct St {
    outside: Option<String>,
    unresolved: Option<String>,
}
impl St {
    fn out(&mut self, r: String) {
        if self.outside.is_none() {
            self.outside = Some(r);
        }
    }
    fn unres(&mut self, r: String) {
        if self.unresolved.is_none() {
            self.unresolved = Some(r);
        }
    }
}
