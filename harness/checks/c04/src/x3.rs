//! Source 5 — X3 byte-deviation values (DESIGN C04 E.2, third bullet).
//!
//! SPACE: for every distinct corpus table of a registered top-level type (the same job list as the
//! corpus source), every offset < `max_offset` and every value of the 6-value byte alphabet
//! {0x00, 0x01, 0x7F, 0x80, 0xFF, original+1} that differs from the original byte.  A deviated
//! table that still parses is converted to the owned type and judged exactly like a blob value:
//! not judged if the schema calls it self-contradictory, otherwise the strong oracle.
//!
//! ISOLATION: owned conversion of hostile bytes can allocate without bound or loop (seen with a
//! whole font read as base::BaseScript), so the cases run in worker subprocesses (re-exec of this
//! binary with C04_X3_WORKER=w,n,resume_job,resume_case,max_offset,max_table_len) under RLIMIT_AS and a
//! per-case watchdog.  A worker that dies or stalls is restarted after the in-flight case, which
//! is recorded as an *observation* (C01/C02's business), never as a C04 verdict.  So are panics of
//! read/to_owned on deviated bytes.
//!
//! Protocol (worker stdout, one line each): `S job case` before a case, `L json` partial results,
//! `V json` a violation (reported by the supervisor, which owns the replay files), `E` end.

use super::{corpus_jobs, Ctx, Local, TypeOps};
use serde_json::{json, Value};
use std::io::{BufRead, BufReader, Write};
use std::process::{Command, Stdio};
use std::sync::atomic::{AtomicBool, Ordering};
use std::sync::{Arc, Mutex};
use std::time::{Duration, Instant};
use vcore::*;

pub const ADDRESS_SPACE_LIMIT: u64 = 3 << 29; // 1.5 GiB
pub const WATCHDOG_S: u64 = 10;
pub const BIG_TABLE: usize = 8192;
pub const BIG_TABLE_OFFSETS: usize = 32;
pub const MAX_RESTARTS_PER_WORKER: usize = 64;

pub fn byte_alphabet(orig: u8) -> [u8; 6] {
    [0x00, 0x01, 0x7F, 0x80, 0xFF, orig.wrapping_add(1)]
}

fn local_to_json(l: &Local) -> Value {
    json!({
        "evals": l.evals, "trans": l.trans, "counters": l.counters,
        "all": l.all.iter().collect::<Vec<_>>(), "nontrivial": l.nontrivial.iter().collect::<Vec<_>>(),
        "unjudged": l.unjudged_panics, "stability": l.stability_reasons, "machinery": l.machinery,
    })
}

fn merge_json(l: &mut Local, v: &Value) {
    l.evals += v["evals"].as_u64().unwrap_or(0);
    l.trans += v["trans"].as_u64().unwrap_or(0);
    if let Some(c) = v["counters"].as_object() {
        for (k, n) in c {
            *l.counters.entry(k.clone()).or_insert(0) += n.as_u64().unwrap_or(0);
        }
    }
    for x in v["all"].as_array().into_iter().flatten() {
        l.all.insert(x.as_u64().unwrap_or(0));
    }
    for x in v["nontrivial"].as_array().into_iter().flatten() {
        l.nontrivial.insert(x.as_u64().unwrap_or(0));
    }
    for (key, set) in [("unjudged", &mut l.unjudged_panics), ("stability", &mut l.stability_reasons)] {
        for x in v[key].as_array().into_iter().flatten() {
            set.insert(x.as_str().unwrap_or("").to_string());
        }
    }
    for x in v["machinery"].as_array().into_iter().flatten() {
        l.machinery.push(x.as_str().unwrap_or("").to_string());
    }
}

// ---------------------------------------------------------------------------------------------
// worker
// ---------------------------------------------------------------------------------------------

pub fn worker(ctx: &Ctx, reg: &[TypeOps], spec: &str) -> ! {
    let p: Vec<usize> = spec.split(',').map(|x| x.parse().unwrap_or(0)).collect();
    let (w, n, rj, rc, max_off, max_len) = (p[0], p[1].max(1), p[2], p[3], p[4], p[5]);
    unsafe {
        let lim = libc::rlimit {
            rlim_cur: ADDRESS_SPACE_LIMIT,
            rlim_max: ADDRESS_SPACE_LIMIT,
        };
        libc::setrlimit(libc::RLIMIT_AS, &lim);
    }
    let jobs = corpus_jobs(reg);
    let out = std::io::stdout();
    let emit = |l: &mut Local| {
        // counters of the shared `parsed` path are renamed for this source
        let mut renamed = std::collections::BTreeMap::new();
        for (k, v) in std::mem::take(&mut l.counters) {
            renamed.insert(k.replace("parsed_blob_", "x3_"), v);
        }
        l.counters = renamed;
        let mut o = out.lock();
        let _ = writeln!(o, "L {}", local_to_json(l));
        let _ = o.flush();
        *l = Local::default();
    };
    for (ji, (i, label, bytes, fa)) in jobs.iter().enumerate() {
        if ji % n != w || ji < rj || bytes.len() > max_len {
            continue;
        }
        let ops = &reg[*i];
        let mut l = Local::default();
        let mut since = 0;
        // a table longer than BIG_TABLE costs tens of milliseconds per case to compile: only its first
        // BIG_TABLE_OFFSETS bytes (header, top-level offsets) are deviated
        let lim = if bytes.len() > BIG_TABLE { max_off.min(BIG_TABLE_OFFSETS) } else { max_off };
        for off in 0..bytes.len().min(lim) {
            let orig = bytes[off];
            for (vi, val) in byte_alphabet(orig).iter().enumerate() {
                let cn = off * 6 + vi;
                if *val == orig || byte_alphabet(orig)[..vi].contains(val) || (ji == rj && cn < rc) {
                    continue;
                }
                {
                    let mut o = out.lock();
                    let _ = writeln!(o, "S {ji} {cn}");
                    let _ = o.flush();
                }
                let mut b = bytes.clone();
                b[off] = *val;
                l.cnt("x3_cases");
                let lab = format!("{label}@{off}:={val:#04x}");
                if !(ops.parsed)(ctx, ops, &b, &lab, false, Some(fa), &mut l) {
                    l.cnt("x3_deviation_does_not_parse");
                }
                since += 1;
                if since >= 256 {
                    emit(&mut l);
                    since = 0;
                }
            }
        }
        emit(&mut l);
    }
    println!("E");
    std::process::exit(0);
}

// ---------------------------------------------------------------------------------------------
// supervisor
// ---------------------------------------------------------------------------------------------

pub fn supervise(run: &Run, reg: &[TypeOps]) -> Local {
    let max_off: usize = std::env::var("C04_X3_BYTES")
        .ok()
        .and_then(|s| s.parse().ok())
        .unwrap_or(run.tier.pick(16, 256));
    // compiling a 100 KiB GPOS costs ~0.1 s, so the quick tier deviates only small tables
    let max_len: usize = std::env::var("C04_X3_MAXLEN")
        .ok()
        .and_then(|s| s.parse().ok())
        .unwrap_or(run.tier.pick(2048, usize::MAX >> 1));
    let n: usize = std::env::var("VERIF_THREADS").ok().and_then(|s| s.parse().ok()).unwrap_or(16);
    run.bound(
        "x3_byte_deviations",
        json!({"tables": "every distinct corpus table of a registered top-level type", "table_length_at_most": max_len, "offsets": format!("0..{max_off} (0..{} for tables longer than {BIG_TABLE} bytes)", max_off.min(BIG_TABLE_OFFSETS)),
               "byte_alphabet": "0x00, 0x01, 0x7F, 0x80, 0xFF, original+1", "deviations_per_case": 1,
               "worker_processes": n, "address_space_limit_bytes": ADDRESS_SPACE_LIMIT, "watchdog_s": WATCHDOG_S}),
    );
    let jobs = corpus_jobs(reg);
    run.count("x3_tables", jobs.iter().filter(|j| j.2.len() <= max_len).count() as u64);
    run.count("x3_tables_skipped_by_length_bound", jobs.iter().filter(|j| j.2.len() > max_len).count() as u64);
    let exe = std::env::current_exe().expect("current_exe");
    let tier = run.tier.name();
    let total = Mutex::new(Local::default());
    let observations = Mutex::new(std::collections::BTreeMap::<String, (String, u64)>::new());
    std::thread::scope(|scope| {
        for w in 0..n {
            let (exe, jobs, total, observations) = (&exe, &jobs, &total, &observations);
            scope.spawn(move || {
                let (mut rj, mut rc) = (0usize, 0usize);
                let mut restarts = 0;
                loop {
                    let mut child = match Command::new(exe)
                        .arg(tier)
                        .env("C04_X3_WORKER", format!("{w},{n},{rj},{rc},{max_off},{max_len}"))
                        .env("VERIF_THREADS", "1")
                        .stdout(Stdio::piped())
                        .stderr(Stdio::null())
                        .spawn()
                    {
                        Ok(c) => c,
                        Err(e) => {
                            total.lock().unwrap().machinery.push(format!("x3: cannot spawn worker: {e}"));
                            return;
                        }
                    };
                    let stdout = child.stdout.take().unwrap();
                    let child = Arc::new(Mutex::new(child));
                    let last = Arc::new(Mutex::new(Instant::now()));
                    let done = Arc::new(AtomicBool::new(false));
                    let timed_out = Arc::new(AtomicBool::new(false));
                    {
                        // watchdog: silence for WATCHDOG_S seconds ⇒ kill
                        let (child, last, done, timed_out) = (child.clone(), last.clone(), done.clone(), timed_out.clone());
                        std::thread::spawn(move || loop {
                            std::thread::sleep(Duration::from_millis(500));
                            if done.load(Ordering::SeqCst) {
                                return;
                            }
                            if last.lock().unwrap().elapsed() > Duration::from_secs(WATCHDOG_S) {
                                timed_out.store(true, Ordering::SeqCst);
                                let _ = child.lock().unwrap().kill();
                                return;
                            }
                        });
                    }
                    let mut in_flight: Option<(usize, usize)> = None;
                    let mut finished = false;
                    let mut local = Local::default();
                    for line in BufReader::new(stdout).lines() {
                        let Ok(line) = line else { break };
                        *last.lock().unwrap() = Instant::now();
                        if let Some(r) = line.strip_prefix("S ") {
                            let mut it = r.split(' ').map(|x| x.parse::<usize>().unwrap_or(0));
                            in_flight = Some((it.next().unwrap_or(0), it.next().unwrap_or(0)));
                        } else if let Some(r) = line.strip_prefix("L ") {
                            if let Ok(v) = serde_json::from_str::<Value>(r) {
                                merge_json(&mut local, &v);
                            }
                        } else if let Some(r) = line.strip_prefix("V ") {
                            if let Ok(v) = serde_json::from_str::<Value>(r) {
                                run.violation(
                                    v["identity"].as_str().unwrap_or("x3 violation"),
                                    v["what"].as_str().unwrap_or(""),
                                    v["case"].clone(),
                                );
                            }
                        } else if line == "E" {
                            finished = true;
                        }
                    }
                    done.store(true, Ordering::SeqCst);
                    let _ = child.lock().unwrap().wait();
                    total.lock().unwrap().merge(local);
                    if finished {
                        return;
                    }
                    // the worker died or was killed: the in-flight case is an observation
                    let how = if timed_out.load(Ordering::SeqCst) { "does not return within the watchdog" } else { "aborts the process (allocation failure / stack overflow)" };
                    match in_flight {
                        Some((ji, cn)) => {
                            let (i, label, _, _) = &jobs[ji];
                            let mut o = observations.lock().unwrap();
                            let e = o
                                .entry(format!("x3: {} read/to_owned {how}", reg[*i].name))
                                .or_insert((format!("{label} offset {} value index {}", cn / 6, cn % 6), 0));
                            e.1 += 1;
                            drop(o);
                            total.lock().unwrap().cnt("x3_worker_deaths_not_judged");
                            rj = ji;
                            rc = cn + 1;
                        }
                        None => {
                            total.lock().unwrap().machinery.push("x3: worker died before its first case".into());
                            return;
                        }
                    }
                    restarts += 1;
                    if restarts > MAX_RESTARTS_PER_WORKER {
                        total.lock().unwrap().capped.push(format!("x3: worker {w} restarted more than {MAX_RESTARTS_PER_WORKER} times; its remaining cases were not run"));
                        return;
                    }
                }
            });
        }
    });
    let mut l = total.into_inner().unwrap();
    for (k, (example, n)) in observations.into_inner().unwrap() {
        l.unjudged_panics.insert(format!("{k} ({n} cases; first: {example})"));
    }
    l
}
