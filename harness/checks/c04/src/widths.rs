//! Source 6 — count-width boundary family.
//!
//! Every generated `Validate` impl carries one length bound per array whose count field is computed
//! from the array (`#[compile(array_len($a))]`, `plus_one($a.len())`, `2 * array_len($a)`); the
//! bound must be what the *count field's type* can hold.  X2 arrays have 0..3 elements, so this
//! family builds, for every such array of every registered struct type, the all-default value with
//! exactly max and max+1 elements (max = what the count type holds: u8 255, u16 65535, minus one
//! for `plus_one`, halved for `2 *`; for Uint24/u32 counts 65535 and 65536 elements, which must
//! both be accepted).  The expectation comes from the schema (resources/codegen_inputs), not from
//! the generated code.
//!
//! ORACLE: n = max ⇒ `validate()` must not report the LENGTH BOUND ("array exceeds max length" at
//! that array field); n = max+1 ⇒ it must report it — if the value validates, `dump_table` is run to
//! show what happens (typically a `try_from(..).unwrap()` panic).  A rejection by any other reported
//! constraint (another field / message, e.g. the cmap 4 `length` or the name storage offset) is
//! "not judged (other constraint)", counted and listed.  Accepted schema-consistent values also get
//! the strong round-trip oracle (thorough; always for the effective boundaries below).
//! EFFECTIVE BOUNDARIES: where another constraint is tighter than the count width, its own boundary
//! is enumerated too: cmap 4 with 8189 / 8190 segments, name with record / language-tag counts on
//! both sides of storage offset 65535.
//! The value is produced by the X2 deserializer on the all-default tape with the array lengths
//! forced (same mechanism as literal `#[count(N)]` arrays), so no per-type code is involved.

use super::{strong, Ctx, Local, Owned, Reader, TypeOps};
use crate::tde::TapeDe;
use rayon::prelude::*;
use serde_json::{json, Value};
use vcore::*;
use write_fonts::dump_table;

#[derive(Clone, Debug)]
pub struct Group {
    pub struct_name: String,
    pub count_field: String,
    pub count_type: String,
    /// owned names of the arrays counted by `count_field`
    pub arrays: Vec<String>,
    /// largest array length the count field can express
    pub max: usize,
    pub how: String,
}

fn type_max(ty: &str) -> Option<usize> {
    match ty.trim() {
        "u8" => Some(0xFF),
        "u16" => Some(0xFFFF),
        "Uint24" => Some(0xFF_FFFF),
        "u32" => Some(0xFFFF_FFFF),
        _ => None,
    }
}

/// groups of the struct `name` (schema file = module where the name is ambiguous)
pub fn groups(ctx: &Ctx, module: &str, name: &str) -> Vec<Group> {
    let Some(cands) = ctx.schema.structs.get(name) else { return vec![] };
    let s = cands.iter().find(|s| s.file == module).unwrap_or(&cands[0]);
    let mut out = vec![];
    for c in &s.fields {
        let Some(comp) = &c.compile else { continue };
        let comp = comp.trim();
        let Some(tmax) = type_max(&c.ty) else { continue };
        let (driver, max, how) = if let Some(a) = comp.strip_prefix("array_len($").and_then(|r| r.strip_suffix(')')) {
            (a, tmax, "array_len")
        } else if let Some(a) = comp.strip_prefix("plus_one($").and_then(|r| r.strip_suffix(".len())")) {
            (a, tmax - 1, "plus_one")
        } else if let Some(a) = comp.strip_prefix("2 * array_len($").and_then(|r| r.strip_suffix(')')) {
            (a, tmax / 2, "2 * array_len")
        } else {
            continue;
        };
        if !s.fields.iter().any(|f| f.name == driver && f.is_array) {
            continue;
        }
        // every array whose #[count] mentions this count field shares the length
        let needle = format!("${}", c.name);
        let arrays: Vec<String> = s
            .fields
            .iter()
            .filter(|f| f.is_array && f.compile.is_none())
            .filter(|f| {
                f.name == driver
                    || f.count
                        .as_deref()
                        .map(|e| e.split(|ch: char| !(ch.is_alphanumeric() || ch == '_' || ch == '$')).any(|t| t == needle))
                        .unwrap_or(false)
            })
            .map(|f| f.owned.clone())
            .collect();
        out.push(Group {
            struct_name: name.to_string(),
            count_field: c.name.clone(),
            count_type: c.ty.trim().to_string(),
            arrays,
            max,
            how: how.to_string(),
        });
    }
    // arrays counted by a plain (user-visible) count field, `#[count($c)]`: the generated bound is the
    // count field's type as well (the count relation itself is a schema predicate, not checked here)
    for f in &s.fields {
        if !f.is_array || f.compile.is_some() {
            continue;
        }
        let Some(cn) = f.count.as_deref().map(|e| e.trim()).and_then(|e| e.strip_prefix('$')) else { continue };
        let Some(c) = s.fields.iter().find(|c| c.name == cn) else { continue };
        if c.compile.is_some() || c.is_array {
            continue;
        }
        let Some(tmax) = type_max(&c.ty) else { continue };
        out.push(Group {
            struct_name: name.to_string(),
            count_field: c.name.clone(),
            count_type: c.ty.trim().to_string(),
            arrays: vec![f.owned.clone()],
            max: tmax,
            how: "plain count field".to_string(),
        });
    }
    out
}

/// lengths to try and whether validation must accept
pub fn lengths(g: &Group) -> Vec<(usize, bool)> {
    if g.max >= 0xFF_FFFF {
        vec![(65535, true), (65536, true)]
    } else {
        vec![(g.max, true), (g.max + 1, false)]
    }
}

/// Effective boundaries where a *different* constraint than the count width limits the array
/// (type, count field, n, must validate, message of the constraint that must reject):
/// cmap format 4: (8 + 4*segCount + glyphIdArray.len()) * 2 must fit the u16 `length` field.
pub const EFFECTIVE: &[(&str, &str, usize, bool, &str)] = &[
    ("cmap::Cmap4", "seg_count_x2", 8189, true, ""),
    ("cmap::Cmap4", "seg_count_x2", 8190, false, "cmap format 4 subtable exceeds max length"),
];

/// interior lengths judged with the strong oracle in both tiers (see `run_family`)
pub const INTERIOR_LENGTHS: &[usize] = &[256, 32768];

pub const LENGTH_BOUND_MESSAGE: &str = "array exceeds max length";

/// does the report contain `message`, and (for the generated length bound) at one of the group's arrays?
fn reports(report: &str, message: &str, at: Option<(&str, &[String])>) -> bool {
    match at {
        None => report.contains(&format!("\"{message}\"")),
        Some((s, arrays)) => arrays
            .iter()
            .any(|a| report.contains(&format!("\"{message}\"\nin: {s}.{a}\n"))),
    }
}

pub fn bound_case<T: Owned, R: Reader<T>>(ctx: &Ctx, ops: &TypeOps, g: &Group, n: usize, deep: bool, l: &mut Local) {
    let full = ops.full();
    let effective = EFFECTIVE.iter().find(|(t, c, m, _, _)| *t == full && *c == g.count_field && *m == n);
    let accept = match effective {
        Some((_, _, _, a, _)) => *a,
        None => lengths(g).iter().find(|(m, _)| *m == n).map(|(_, a)| *a).unwrap_or(n <= g.max),
    };
    let deep = deep || effective.is_some();
    l.evals += 1;
    l.cnt("count_width_cases");
    let mut lit = ctx.schema.literal_counts.clone();
    for a in &g.arrays {
        lit.insert((g.struct_name.clone(), a.clone()), n);
    }
    let mut tape = Tape::new(&[]);
    let v: T = {
        let mut de = TapeDe::new(&mut tape, &ctx.alpha, &lit, &ctx.schema.flag_alphabets);
        de.force_some_for_forced_arrays = true; // an optional (since_version) array must exist to have n elements
        match guard(|| T::deserialize(&mut de)) {
            Ok(Ok(v)) => v,
            _ => {
                l.cnt("count_width_not_constructible");
                return;
            }
        }
    };
    let field = format!("{}.{}", g.struct_name, g.arrays.join("+"));
    let case = || json!({"source": "count_width", "type": full, "count_field": g.count_field, "arrays": g.arrays, "n": n});
    let report = match guard(|| v.validate()) {
        Ok(r) => r,
        Err(p) => {
            ctx.violation(
                &format!("length bound: {field} validate panics: {} in {}", p.kind(), p.site()),
                &format!("{} with {n} elements", p.message),
                case(),
            );
            return;
        }
    };
    let text = report.as_ref().err().map(|r| format!("{r}")).unwrap_or_default();
    // the constraint this case is about: the generated length bound at this array, or the named
    // constraint of an effective boundary
    let hit = match effective {
        Some((_, _, _, _, msg)) if !msg.is_empty() => reports(&text, msg, None),
        _ => reports(&text, LENGTH_BOUND_MESSAGE, Some((&g.struct_name, &g.arrays))),
    };
    let mark = |l: &mut Local| {
        let mut h = Fnv::new();
        h.str(&full);
        h.str(&g.count_field);
        h.u64(n as u64);
        l.all.insert(h.finish());
        l.nontrivial.insert(h.finish());
    };
    if report.is_err() && !hit {
        // rejected by some other reported constraint (another field / another message): the property
        // does not say this value must validate, and the rejection says nothing about the bound
        l.cnt("count_width_not_judged_other_constraint");
        let first = text.lines().find(|x| x.starts_with('"')).unwrap_or("").to_string();
        l.other_constraints.insert(format!("{field} with {n} elements: {first}"));
        return;
    }
    if accept {
        if hit {
            ctx.violation(
                &format!("length bound: {field} rejects {n} elements although its count field {} is {} ({})", g.count_field, g.count_type, g.how),
                &text.chars().take(300).collect::<String>(),
                case(),
            );
            return;
        }
        l.cnt("count_width_accepted_as_required");
        // the round trip is judged only for values the schema calls consistent (forcing one array can
        // contradict a sibling relation, e.g. meta tags vs variants, delta_sets vs region count)
        let in_domain = deep
            && g.how != "plain count field"
            && crate::vser::to_typed(&v)
                .map(|tv| ctx.schema.verdict(&tv, &R::root_args(&v)) == crate::domain::Verdict::InDomain)
                .unwrap_or(false);
        if in_domain {
            l.cnt("count_width_round_trips_judged");
            strong::<T, R>(ctx, ops, &v, &case, " (count-width family)", true, l);
        } else {
            mark(l);
        }
    } else {
        if hit {
            l.cnt("count_width_rejected_as_required");
            mark(l);
            return;
        }
        // validation accepts an array the count field cannot express: show what compiling does
        let what = match guard(|| dump_table(&v)) {
            Err(p) => format!("dump_table panics: {} ({})", p.message, p.site()),
            Ok(Err(e)) => format!("dump_table returns {}", format!("{e:?}").chars().take(120).collect::<String>()),
            Ok(Ok(b)) => format!("dump_table returns {} bytes (the count field wraps or truncates)", b.len()),
        };
        ctx.violation(
            &format!("length bound: {field} accepts {n} elements but its count field {} is {} ({})", g.count_field, g.count_type, g.how),
            &what,
            case(),
        );
    }
}

/// `name`: the string storage offset 6 + 12*records + 4*lang_tags is a u16.  Records must be sorted
/// and unique, so these values are built directly (record i has name id i).
pub const NAME_BOUNDARIES: &[(usize, Option<usize>, bool)] = &[
    (5460, None, true),         // 6 + 65520 = 65526
    (5461, None, false),        // 65538
    (0, Some(16382), true),     // 6 + 65528 = 65534
    (0, Some(16383), false),    // 65538
    (5000, Some(1382), true),   // 6 + 60000 + 5528 = 65534
    (5000, Some(1383), false),  // 65538
];
pub const NAME_MESSAGE: &str = "too many records: storage offset exceeds max value";

pub fn name_boundary(ctx: &Ctx, reg: &[TypeOps], records: usize, tags: Option<usize>, accept: bool, l: &mut Local) {
    use write_fonts::tables::name::{LangTagRecord, Name, NameRecord};
    use write_fonts::types::NameId;
    use write_fonts::validate::Validate;
    let Some(ops) = reg.iter().find(|o| o.module == "name" && o.name == "Name") else { return };
    l.evals += 1;
    l.cnt("count_width_cases");
    let mut v = Name::default();
    v.name_record = (0..records)
        .map(|i| NameRecord::new(0, 3, 0, NameId::new(i as u16), String::new().into()))
        .collect();
    v.lang_tag_record = tags.map(|m| (0..m).map(|_| LangTagRecord::new(String::new().into())).collect());
    let case = || json!({"source": "count_width", "type": "name::Name", "name_boundary": [records, tags, accept]});
    let text = match guard(|| v.validate()) {
        Ok(Ok(())) => String::new(),
        Ok(Err(r)) => format!("{r}"),
        Err(p) => {
            ctx.violation(&format!("length bound: Name validate panics: {} in {}", p.kind(), p.site()), &p.message, case());
            return;
        }
    };
    let hit = reports(&text, NAME_MESSAGE, None);
    let what = format!("{records} records, {tags:?} language tags");
    if !text.is_empty() && !hit {
        l.cnt("count_width_not_judged_other_constraint");
        l.other_constraints.insert(format!("Name with {what}: {}", text.lines().find(|x| x.starts_with('"')).unwrap_or("")));
    } else if accept && hit {
        ctx.violation("length bound: Name rejects a record count whose storage offset fits u16", &what, case());
    } else if accept {
        l.cnt("count_width_accepted_as_required");
        l.cnt("count_width_round_trips_judged");
        strong::<Name, super::Plain>(ctx, ops, &v, &case, " (count-width family)", true, l);
    } else if hit {
        l.cnt("count_width_rejected_as_required");
    } else {
        let r = match guard(|| dump_table(&v)) {
            Err(p) => format!("dump_table panics: {} ({})", p.message, p.site()),
            Ok(r) => format!("dump_table returns {}", if r.is_ok() { "Ok" } else { "Err" }),
        };
        ctx.violation("length bound: Name accepts a record count whose storage offset exceeds u16", &format!("{what}: {r}"), case());
    }
}

pub fn run_family(ctx: &Ctx, reg: &[TypeOps]) -> Local {
    let deep = ctx.run.tier == Tier::Thorough;
    let mut jobs: Vec<(usize, Group, usize, bool)> = vec![];
    let mut listing = vec![];
    for (i, ops) in reg.iter().enumerate() {
        for g in groups(ctx, ops.module, ops.name) {
            listing.push(json!({"type": ops.full(), "arrays": g.arrays, "count_field": g.count_field, "count_type": g.count_type, "via": g.how, "max_len": g.max}));
            for (n, _) in lengths(&g) {
                jobs.push((i, g.clone(), n, deep));
            }
            for (t, c, n, _, _) in EFFECTIVE {
                if *t == ops.full() && *c == g.count_field {
                    jobs.push((i, g.clone(), *n, deep));
                }
            }
            // interior width boundaries, always with the strong round trip (both tiers): the first
            // length that does not fit u8 and the first that does not fit i16 / sets the u16 sign bit
            // (a size or offset computed in a narrower type than the count field wraps here)
            for n in INTERIOR_LENGTHS {
                if *n <= g.max {
                    jobs.push((i, g.clone(), *n, true));
                }
            }
        }
    }
    ctx.run.bound(
        "count_width_family",
        json!({"lengths": "count type max and max+1 (u8, u16; minus one for plus_one, halved for 2*array_len); 65535 and 65536 for Uint24/u32 counts",
               "oracle": if deep { "validate + strong round trip" } else { "validate only" }, "groups": listing.len(),
               "interior_lengths_with_strong_round_trip_in_both_tiers": INTERIOR_LENGTHS}),
    );
    ctx.run.extra("count_width_groups", json!(listing));
    let parts: Vec<Local> = jobs
        .par_iter()
        .map(|(i, g, n, d)| {
            let mut l = Local::default();
            (reg[*i].bound_case)(ctx, &reg[*i], g, *n, *d, &mut l);
            l
        })
        .collect();
    let mut total = Local::default();
    for p in parts {
        total.merge(p);
    }
    for (n, m, accept) in NAME_BOUNDARIES {
        name_boundary(ctx, reg, *n, *m, *accept, &mut total);
    }
    ctx.run.extra(
        "count_width_effective_boundaries",
        json!({"cmap4_segments": EFFECTIVE.iter().map(|(t, c, n, a, m)| json!([t, c, n, a, m])).collect::<Vec<_>>(),
               "name_records_langtags": NAME_BOUNDARIES.iter().map(|(n, m, a)| json!([n, m, a])).collect::<Vec<_>>()}),
    );
    total
}

pub fn replay(ctx: &Ctx, reg: &[TypeOps], case: &Value, l: &mut Local) {
    if let Some(nb) = case["name_boundary"].as_array() {
        name_boundary(
            ctx,
            reg,
            nb[0].as_u64().unwrap_or(0) as usize,
            nb[1].as_u64().map(|x| x as usize),
            nb[2].as_bool().unwrap_or(true),
            l,
        );
        return;
    }
    let ty = case["type"].as_str().unwrap_or("");
    let Some(ops) = reg.iter().find(|o| o.full() == ty) else { return };
    let cf = case["count_field"].as_str().unwrap_or("");
    let n = case["n"].as_u64().unwrap_or(0) as usize;
    if let Some(g) = groups(ctx, ops.module, ops.name).into_iter().find(|g| g.count_field == cf && json!(g.arrays) == case["arrays"]) {
        (ops.bound_case)(ctx, ops, &g, n, true, l);
    }
}
