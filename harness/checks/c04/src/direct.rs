//! Source 8 — direct families for the relations the schema cannot express.
//!
//! For tables whose counts are `#[compile(self.f())]` (hand-computed from other parts of the value:
//! fvar axis / instance counts and instance size, PairPosFormat2 class counts, MarkBasePos mark
//! class count) the schema verdict is `StabilityOnly`, so X2 and the distinct-counts family never
//! compare the written value with the re-read one for them.  The values below are consistent by
//! construction (each is built from the small parameters listed, following the OpenType text), so the
//! STRONG oracle applies: validate Ok ⇒ compile, re-read, equal value, same bytes again.
//!
//! fvar:        axes 0..=3 × instances 0..=3 × postScriptNameID {absent in all, present in all};
//!              every tag / value / name id / coordinate distinct.
//! PairPos 2:   class1 count 1..=3 × class2 count 1..=3 (class 0 included) × 3 value-format pairs;
//!              every value distinct.
//! MarkBasePos / MarkMarkPos / MarkLigPos: mark classes 1..=3 × marks = classes + {0,1} × bases (mark2
//!              glyphs, ligatures; ligature i has i+1 components) 0..=3 × null-anchor pattern
//!              {none, first, last}; every coordinate distinct.

use super::{strong, Ctx, Local, Plain, TypeOps};
use serde_json::{json, Value};
use write_fonts::tables::fvar::{AxisInstanceArrays, Fvar, InstanceRecord, VariationAxisRecord};
use write_fonts::tables::gpos::{
    AnchorTable, BaseArray, BaseRecord, Class1Record, Class2Record, ComponentRecord, LigatureArray, LigatureAttach, Mark2Array, Mark2Record, MarkArray,
    MarkBasePosFormat1, MarkLigPosFormat1, MarkMarkPosFormat1, MarkRecord, PairPosFormat2, ValueRecord,
};
use write_fonts::tables::layout::{ClassDef, CoverageTable};
use write_fonts::types::{Fixed, GlyphId16, NameId, Tag};

pub const FVAR_AXES: std::ops::RangeInclusive<usize> = 0..=3;
pub const FVAR_INSTANCES: std::ops::RangeInclusive<usize> = 0..=3;
pub const PAIR_FORMATS: &[&str] = &["xadv|none", "xadv+ypla|xadv", "none|xpla"];
pub const NULL_PATTERNS: &[&str] = &["none", "first", "last"];

fn build_fvar(axes: usize, instances: usize, ps: bool) -> Fvar {
    let ax = (0..axes)
        .map(|i| {
            VariationAxisRecord::new(
                Tag::new(&[b'a', b'x', b'0', b'0' + i as u8]),
                Fixed::from_bits(0x0001_0000 * (i as i32 + 1) + 0x11),
                Fixed::from_bits(0x0002_0000 * (i as i32 + 1) + 0x22),
                Fixed::from_bits(0x0004_0000 * (i as i32 + 1) + 0x33),
                i as u16 & 1,
                NameId::new(256 + i as u16),
            )
        })
        .collect();
    let inst = (0..instances)
        .map(|j| InstanceRecord {
            subfamily_name_id: NameId::new(300 + j as u16),
            flags: 0,
            coordinates: (0..axes).map(|i| Fixed::from_bits(0x0001_0000 * (10 * j as i32 + i as i32 + 1) + 0x4000)).collect(),
            post_script_name_id: ps.then(|| NameId::new(400 + j as u16)),
        })
        .collect();
    Fvar::new(AxisInstanceArrays::new(ax, inst))
}

fn value(fmt: &str, k: i16) -> ValueRecord {
    match fmt {
        "xadv" => ValueRecord::new().with_x_advance(k),
        "xadv+ypla" => ValueRecord::new().with_x_advance(k).with_y_placement(-k),
        "xpla" => ValueRecord::new().with_x_placement(k),
        _ => ValueRecord::new(),
    }
}

fn classdef(classes: usize) -> ClassDef {
    // glyphs 10, 11, … carry classes 1, 2, …; class 0 is everything else → class_count = classes
    ClassDef::format_1(GlyphId16::new(10), (1..classes as u16).collect())
}

fn build_pair2(c1: usize, c2: usize, fmt: &str) -> PairPosFormat2 {
    let (f1, f2) = fmt.split_once('|').unwrap_or(("", ""));
    let recs = (0..c1)
        .map(|i| Class1Record::new((0..c2).map(|j| Class2Record::new(value(f1, (10 * i + j + 1) as i16), value(f2, (100 + 10 * i + j) as i16))).collect()))
        .collect();
    PairPosFormat2::new(CoverageTable::format_1((5..12).map(GlyphId16::new).collect()), classdef(c1), classdef(c2), recs)
}

fn build_markbase(classes: usize, extra_marks: usize, bases: usize, nulls: &str) -> MarkBasePosFormat1 {
    let marks = classes + extra_marks;
    let mark_records = (0..marks)
        .map(|m| MarkRecord::new((m % classes) as u16, AnchorTable::format_1(100 + m as i16, -100 - m as i16)))
        .collect();
    let base_records = (0..bases)
        .map(|b| {
            BaseRecord::new(
                (0..classes)
                    .map(|c| {
                        let null = match nulls {
                            "first" => b == 0 && c == 0,
                            "last" => b + 1 == bases && c + 1 == classes,
                            _ => false,
                        };
                        (!null).then(|| AnchorTable::format_1((10 * b + c + 1) as i16, 500 + (10 * b + c) as i16))
                    })
                    .collect(),
            )
        })
        .collect();
    MarkBasePosFormat1::new(
        CoverageTable::format_1((20..20 + marks as u16).map(GlyphId16::new).collect()),
        CoverageTable::format_1((40..40 + bases as u16).map(GlyphId16::new).collect()),
        MarkArray::new(mark_records),
        BaseArray::new(base_records),
    )
}

fn mark_array(classes: usize, marks: usize) -> MarkArray {
    MarkArray::new((0..marks).map(|m| MarkRecord::new((m % classes) as u16, AnchorTable::format_1(100 + m as i16, -100 - m as i16))).collect())
}

/// `rows` anchor rows of `classes` anchors each, distinct coordinates, one null per pattern
fn anchor_rows(rows: usize, classes: usize, nulls: &str, base: i16) -> Vec<Vec<Option<AnchorTable>>> {
    (0..rows)
        .map(|b| {
            (0..classes)
                .map(|c| {
                    let null = match nulls {
                        "first" => b == 0 && c == 0,
                        "last" => b + 1 == rows && c + 1 == classes,
                        _ => false,
                    };
                    (!null).then(|| AnchorTable::format_1(base + (10 * b + c + 1) as i16, 500 + base + (10 * b + c) as i16))
                })
                .collect()
        })
        .collect()
}

fn build_markmark(classes: usize, extra_marks: usize, mark2: usize, nulls: &str) -> MarkMarkPosFormat1 {
    let marks = classes + extra_marks;
    MarkMarkPosFormat1::new(
        CoverageTable::format_1((20..20 + marks as u16).map(GlyphId16::new).collect()),
        CoverageTable::format_1((40..40 + mark2 as u16).map(GlyphId16::new).collect()),
        mark_array(classes, marks),
        Mark2Array::new(anchor_rows(mark2, classes, nulls, 0).into_iter().map(Mark2Record::new).collect()),
    )
}

/// `ligs` ligatures; ligature i has i + 1 components (so component counts differ from everything else)
fn build_marklig(classes: usize, extra_marks: usize, ligs: usize, nulls: &str) -> MarkLigPosFormat1 {
    let marks = classes + extra_marks;
    let attaches = (0..ligs)
        .map(|i| LigatureAttach::new(anchor_rows(i + 1, classes, nulls, 1000 * (i as i16 + 1)).into_iter().map(ComponentRecord::new).collect()))
        .collect();
    MarkLigPosFormat1::new(
        CoverageTable::format_1((20..20 + marks as u16).map(GlyphId16::new).collect()),
        CoverageTable::format_1((40..40 + ligs as u16).map(GlyphId16::new).collect()),
        mark_array(classes, marks),
        LigatureArray::new(attaches),
    )
}

fn find<'a>(reg: &'a [TypeOps], module: &str, name: &str, l: &mut Local) -> Option<&'a TypeOps> {
    let r = reg.iter().find(|o| o.module == module && o.name == name);
    if r.is_none() {
        l.machinery.push(format!("direct family: {module}::{name} is not in the registry"));
    }
    r
}

/// run one case given by its JSON description (also the replay entry)
pub fn one(ctx: &Ctx, reg: &[TypeOps], case: &Value, l: &mut Local) {
    let u = |k: &str| case[k].as_u64().unwrap_or(0) as usize;
    let c = case.clone();
    let cf = move || c.clone();
    l.evals += 1;
    l.cnt("direct_family_cases");
    match case["family"].as_str() {
        Some("fvar") => {
            let Some(ops) = find(reg, "fvar", "Fvar", l) else { return };
            let v = build_fvar(u("axes"), u("instances"), case["ps"].as_bool().unwrap_or(false));
            strong::<Fvar, Plain>(ctx, ops, &v, &cf, " (fvar family)", true, l);
        }
        Some("pair2") => {
            let Some(ops) = find(reg, "gpos", "PairPosFormat2", l) else { return };
            let v = build_pair2(u("class1"), u("class2"), case["formats"].as_str().unwrap_or(""));
            strong::<PairPosFormat2, Plain>(ctx, ops, &v, &cf, " (pair2 family)", true, l);
        }
        Some("markbase") => {
            let Some(ops) = find(reg, "gpos", "MarkBasePosFormat1", l) else { return };
            let v = build_markbase(u("classes"), u("extra_marks"), u("bases"), case["nulls"].as_str().unwrap_or("none"));
            strong::<MarkBasePosFormat1, Plain>(ctx, ops, &v, &cf, " (markbase family)", true, l);
        }
        Some("markmark") => {
            let Some(ops) = find(reg, "gpos", "MarkMarkPosFormat1", l) else { return };
            let v = build_markmark(u("classes"), u("extra_marks"), u("bases"), case["nulls"].as_str().unwrap_or("none"));
            strong::<MarkMarkPosFormat1, Plain>(ctx, ops, &v, &cf, " (markmark family)", true, l);
        }
        Some("marklig") => {
            let Some(ops) = find(reg, "gpos", "MarkLigPosFormat1", l) else { return };
            let v = build_marklig(u("classes"), u("extra_marks"), u("bases"), case["nulls"].as_str().unwrap_or("none"));
            strong::<MarkLigPosFormat1, Plain>(ctx, ops, &v, &cf, " (marklig family)", true, l);
        }
        _ => l.machinery.push("direct family: unknown family".into()),
    }
}

pub fn run_families(ctx: &Ctx, reg: &[TypeOps]) -> Local {
    let mut l = Local::default();
    let mut cases: Vec<Value> = vec![];
    for a in FVAR_AXES {
        for n in FVAR_INSTANCES {
            for ps in [false, true] {
                if n == 0 && ps {
                    continue;
                }
                cases.push(json!({"source": "direct_family", "family": "fvar", "axes": a, "instances": n, "ps": ps}));
            }
        }
    }
    for c1 in 1..=3 {
        for c2 in 1..=3 {
            for f in PAIR_FORMATS {
                cases.push(json!({"source": "direct_family", "family": "pair2", "class1": c1, "class2": c2, "formats": f}));
            }
        }
    }
    for k in 1..=3 {
        for extra in 0..=1 {
            for b in 0..=3 {
                for n in NULL_PATTERNS {
                    if b == 0 && *n != "none" {
                        continue;
                    }
                    for fam in ["markbase", "markmark", "marklig"] {
                        cases.push(json!({"source": "direct_family", "family": fam, "classes": k, "extra_marks": extra, "bases": b, "nulls": n}));
                    }
                }
            }
        }
    }
    ctx.run.bound(
        "direct_families",
        json!({"fvar": "axes 0..=3 x instances 0..=3 x postScriptNameID absent/present", "pair2": {"class_counts": "1..=3 x 1..=3", "value_formats": PAIR_FORMATS},
               "markbase / markmark / marklig": {"classes": "1..=3", "marks": "classes + 0/1", "bases / mark2 glyphs / ligatures (ligature i has i+1 components)": "0..=3", "null_anchor": NULL_PATTERNS}, "cases": cases.len()}),
    );
    for c in &cases {
        one(ctx, reg, c, &mut l);
    }
    l
}
