//! Source 3 — the hand-written variation building blocks `PackedPointNumbers` and `PackedDeltas`
//! (write-fonts/src/tables/variations.rs).  They have `FontWrite` + `Validate` but no `FontRead`, so
//! they are read back with the read-fonts decoders (`PackedPointNumbers::split_off_front` + `iter`,
//! `PackedDeltas::consume_all` + `iter`), and they are enumerated directly over structured families
//! instead of through the serde tape (the interesting boundaries are at lengths 63/64/65, 127/128/129
//! and 255/256, far beyond sequence lengths {0,1,2}).
//!
//! SPACE (every member enumerated, fixed order):
//!   points:  `All`, and `Some(p)` for every count 0..=MAX_POINTS and every gap pattern in
//!            `POINT_PATTERNS` whose last point still fits in u16;
//!   deltas:  every length 0..=MAX_DELTAS × every shape in `DELTA_SHAPES`.
//! ORACLE (strong): validate Ok ⇒ dump_table does not panic and is Ok; the decoder consumes exactly
//!   the written bytes (points: `split_off_front` leaves no remainder — this is the check that the
//!   writer's private `compute_size` cannot get, it is not public) and yields the written values;
//!   the value rebuilt from the decoded numbers compiles to the same bytes.
//! DOMAIN: `Some(vec![])` is not a value of the format (count 0 *means* "all points"): counted as
//!   outside_domain{empty_point_set_is_all}, not judged.

use super::Local;
use rayon::prelude::*;
use read_fonts::FontData;
use serde_json::{json, Value};
use vcore::*;
use write_fonts::dump_table;
use write_fonts::tables::variations::{PackedDeltas, PackedPointNumbers};
use write_fonts::validate::Validate;

pub const MAX_POINTS: usize = 300;
pub const MAX_DELTAS: usize = 200;

/// gap patterns: point i+1 = point i + gap(i); the first point is gap(0) - 1 (so 0 is reachable)
pub const POINT_PATTERNS: &[&str] = &[
    "gap1",          // 0,1,2,…            all byte runs, run length 128 crossed
    "gap2",          // 1,3,5,…
    "gap255",        // largest byte gap
    "gap256",        // smallest word gap
    "gap257",
    "alt_1_256",     // byte/word alternation: runs of length 1
    "cycle_255_256_257",
    "spike_0x7fff",  // all gaps 1 except one gap of 0x7FFF in the middle
    "words_then_bytes", // first half gap 256, second half gap 1
    "bytes_then_words",
];

fn gap(pattern: &str, i: usize, n: usize) -> u32 {
    match pattern {
        "gap1" => 1,
        "gap2" => 2,
        "gap255" => 255,
        "gap256" => 256,
        "gap257" => 257,
        "alt_1_256" => {
            if i % 2 == 0 {
                1
            } else {
                256
            }
        }
        "cycle_255_256_257" => [255, 256, 257][i % 3],
        "spike_0x7fff" => {
            if i == n / 2 {
                0x7FFF
            } else {
                1
            }
        }
        "words_then_bytes" => {
            if i < n / 2 {
                256
            } else {
                1
            }
        }
        "bytes_then_words" => {
            if i < n / 2 {
                1
            } else {
                256
            }
        }
        _ => 1,
    }
}

/// the point list of (count, pattern), or None when it does not fit in u16
pub fn points(pattern: &str, n: usize) -> Option<Vec<u16>> {
    let mut out = Vec::with_capacity(n);
    let mut cur: u32 = 0;
    for i in 0..n {
        cur += gap(pattern, i, n);
        let p = cur - 1;
        if p > 0xFFFF {
            return None;
        }
        out.push(p as u16);
    }
    Some(out)
}

pub const DELTA_SHAPES: &[&str] = &[
    "zeros",
    "bytes",             // all 1
    "bytes_min_max",     // -128, 127 alternating
    "words",             // all 300
    "words_boundary",    // 128, -129, 32767, -32768 cycling
    "longs",             // all 70000
    "longs_boundary",    // 32768, -32769, i32::MAX, i32::MIN cycling
    "alt_zero_byte",
    "alt_byte_word",
    "alt_word_long",
    "spike_word_in_zeros",
    "spike_byte_in_zeros",
    "spike_word_in_bytes",
    "spike_zero_in_bytes",
    "spike_two_zeros_in_bytes",
    "spike_long_in_words",
    "zeros_then_bytes",  // first half zeros, second half bytes
    "bytes_then_words",
];

pub fn deltas(shape: &str, n: usize) -> Vec<i32> {
    (0..n)
        .map(|i| match shape {
            "zeros" => 0,
            "bytes" => 1,
            "bytes_min_max" => [-128, 127][i % 2],
            "words" => 300,
            "words_boundary" => [128, -129, 32767, -32768][i % 4],
            "longs" => 70000,
            "longs_boundary" => [32768, -32769, i32::MAX, i32::MIN][i % 4],
            "alt_zero_byte" => [0, 1][i % 2],
            "alt_byte_word" => [1, 300][i % 2],
            "alt_word_long" => [300, 70000][i % 2],
            "spike_word_in_zeros" => (i == n / 2) as i32 * 300,
            "spike_byte_in_zeros" => (i == n / 2) as i32,
            "spike_word_in_bytes" => {
                if i == n / 2 {
                    300
                } else {
                    1
                }
            }
            "spike_zero_in_bytes" => (i != n / 2) as i32,
            "spike_two_zeros_in_bytes" => (i != n / 2 && i != n / 2 + 1) as i32,
            "spike_long_in_words" => {
                if i == n / 2 {
                    70000
                } else {
                    300
                }
            }
            "zeros_then_bytes" => (i >= n / 2) as i32,
            "bytes_then_words" => {
                if i < n / 2 {
                    1
                } else {
                    300
                }
            }
            _ => 0,
        })
        .collect()
}

fn count_class(n: usize) -> &'static str {
    match n {
        0 => "count = 0",
        1..=127 => "count 1..=127 (one-byte count)",
        128 => "count = 128 (first two-byte count)",
        _ => "count >= 129 (two-byte count)",
    }
}

fn observe(l: &mut Local, kind: &str, b: &[u8], nontrivial: bool) {
    let mut h = Fnv::new();
    h.str(kind);
    h.bytes(b);
    let d = h.finish();
    l.all.insert(d);
    if nontrivial && b.len() >= 4 {
        l.nontrivial.insert(d);
    }
    l.cnt("round_trips_held");
}

fn decode_points(b: &[u8]) -> (PackedPointNumbers, usize) {
    let (pp, rest) = read_fonts::tables::variations::PackedPointNumbers::split_off_front(FontData::new(b));
    let v = if pp.count() == 0 {
        PackedPointNumbers::All
    } else {
        PackedPointNumbers::Some(pp.iter().collect())
    };
    (v, rest.len())
}

pub fn check_points(run: &Run, v: &PackedPointNumbers, pattern: &str, l: &mut Local) {
    l.evals += 1;
    let n = match v {
        PackedPointNumbers::All => 0,
        PackedPointNumbers::Some(p) => p.len(),
    };
    let is_all = matches!(v, PackedPointNumbers::All);
    let case = || json!({"source": "packed_points", "all": is_all, "count": n, "pattern": pattern});
    let class = if is_all { "All" } else { count_class(n) };
    if !is_all && n == 0 {
        l.cnt("outside_domain{empty_point_set_is_all}");
        return;
    }
    if !matches!(guard(|| v.validate()), Ok(Ok(()))) {
        l.cnt("validate_rejected");
        return;
    }
    l.trans += 1;
    let b = match guard(|| dump_table(v)) {
        Ok(Ok(b)) => b,
        Ok(Err(e)) => {
            run.violation(
                &format!("PackedPointNumbers dump_table fails after validate Ok [{class}]"),
                &format!("{e:?}; pattern {pattern}, count {n}"),
                case(),
            );
            return;
        }
        Err(p) => {
            run.violation(
                &format!("PackedPointNumbers dump_table panics: {} in {} [{class}]", p.kind(), p.site()),
                &format!("{}; pattern {pattern}, count {n}", p.message),
                case(),
            );
            return;
        }
    };
    l.trans += 1;
    let (v1, rest) = match guard(|| decode_points(&b)) {
        Ok(x) => x,
        Err(p) => {
            run.violation(
                &format!("PackedPointNumbers decoding of compiled bytes panics: {} in {} [{class}]", p.kind(), p.site()),
                &format!("{}; bytes = {}", p.message, hex(&b[..b.len().min(64)])),
                case(),
            );
            return;
        }
    };
    if &v1 != v {
        let got = match &v1 {
            PackedPointNumbers::All => "All".to_string(),
            PackedPointNumbers::Some(p) => format!("{} points, first {:?}", p.len(), &p[..p.len().min(6)]),
        };
        run.violation(
            &format!("PackedPointNumbers round trip: re-read points differ [{class}]"),
            &format!("pattern {pattern}, wrote {n} points, read back {got}; first bytes = {}", hex(&b[..b.len().min(16)])),
            case(),
        );
        return;
    }
    if rest != 0 {
        run.violation(
            &format!("PackedPointNumbers round trip: decoder leaves compiled bytes unread [{class}]"),
            &format!("pattern {pattern}, count {n}: {rest} of {} bytes not consumed", b.len()),
            case(),
        );
        return;
    }
    l.trans += 1;
    match guard(|| dump_table(&v1)) {
        Ok(Ok(b2)) if b2 == b => {}
        _ => {
            run.violation(
                &format!("PackedPointNumbers recompile of the re-read value gives different bytes [{class}]"),
                &format!("pattern {pattern}, count {n}"),
                case(),
            );
            return;
        }
    }
    observe(l, "points", &b, n >= 1);
}

pub fn check_deltas(run: &Run, d: &[i32], shape: &str, l: &mut Local) {
    l.evals += 1;
    let n = d.len();
    let case = || json!({"source": "packed_deltas", "len": n, "shape": shape});
    let v = PackedDeltas::new(d.to_vec());
    if !matches!(guard(|| v.validate()), Ok(Ok(()))) {
        l.cnt("validate_rejected");
        return;
    }
    l.trans += 1;
    let b = match guard(|| dump_table(&v)) {
        Ok(Ok(b)) => b,
        Ok(Err(e)) => {
            run.violation(
                &format!("PackedDeltas dump_table fails after validate Ok [shape {shape}]"),
                &format!("{e:?}; length {n}"),
                case(),
            );
            return;
        }
        Err(p) => {
            run.violation(
                &format!("PackedDeltas dump_table panics: {} in {} [shape {shape}]", p.kind(), p.site()),
                &format!("{}; length {n}", p.message),
                case(),
            );
            return;
        }
    };
    l.trans += 1;
    let back: Vec<i32> = match guard(|| {
        read_fonts::tables::variations::PackedDeltas::consume_all(FontData::new(&b))
            .iter()
            .collect()
    }) {
        Ok(x) => x,
        Err(p) => {
            run.violation(
                &format!("PackedDeltas decoding of compiled bytes panics: {} in {} [shape {shape}]", p.kind(), p.site()),
                &format!("{}; length {n}; bytes = {}", p.message, hex(&b[..b.len().min(64)])),
                case(),
            );
            return;
        }
    };
    let v1 = PackedDeltas::new(back.clone());
    if v1 != v {
        let at = back.iter().zip(d.iter()).position(|(a, b)| a != b);
        run.violation(
            &format!("PackedDeltas round trip: re-read deltas differ [shape {shape}]"),
            &format!(
                "length {n}: read back {} deltas, first difference at {:?}; first bytes = {}",
                back.len(),
                at,
                hex(&b[..b.len().min(24)])
            ),
            case(),
        );
        return;
    }
    l.trans += 1;
    match guard(|| dump_table(&v1)) {
        Ok(Ok(b2)) if b2 == b => {}
        _ => {
            run.violation(
                &format!("PackedDeltas recompile of the re-read value gives different bytes [shape {shape}]"),
                &format!("length {n}"),
                case(),
            );
            return;
        }
    }
    observe(l, "deltas", &b, d.iter().any(|x| *x != 0));
}

pub fn run_families(run: &Run) -> Local {
    run.bound(
        "packed_point_numbers_family",
        json!({"counts": format!("0..={MAX_POINTS} (every count)"), "gap_patterns": POINT_PATTERNS, "plus": "All"}),
    );
    run.bound(
        "packed_deltas_family",
        json!({"lengths": format!("0..={MAX_DELTAS} (every length)"), "shapes": DELTA_SHAPES}),
    );
    let mut total = Local::default();
    // points
    let mut l = Local::default();
    check_points(run, &PackedPointNumbers::All, "All", &mut l);
    total.merge(l);
    let parts: Vec<Local> = (0..=MAX_POINTS)
        .into_par_iter()
        .map(|n| {
            let mut l = Local::default();
            for pat in POINT_PATTERNS {
                match points(pat, n) {
                    Some(p) => {
                        l.cnt("packed_point_cases");
                        check_points(run, &PackedPointNumbers::Some(p), pat, &mut l);
                    }
                    None => l.cnt("packed_point_patterns_not_fitting_u16"),
                }
            }
            l
        })
        .collect();
    for p in parts {
        total.merge(p);
    }
    // deltas
    let parts: Vec<Local> = (0..=MAX_DELTAS)
        .into_par_iter()
        .map(|n| {
            let mut l = Local::default();
            for shape in DELTA_SHAPES {
                l.cnt("packed_delta_cases");
                check_deltas(run, &deltas(shape, n), shape, &mut l);
            }
            l
        })
        .collect();
    for p in parts {
        total.merge(p);
    }
    total
}

pub fn replay(run: &Run, case: &Value, l: &mut Local) {
    match case["source"].as_str() {
        Some("packed_points") => {
            let pattern = case["pattern"].as_str().unwrap_or("gap1");
            let n = case["count"].as_u64().unwrap_or(0) as usize;
            if case["all"].as_bool().unwrap_or(false) {
                check_points(run, &PackedPointNumbers::All, "All", l);
            } else if let Some(p) = points(pattern, n) {
                check_points(run, &PackedPointNumbers::Some(p), pattern, l);
            }
        }
        Some("packed_deltas") => {
            let shape = case["shape"].as_str().unwrap_or("zeros");
            let n = case["len"].as_u64().unwrap_or(0) as usize;
            check_deltas(run, &deltas(shape, n), shape, l);
        }
        _ => {}
    }
}
