//! C07 — compilation is deterministic across threads, runs and unrelated prior work.
//!
//! The process is both supervisor and worker. Every compilation happens in a *worker* child process
//! (re-exec of this binary, `VERIF_C07_WORKER=<json job>`), started under the getrandom shim with a
//! harness-chosen hash seed, so that the three owned sources of nondeterminism — the process-global
//! ObjectId counter, what ran before, and the std hash seed — are all decided by the job description
//! and a job can be re-executed exactly.
//!
//! Spaces enumerated (DESIGN §3 C07):
//!  1. `sched`: shuttle DFS over every interleaving of the ObjectId allocations of 2 (3) threads
//!     compiling menu values (yield point = the hook before every `ObjectId::next`).
//!  2. `gap`:   foreign counter gaps g ∈ {0,1,7,2^32} injected before each of a compilation's n
//!     allocations, all assignments with ≤ 2 (or ≤ 1 for very large n) non-zero gaps (vcore::explore).
//!  3. `hist`:  counter preset p ∈ {0,1,2^16−1,2^32−1,2^32,2^63} × ordered pairs "compile a then b".
//!  4. `seed`:  each menu compilation in a fresh process under hash seeds 0..S−1, twice in-process.
//! Oracle everywhere: bytes equal the fresh-process, counter-0, seed-0, single-threaded reference.

mod family;
mod menu;

use serde_json::{json, Value};
use std::cell::RefCell;
use std::collections::{BTreeMap, HashSet};
use std::io::Read;
use std::process::{Command, Stdio};
use std::sync::atomic::{AtomicU64, AtomicU8, Ordering};
use std::sync::{Arc, Mutex};
use std::time::{Duration, Instant};
use vcore::*;

// =============================================================================================
// hook dispatcher (one per process; consults a global mode)
// =============================================================================================

const MODE_OFF: u8 = 0;
const MODE_COUNT: u8 = 1;
const MODE_GAPS: u8 = 2;
const MODE_SHUTTLE: u8 = 3;
/// free-running real OS threads: per-thread allocation count + counter monotonicity diagnostic
const MODE_FREE: u8 = 4;

static MODE: AtomicU8 = AtomicU8::new(MODE_OFF);
/// number of hook calls (= ObjectId allocations) since last reset
static CALLS: AtomicU64 = AtomicU64::new(0);
/// MODE_SHUTTLE: (shuttle thread index, id about to be allocated) in allocation order
static LOG: Mutex<Vec<(u8, u64)>> = Mutex::new(Vec::new());

thread_local! {
    /// MODE_GAPS: the gap to add before the i-th allocation
    static GAP_PLAN: RefCell<Vec<u64>> = const { RefCell::new(Vec::new()) };
}

thread_local! {
    /// MODE_FREE: allocations made by this OS thread in its current compilation
    static FREE_ALLOCS: std::cell::Cell<u64> = const { std::cell::Cell::new(0) };
    /// MODE_FREE: last counter value this thread read, and how often a read went backwards
    static FREE_LAST: std::cell::Cell<u64> = const { std::cell::Cell::new(0) };
    static FREE_REGRESSIONS: std::cell::Cell<u64> = const { std::cell::Cell::new(0) };
}

shuttle::thread_local! {
    static TIDX: std::cell::Cell<u8> = std::cell::Cell::new(255);
}

const GAP_ALPHABET: [u64; 4] = [0, 1, 7, 1 << 32];
const PRESETS: [u64; 6] = [0, 1, (1 << 16) - 1, (1 << 32) - 1, 1 << 32, 1 << 63];

fn wf_hook() {
    match MODE.load(Ordering::Relaxed) {
        MODE_COUNT => {
            CALLS.fetch_add(1, Ordering::Relaxed);
        }
        MODE_GAPS => {
            let i = CALLS.fetch_add(1, Ordering::Relaxed) as usize;
            let gap = GAP_PLAN.with(|p| p.borrow().get(i).copied().unwrap_or(0));
            if gap != 0 {
                write_fonts::verif_hooks::advance_counter(gap);
            }
        }
        MODE_SHUTTLE => {
            // scheduling point: any runnable thread may be chosen here. After it returns this
            // thread runs without interruption up to its next yield, so the fetch_add that follows
            // takes exactly the value read below.
            shuttle::thread::yield_now();
            CALLS.fetch_add(1, Ordering::Relaxed);
            let t = TIDX.with(|c| c.get());
            LOG.lock().unwrap().push((t, write_fonts::verif_hooks::counter()));
        }
        MODE_FREE => {
            FREE_ALLOCS.with(|c| c.set(c.get() + 1));
            // one atomic location read repeatedly by one thread can never appear to go backwards
            // (read-read coherence) if it is only ever incremented: diagnostic only, no verdict
            let now = write_fonts::verif_hooks::counter();
            FREE_LAST.with(|l| {
                if now < l.get() {
                    FREE_REGRESSIONS.with(|r| r.set(r.get() + 1));
                }
                l.set(now);
            });
        }
        _ => {}
    }
}

// =============================================================================================
// digests
// =============================================================================================

/// (length, fnv64, second independent 64-bit mix): cross-process byte equality is judged on this
fn bytes_digest(b: &[u8]) -> Value {
    let mut h1 = Fnv::new();
    h1.bytes(b);
    let mut h2: u64 = 0x9E3779B97F4A7C15;
    for chunk in b.chunks(8) {
        let mut w = [0u8; 8];
        w[..chunk.len()].copy_from_slice(chunk);
        h2 = (h2 ^ u64::from_le_bytes(w)).wrapping_mul(0xff51afd7ed558ccd);
        h2 ^= h2 >> 32;
    }
    json!([b.len(), format!("{:016x}", h1.finish()), format!("{:016x}", h2)])
}

fn compile_guarded(item: usize) -> Result<Vec<u8>, String> {
    let m = menu::menu();
    guard(|| (m[item].f)()).map_err(|p| format!("panic: {} at {}:{}", p.message, p.file, p.line))
}

// =============================================================================================
// workers
// =============================================================================================

fn worker_main(job: &Value) -> Value {
    install_panic_hook();
    if !write_fonts::verif_hooks::install_sched_hook(wf_hook) {
        return json!({"machinery": "could not install the ObjectId hook"});
    }
    let refs: Value = std::env::var("VERIF_C07_REFS")
        .ok()
        .and_then(|s| serde_json::from_str(&s).ok())
        .unwrap_or(Value::Null);
    match job["k"].as_str().unwrap_or("") {
        "probe" => json!({"order": hash_order_probe()}),
        "ref" => worker_ref(job),
        "sched" => worker_sched(job, &refs),
        "gap" => worker_gap(job, &refs),
        "hist" => worker_hist(job, &refs),
        "seed" => worker_seed(job),
        "free" => worker_free(job, &refs),
        "fam" => worker_fam(job),
        "famlist" => json!({"names": family::family().into_iter().map(|f| f.name).collect::<Vec<_>>()}),
        "fgap" => worker_fgap(job),
        "dump" => {
            let item = job["item"].as_u64().unwrap() as usize;
            match compile_guarded(item) {
                Ok(b) => json!({"hex": hex(&b)}),
                Err(e) => json!({"error": e}),
            }
        }
        other => json!({"machinery": format!("unknown worker kind {other}")}),
    }
}

/// iteration order of a fresh std HashMap with 48 fixed keys (seam proof + evidence of seed effect)
fn hash_order_probe() -> Vec<u32> {
    let mut m = std::collections::HashMap::new();
    for k in 0..48u32 {
        m.insert(k.wrapping_mul(2654435761), k);
    }
    m.values().copied().collect()
}

fn counted_compile(item: usize) -> (Result<Vec<u8>, String>, u64) {
    CALLS.store(0, Ordering::Relaxed);
    MODE.store(MODE_COUNT, Ordering::Relaxed);
    let r = compile_guarded(item);
    MODE.store(MODE_OFF, Ordering::Relaxed);
    (r, CALLS.load(Ordering::Relaxed))
}

fn worker_ref(job: &Value) -> Value {
    let item = job["item"].as_u64().unwrap() as usize;
    let t = Instant::now();
    let (r, n) = counted_compile(item);
    match r {
        Ok(b) => json!({"digest": bytes_digest(&b), "allocs": n, "ms": t.elapsed().as_secs_f64()*1e3,
                         "end_counter": write_fonts::verif_hooks::counter()}),
        // a value that does not compile in the reference conditions: recorded as the reference
        // outcome "failed"; the supervisor keeps it out of the schedule/gap searches and reports a
        // machinery error unless some other run of the value succeeds (then the OUTCOME depends on
        // the perturbation, which is a violation)
        Err(e) => json!({"digest": ["failed"], "allocs": 0, "ms": t.elapsed().as_secs_f64()*1e3, "failure": e}),
    }
}

#[derive(Default)]
struct SchedAcc {
    schedules: u64,
    patterns: HashSet<u64>,
    pattern_samples: Vec<String>,
    mismatches: Vec<Value>,
    mismatch_count: u64,
    log_errors: Vec<String>,
    /// executions whose recorded ids were not strictly increasing (ids handed out twice / counter
    /// moved backwards by the code under test) and the first such log
    nonmonotone: u64,
    nonmonotone_sample: Option<String>,
}

fn worker_sched(job: &Value, refs: &Value) -> Value {
    let items: Vec<usize> = job["items"]
        .as_array()
        .unwrap()
        .iter()
        .map(|v| v.as_u64().unwrap() as usize)
        .collect();
    let max_iter = job["max_schedules"].as_u64().map(|v| v as usize);
    // sequential references in this process (counter starts at 0, one after the other)
    let mut seq = vec![];
    let mut allocs = vec![];
    for &it in &items {
        let (r, n) = counted_compile(it);
        let b = match r {
            Ok(b) => b,
            Err(e) => return json!({"machinery": format!("sequential compile failed: {e}")}),
        };
        if bytes_digest(&b) != refs[it.to_string()] {
            return json!({"mismatches": [{"what": "sequential in-process compilation differs from the fresh-process reference", "thread": 0, "item": it}],
                          "mismatch_count": 1, "schedules": 0, "patterns": 0, "allocs": [n]});
        }
        seq.push(b);
        allocs.push(n);
    }
    let seq = Arc::new(seq);
    let acc = Arc::new(Mutex::new(SchedAcc::default()));
    let mut config = shuttle::Config::new();
    config.stack_size = 1 << 21;
    config.failure_persistence = shuttle::FailurePersistence::None;
    config.max_steps = shuttle::MaxSteps::None;
    let scheduler = shuttle::scheduler::DfsScheduler::new(max_iter, false);
    let runner = shuttle::Runner::new(scheduler, config);
    MODE.store(MODE_SHUTTLE, Ordering::Relaxed);
    let items2 = items.clone();
    let acc2 = acc.clone();
    let allocs2 = allocs.clone();
    // The DFS scheduler panics when an execution does not reproduce the previous one under the same
    // schedule prefix (e.g. control flow that depends on hash-map order); that aborts this search.
    let run_result = std::panic::catch_unwind(std::panic::AssertUnwindSafe(|| runner.run(move || {
        LOG.lock().unwrap().clear();
        let mut hs = vec![];
        for (t, &it) in items2.iter().enumerate() {
            let seq = seq.clone();
            hs.push(shuttle::thread::spawn(move || {
                TIDX.with(|c| c.set(t as u8));
                match compile_guarded(it) {
                    Ok(b) => {
                        if b == seq[t] {
                            None
                        } else {
                            let at = b.iter().zip(seq[t].iter()).position(|(x, y)| x != y);
                            Some(format!(
                                "bytes differ (len {} vs {}, first difference at {:?})",
                                b.len(),
                                seq[t].len(),
                                at
                            ))
                        }
                    }
                    Err(e) => Some(e),
                }
            }));
        }
        let outcomes: Vec<Option<String>> = hs.into_iter().map(|h| h.join().unwrap()).collect();
        let log = LOG.lock().unwrap().clone();
        let pattern: Vec<u8> = log.iter().map(|x| x.0).collect();
        let mut a = acc2.lock().unwrap();
        a.schedules += 1;
        // sanity of the observation: ids strictly increase along the log and every thread made
        // exactly its sequential number of allocations
        // Nothing in the harness touches the counter during a schedule search, so ids that do not
        // strictly increase along the allocation order were produced by the code under test: that is
        // a finding (reported by the supervisor), and the search continues so that byte-level
        // consequences can be reported too.
        if !log.windows(2).all(|w| w[0].1 < w[1].1) {
            a.nonmonotone += 1;
            if a.nonmonotone_sample.is_none() {
                a.nonmonotone_sample = Some(format!("{:?}", log.iter().map(|(t, id)| format!("{}:{}", (b'A' + *t) as char, id)).collect::<Vec<_>>()));
            }
        }
        // an entry from a thread the harness did not start cannot be caused by the code under test
        if log.iter().any(|(t, _)| *t as usize >= items2.len()) && a.log_errors.len() < 3 {
            a.log_errors.push(format!("allocation log contains an unknown thread index: {log:?}"));
        }
        let mut outcomes = outcomes;
        for (t, n) in allocs2.iter().enumerate() {
            let c = pattern.iter().filter(|x| **x as usize == t).count() as u64;
            if c != *n && outcomes[t].is_none() {
                // a different number of objects under this interleaving is a dependence as well
                outcomes[t] = Some(format!("made {c} ObjectId allocations, {n} when compiled alone"));
            }
        }
        let pd = digest_of(&pattern);
        if a.patterns.insert(pd) && a.pattern_samples.len() < 4 {
            let s: String = pattern.iter().map(|t| (b'A' + *t) as char).collect();
            a.pattern_samples.push(s);
        }
        for (t, o) in outcomes.iter().enumerate() {
            if let Some(what) = o {
                a.mismatch_count += 1;
                if a.mismatches.len() < 3 {
                    let s: String = pattern.iter().map(|t| (b'A' + *t) as char).collect();
                    a.mismatches.push(json!({"thread": t, "item": items2[t], "what": what, "pattern": s}));
                }
            }
        }
    })));
    MODE.store(MODE_OFF, Ordering::Relaxed);
    let a = acc.lock().unwrap_or_else(|e| e.into_inner());
    let (n_runs, aborted) = match run_result {
        Ok(n) => (n, None),
        Err(p) => {
            let msg = p.downcast_ref::<String>().cloned().or_else(|| p.downcast_ref::<&str>().map(|s| s.to_string())).unwrap_or_default();
            (a.schedules as usize, Some(msg.chars().take(200).collect::<String>()))
        }
    };
    if !a.log_errors.is_empty() {
        return json!({"machinery": format!("schedule observation inconsistent: {:?}", a.log_errors)});
    }
    let mut pats: Vec<u64> = a.patterns.iter().copied().collect();
    pats.sort();
    pats.truncate(4000);
    json!({
        "schedules": n_runs as u64,
        "patterns": a.patterns.len(),
        "pattern_digests": pats.iter().map(|d| format!("{d:016x}")).collect::<Vec<_>>(),
        "pattern_samples": a.pattern_samples,
        "mismatches": a.mismatches,
        "mismatch_count": a.mismatch_count,
        "aborted": aborted,
        "nonmonotone": a.nonmonotone,
        "nonmonotone_sample": a.nonmonotone_sample,
        "allocs": allocs,
        "capped": max_iter.map(|m| n_runs >= m).unwrap_or(false),
    })
}

fn run_with_gaps(item: usize, gaps: &[u64], n: u64) -> Result<Result<Vec<u8>, String>, String> {
    write_fonts::verif_hooks::set_counter(0);
    GAP_PLAN.with(|p| *p.borrow_mut() = gaps.to_vec());
    CALLS.store(0, Ordering::Relaxed);
    MODE.store(MODE_GAPS, Ordering::Relaxed);
    let r = compile_guarded(item);
    MODE.store(MODE_OFF, Ordering::Relaxed);
    let calls = CALLS.load(Ordering::Relaxed);
    if r.is_ok() && calls != n {
        // the number of objects allocated changed with the gaps: that is already a dependence of
        // the compilation on the counter (e.g. different promotion/splitting decisions)
        return Ok(Err(format!(
            "{calls} ObjectId allocations under gap injection, {n} in the reference run"
        )));
    }
    Ok(r)
}

fn worker_gap(job: &Value, refs: &Value) -> Value {
    let item = job["item"].as_u64().unwrap() as usize;
    let w = job["w"].as_u64().unwrap() as usize;
    let ww = job["W"].as_u64().unwrap() as usize;
    let bound = job["bound"].as_u64().unwrap() as usize;
    // replay of one tape only
    let only: Option<Vec<u32>> = job.get("tape").and_then(|t| t.as_array()).map(|a| a.iter().map(|v| v.as_u64().unwrap() as u32).collect());
    let (r, n) = counted_compile(item);
    let reference = match r {
        Ok(b) => b,
        Err(e) => return json!({"machinery": format!("gap reference compile failed: {e}")}),
    };
    if bytes_digest(&reference) != refs[item.to_string()] {
        return json!({"machinery": "gap worker: in-process reference differs from fresh-process reference (seed/shim problem?)"});
    }
    let mut execs = 0u64;
    let mut nonzero_execs = 0u64;
    let mut mismatches: Vec<Value> = vec![];
    let mut mismatch_count = 0u64;
    let mut digests: Vec<String> = vec![];
    let mut machinery: Option<String> = None;
    let mut check = |choices: &[u32]| -> bool {
        let gaps: Vec<u64> = choices.iter().map(|c| GAP_ALPHABET[*c as usize]).collect();
        execs += 1;
        if choices.iter().any(|c| *c != 0) {
            nonzero_execs += 1;
        }
        if digests.len() < 3000 {
            digests.push(format!("{:016x}", digest_of(&(item, choices))));
        }
        match run_with_gaps(item, &gaps, n) {
            Err(m) => {
                machinery = Some(m);
                false
            }
            Ok(Ok(b)) if b == reference => true,
            Ok(other) => {
                mismatch_count += 1;
                if mismatches.len() < 3 {
                    let what = match other {
                        Ok(b) => format!(
                            "bytes differ (len {} vs {}, first difference at {:?})",
                            b.len(),
                            reference.len(),
                            b.iter().zip(reference.iter()).position(|(x, y)| x != y)
                        ),
                        Err(e) => e,
                    };
                    let nz: Vec<(usize, u64)> = gaps.iter().copied().enumerate().filter(|(_, g)| *g != 0).collect();
                    mismatches.push(json!({"item": item, "tape": choices, "gaps": nz, "what": what}));
                }
                true
            }
        }
    };
    let stats = if let Some(t) = only {
        check(&t);
        ExploreStats { executions: 1, max_depth: t.len(), capped: false }
    } else {
        let res = explore(bound, u64::MAX, |tape| {
            let choices: Vec<u32> = (0..n).map(|_| tape.choose(GAP_ALPHABET.len() as u32)).collect();
            // static partition of the tape space over the W workers of this item
            let mine = match choices.iter().position(|c| *c != 0) {
                None => w == 0,
                Some(p) => p % ww == w,
            };
            if !mine {
                return true;
            }
            check(&choices)
        });
        match res {
            Ok(s) => s,
            Err(d) => return json!({"machinery": format!("tape divergence: {}", d.0)}),
        }
    };
    if let Some(m) = machinery {
        return json!({"machinery": m});
    }
    json!({"n": n, "execs": execs, "nonzero_execs": nonzero_execs, "tapes_enumerated": stats.executions,
           "mismatches": mismatches, "mismatch_count": mismatch_count, "digests": digests})
}

fn worker_hist(job: &Value, refs: &Value) -> Value {
    let preset = PRESETS[job["preset"].as_u64().unwrap() as usize];
    let a = job["a"].as_u64().unwrap() as usize;
    let only_b = job.get("b").and_then(|b| b.as_u64()).map(|b| b as usize);
    let n_items = menu::menu().len();
    let mut mismatches = vec![];
    let mut histories = 0u64;
    let mut compiles = 0u64;
    for b in 0..n_items {
        if only_b.map(|x| x != b).unwrap_or(false) {
            continue;
        }
        write_fonts::verif_hooks::set_counter(preset);
        histories += 1;
        for (role, it) in [("first", a), ("second", b)] {
            compiles += 1;
            let ok = match compile_guarded(it) {
                Ok(bytes) => {
                    if bytes_digest(&bytes) == refs[it.to_string()] {
                        None
                    } else {
                        Some(format!("bytes differ from reference (len {})", bytes.len()))
                    }
                }
                Err(e) => {
                    if refs[it.to_string()] == json!(["failed"]) {
                        None
                    } else {
                        Some(e)
                    }
                }
            };
            if let Some(what) = ok {
                if mismatches.len() < 4 {
                    mismatches.push(json!({"preset": preset.to_string(), "a": a, "b": b, "role": role, "item": it, "what": what}));
                }
            }
        }
    }
    json!({"histories": histories, "compiles": compiles, "mismatches": mismatches,
           "end_counter": write_fonts::verif_hooks::counter().to_string()})
}

/// Free-running pass (auxiliary, *sampling*): `threads` real OS threads, released together by a
/// barrier at the start of each of `rounds` rounds, each compiling one value of `items` (thread t in
/// round r compiles items[(t + r) % len]); every result is compared with the single-threaded bytes.
/// This reaches interleavings *inside* `ObjectId::next` (finer than the hook's scheduling point), which
/// the shuttle search cannot; whatever it observes is a real execution, so a mismatch is reportable,
/// but absence of mismatches proves nothing beyond the executions that happened.
fn worker_free(job: &Value, refs: &Value) -> Value {
    let items: Vec<usize> = job["items"].as_array().unwrap().iter().map(|v| v.as_u64().unwrap() as usize).collect();
    let threads = job["threads"].as_u64().unwrap() as usize;
    let rounds = job["rounds"].as_u64().unwrap() as usize;
    let mut seq: BTreeMap<usize, (Vec<u8>, u64)> = BTreeMap::new();
    for &it in &items {
        let (r, n) = counted_compile(it);
        let b = match r {
            Ok(b) => b,
            Err(e) => return json!({"machinery": format!("sequential compile failed: {e}")}),
        };
        if bytes_digest(&b) != refs[it.to_string()] {
            return json!({"machinery": "free worker: in-process reference differs from fresh-process reference"});
        }
        seq.insert(it, (b, n));
    }
    let seq = &seq;
    let items = &items;
    let barrier = std::sync::Barrier::new(threads);
    let barrier = &barrier;
    let mismatches: Mutex<Vec<Value>> = Mutex::new(vec![]);
    let mismatches = &mismatches;
    let mismatch_count = AtomicU64::new(0);
    let mismatch_count = &mismatch_count;
    let regressions = AtomicU64::new(0);
    let regressions = &regressions;
    MODE.store(MODE_FREE, Ordering::SeqCst);
    let t0 = Instant::now();
    std::thread::scope(|sc| {
        for t in 0..threads {
            std::thread::Builder::new()
                .stack_size(8 << 20)
                .spawn_scoped(sc, move || {
                    FREE_LAST.with(|l| l.set(0));
                    FREE_REGRESSIONS.with(|r| r.set(0));
                    for r in 0..rounds {
                        let it = items[(t + r) % items.len()];
                        barrier.wait();
                        FREE_ALLOCS.with(|c| c.set(0));
                        let res = compile_guarded(it);
                        let allocs = FREE_ALLOCS.with(|c| c.get());
                        let (want, want_allocs) = &seq[&it];
                        let what = match res {
                            Ok(b) if &b == want && allocs == *want_allocs => None,
                            Ok(b) if &b == want => Some(format!("made {allocs} ObjectId allocations, {want_allocs} single-threaded")),
                            Ok(b) => Some(format!(
                                "bytes differ (len {} vs {}, first difference at {:?})",
                                b.len(),
                                want.len(),
                                b.iter().zip(want.iter()).position(|(x, y)| x != y)
                            )),
                            Err(e) => Some(e),
                        };
                        if let Some(what) = what {
                            mismatch_count.fetch_add(1, Ordering::Relaxed);
                            let mut m = mismatches.lock().unwrap();
                            // keep the first mismatch of each item
                            if !m.iter().any(|x| x["item"] == json!(it)) {
                                m.push(json!({"item": it, "thread": t, "round": r, "what": what}));
                            }
                        }
                    }
                    regressions.fetch_add(FREE_REGRESSIONS.with(|r| r.get()), Ordering::Relaxed);
                })
                .expect("spawn");
        }
    });
    MODE.store(MODE_OFF, Ordering::SeqCst);
    let m = mismatches.lock().unwrap().clone();
    json!({"threads": threads, "rounds": rounds, "compilations": threads * rounds,
           "mismatches": m, "mismatch_count": mismatch_count.load(Ordering::Relaxed),
           "counter_regressions": regressions.load(Ordering::Relaxed), "ms": t0.elapsed().as_secs_f64() * 1e3})
}


// =============================================================================================
// family batches (audit round; values in family.rs)
// =============================================================================================

/// outcome of one family value: bytes, or a line-number-free description of the panic (a value that
/// fails the same way under every perturbation is deterministic; only a CHANGE of outcome counts)
fn fam_outcome(f: &family::Fam) -> Result<Vec<u8>, String> {
    guard(|| (f.f)()).map_err(|p| {
        if p.message.contains("corpus font") {
            // the harness could not read an input file: never a verdict
            IO_FAILURE.with(|c| *c.borrow_mut() = Some(p.message.clone()));
        }
        format!("panic in {}", p.file)
    })
}

thread_local! {
    static IO_FAILURE: RefCell<Option<String>> = const { RefCell::new(None) };
}

fn io_failure() -> Option<String> {
    IO_FAILURE.with(|c| c.borrow().clone())
}

fn outcome_digest(r: &Result<Vec<u8>, String>) -> String {
    match r {
        Ok(b) => {
            let d = bytes_digest(b);
            format!("{}:{}:{}", d[0], d[1].as_str().unwrap_or(""), d[2].as_str().unwrap_or(""))
        }
        Err(e) => format!("failed:{e}"),
    }
}

fn fam_order(kind: u64, n: usize) -> Vec<usize> {
    match kind {
        0 => (0..n).collect(),
        1 => (0..n).rev().collect(),
        _ => (0..n).step_by(2).chain((1..n).step_by(2)).collect(),
    }
}

/// Compile every family value twice in this process, visiting them in the order `order`, after
/// presetting the counter; returns the digest of both compilations and the allocation count.
fn worker_fam(job: &Value) -> Value {
    let fam = family::family();
    let n = fam.len();
    let preset = PRESETS[job["preset"].as_u64().unwrap_or(0) as usize];
    let only = job.get("only").and_then(|v| v.as_u64()).map(|v| v as usize);
    let t0 = Instant::now();
    write_fonts::verif_hooks::set_counter(preset);
    let mut d1 = vec![String::new(); n];
    let mut d2 = vec![String::new(); n];
    let mut allocs = vec![0u64; n];
    let mut head = vec![String::new(); n];
    let mut each_ms = vec![0.0f64; n];
    for i in fam_order(job["order"].as_u64().unwrap_or(0), n) {
        if only.map(|o| o != i).unwrap_or(false) {
            continue;
        }
        CALLS.store(0, Ordering::Relaxed);
        MODE.store(MODE_COUNT, Ordering::Relaxed);
        let t1 = Instant::now();
        let r1 = fam_outcome(&fam[i]);
        each_ms[i] = (t1.elapsed().as_secs_f64() * 1e5).round() / 100.0;
        MODE.store(MODE_OFF, Ordering::Relaxed);
        allocs[i] = CALLS.load(Ordering::Relaxed);
        let r2 = fam_outcome(&fam[i]);
        d1[i] = outcome_digest(&r1);
        d2[i] = outcome_digest(&r2);
        if let Ok(b) = &r1 {
            head[i] = hex(&b[..b.len().min(2)]);
        }
    }
    if let Some(m) = io_failure() {
        return json!({"machinery": format!("family batch: {m}")});
    }
    json!({"d1": d1, "d2": d2, "allocs": allocs, "head": head, "each_ms": each_ms, "ms": t0.elapsed().as_secs_f64() * 1e3,
           "order": hash_order_probe()})
}

fn fam_run_with_gaps(f: &family::Fam, plan: &[u64]) -> (Result<Vec<u8>, String>, u64) {
    write_fonts::verif_hooks::set_counter(0);
    GAP_PLAN.with(|p| *p.borrow_mut() = plan.to_vec());
    CALLS.store(0, Ordering::Relaxed);
    MODE.store(MODE_GAPS, Ordering::Relaxed);
    let r = fam_outcome(f);
    MODE.store(MODE_OFF, Ordering::Relaxed);
    (r, CALLS.load(Ordering::Relaxed))
}

/// Gap injection for the family values i with i % W == w: every assignment of the non-zero gap
/// alphabet to one allocation point (and to two points when the value makes <= `pair_max`
/// allocations), in lexicographic order. With "only"+"gaps" it replays one assignment.
fn worker_fgap(job: &Value) -> Value {
    let fam = family::family();
    let n = fam.len();
    let w = job["w"].as_u64().unwrap_or(0) as usize;
    let ww = job["W"].as_u64().unwrap_or(1) as usize;
    let pair_max = job["pair_max"].as_u64().unwrap_or(0);
    let single_max = job["single_max"].as_u64().unwrap_or(u64::MAX);
    let only = job.get("only").and_then(|v| v.as_u64()).map(|v| v as usize);
    // the family reference digests travel in a file (too long for an environment string)
    let frefs: Vec<String> = std::env::var("VERIF_C07_FREFS").ok().and_then(|p| std::fs::read_to_string(p).ok()).and_then(|s| serde_json::from_str(&s).ok()).unwrap_or_default();
    let mut execs = 0u64;
    let mut values = 0u64;
    let mut values_pairs = 0u64;
    let mut mismatches: Vec<Value> = vec![];
    let mut mismatch_count = 0u64;
    for i in 0..n {
        if i % ww != w || only.map(|o| o != i).unwrap_or(false) {
            continue;
        }
        let (reference, cnt) = fam_run_with_gaps(&fam[i], &[]);
        execs += 1;
        if frefs.get(i).map(|r| *r != outcome_digest(&reference)).unwrap_or(false) {
            mismatch_count += 1;
            if mismatches.len() < 4 {
                mismatches.push(json!({"idx": i, "gaps": [], "what": format!("outcome {} differs from the reference {}", outcome_digest(&reference), frefs[i])}));
            }
            continue;
        }
        if cnt == 0 || cnt > single_max || reference.is_err() {
            continue;
        }
        values += 1;
        let mut try_plan = |nz: &[(usize, usize)]| {
            let mut plan = vec![0u64; cnt as usize];
            for (pos, g) in nz {
                plan[*pos] = GAP_ALPHABET[*g];
            }
            let (r, c) = fam_run_with_gaps(&fam[i], &plan);
            execs += 1;
            let what = if r != reference {
                Some(format!("outcome {} instead of {}", outcome_digest(&r), outcome_digest(&reference)))
            } else if c != cnt {
                Some(format!("{c} ObjectId allocations under gap injection, {cnt} without"))
            } else {
                None
            };
            if let Some(what) = what {
                mismatch_count += 1;
                if mismatches.len() < 4 && !mismatches.iter().any(|m| m["idx"] == json!(i)) {
                    mismatches.push(json!({"idx": i, "gaps": nz.iter().map(|(p, g)| json!([p, g])).collect::<Vec<_>>(), "what": what}));
                }
            }
        };
        if let Some(gs) = job.get("gaps").and_then(|g| g.as_array()) {
            let nz: Vec<(usize, usize)> = gs.iter().map(|x| (x[0].as_u64().unwrap() as usize, x[1].as_u64().unwrap() as usize)).collect();
            if nz.iter().all(|(p, _)| (*p as u64) < cnt) {
                try_plan(&nz);
            }
            continue;
        }
        let c = cnt as usize;
        for p in 0..c {
            for g in 1..GAP_ALPHABET.len() {
                try_plan(&[(p, g)]);
            }
        }
        if cnt <= pair_max {
            values_pairs += 1;
            for p in 0..c {
                for q in p + 1..c {
                    for g in 1..GAP_ALPHABET.len() {
                        for h in 1..GAP_ALPHABET.len() {
                            try_plan(&[(p, g), (q, h)]);
                        }
                    }
                }
            }
        }
    }
    if let Some(m) = io_failure() {
        return json!({"machinery": format!("family gap injection: {m}")});
    }
    json!({"execs": execs, "values": values, "values_with_pairs": values_pairs, "mismatches": mismatches, "mismatch_count": mismatch_count})
}

fn worker_seed(job: &Value) -> Value {
    let item = job["item"].as_u64().unwrap() as usize;
    let order = hash_order_probe();
    let d1 = compile_guarded(item).map(|b| bytes_digest(&b));
    let d2 = compile_guarded(item).map(|b| bytes_digest(&b));
    let failure = d1.as_ref().err().or(d2.as_ref().err()).cloned();
    json!({"first": d1.unwrap_or_else(|_| json!(["failed"])), "second": d2.unwrap_or_else(|_| json!(["failed"])), "order": order, "failure": failure})
}

// =============================================================================================
// supervisor
// =============================================================================================

struct Sup {
    exe: std::path::PathBuf,
    shim: std::path::PathBuf,
    refs_env: Mutex<String>,
    frefs_env: Mutex<String>,
    timeout: Duration,
}

impl Sup {
    /// run one job in a fresh child process; Err = machinery problem
    fn run_job(&self, job: &Value, seed: u64) -> Result<Value, String> {
        let mut cmd = Command::new(&self.exe);
        cmd.env("VERIF_C07_WORKER", job.to_string())
            .env("VERIF_C07_REFS", self.refs_env.lock().unwrap().clone())
            .env("VERIF_C07_FREFS", self.frefs_env.lock().unwrap().clone())
            .env("LD_PRELOAD", &self.shim)
            .env("VERIF_HASH_SEED", seed.to_string())
            .stdin(Stdio::null())
            .stdout(Stdio::piped())
            .stderr(Stdio::piped());
        let mut child = cmd.spawn().map_err(|e| format!("spawn: {e}"))?;
        let mut out = child.stdout.take().unwrap();
        let mut err = child.stderr.take().unwrap();
        let t_out = std::thread::spawn(move || {
            let mut s = String::new();
            let _ = out.read_to_string(&mut s);
            s
        });
        let t_err = std::thread::spawn(move || {
            let mut s = String::new();
            let _ = err.read_to_string(&mut s);
            s
        });
        let start = Instant::now();
        let status = loop {
            match child.try_wait() {
                Ok(Some(st)) => break st,
                Ok(None) => {
                    if start.elapsed() > self.timeout {
                        let _ = child.kill();
                        let _ = child.wait();
                        return Err(format!("worker watchdog ({:?}) expired for job {job}", self.timeout));
                    }
                    std::thread::sleep(Duration::from_millis(5));
                }
                Err(e) => return Err(format!("wait: {e}")),
            }
        };
        let stdout = t_out.join().unwrap_or_default();
        let stderr = t_err.join().unwrap_or_default();
        let last = stdout.lines().rev().find(|l| l.starts_with("RESULT ")).map(|l| l[7..].to_string());
        let Some(last) = last else {
            return Err(format!(
                "worker for job {job} produced no result (status {status:?}); stderr tail: {}",
                stderr.chars().rev().take(600).collect::<String>().chars().rev().collect::<String>()
            ));
        };
        let v: Value = serde_json::from_str(&last).map_err(|e| format!("worker result not JSON: {e}"))?;
        if let Some(m) = v.get("machinery") {
            return Err(format!("worker for job {job}: {m}"));
        }
        Ok(v)
    }
}

fn ensure_shim() -> Result<std::path::PathBuf, String> {
    let dir = verif_root().join("shim");
    let so = dir.join("getrandom_shim.so");
    if so.exists() {
        return Ok(so);
    }
    let c = dir.join("getrandom_shim.c");
    let st = Command::new("cc")
        .args(["-shared", "-fPIC", "-O2", "-o"])
        .arg(&so)
        .arg(&c)
        .status()
        .map_err(|e| format!("cc: {e}"))?;
    if !st.success() || !so.exists() {
        return Err("could not build getrandom_shim.so".into());
    }
    Ok(so)
}

fn main() {
    if let Ok(j) = std::env::var("VERIF_C07_WORKER") {
        let job: Value = serde_json::from_str(&j).expect("worker job json");
        let r = worker_main(&job);
        println!("RESULT {}", r);
        std::process::exit(0);
    }
    main_for("C07", body)
}

fn par_jobs(sup: &Sup, jobs: &[(Value, u64)]) -> Vec<Result<Value, String>> {
    use rayon::prelude::*;
    jobs.par_iter().map(|(j, seed)| sup.run_job(j, *seed)).collect()
}

fn body(run: &Run, replay: Option<&Value>) {
    run.rule("a case is (menu value, perturbation) where the perturbation is an ObjectId interleaving pattern of concurrent compilations (shuttle DFS), a foreign-gap assignment at the allocation points, a (counter preset, previously compiled value) history, or a (hash seed, repetition); distinct = distinct (value, perturbation) digests; non-trivial = the perturbation differs from the reference conditions (another thread allocated in between / a non-zero gap / non-zero preset or a prior compilation / seed != 0 or second in-process compilation)");
    run.assume("the ObjectId counter and std's hash seeds are the only process-level inputs of a compilation besides the value (DESIGN §1 grep: no other statics, clocks or I/O); a single atomic RMW location is totally ordered, so interleavings at allocation granularity are all behaviours");
    run.assume("cross-process byte equality is judged on (length, FNV-64, second 64-bit mix); in-process comparisons are on the full bytes");
    run.assume("auxiliary free-running pass (real OS threads, barrier per round) is SAMPLING, not the deciding exploration: it exists to catch accesses finer than the hook's scheduling point (e.g. a non-atomic counter update inside ObjectId::next), which the schedule search executes atomically; every mismatch it reports is a real failing execution, its silence proves nothing beyond the executions that ran");
    run.assume("hash seeds are enumerated over a finite set through the getrandom(2)/getentropy seam; this is not exhaustive over iteration orders");
    let shim = match ensure_shim() {
        Ok(s) => s,
        Err(e) => {
            run.machinery_error(&e);
            return;
        }
    };
    let sup = Sup {
        exe: std::env::current_exe().expect("current_exe"),
        shim,
        refs_env: Mutex::new("null".into()),
        frefs_env: Mutex::new(String::new()),
        timeout: Duration::from_secs(run.tier.pick(240, 3600)),
    };
    let items = menu::menu();
    let n_items = items.len();
    // workers are children of this process and inherit the tier the family list depends on
    // (a replayed family case names the tier it was found in: the list index depends on it)
    let tier_name: String = replay
        .and_then(|c| c["tier"].as_str())
        .map(|s| s.to_string())
        .unwrap_or_else(|| if run.tier == Tier::Thorough { "thorough".into() } else { "quick".into() });
    std::env::set_var("VERIF_C07_TIER", &tier_name);

    // ---- seam proof (machinery, not verdict) ------------------------------------------------
    let s_count: u64 = run.tier.pick(16, 256);
    {
        let mut jobs = vec![(json!({"k":"probe"}), 0u64), (json!({"k":"probe"}), 0u64)];
        for s in 1..s_count {
            jobs.push((json!({"k":"probe"}), s));
        }
        let res = par_jobs(&sup, &jobs);
        let mut orders = vec![];
        for r in res {
            match r {
                Ok(v) => orders.push(v["order"].to_string()),
                Err(e) => {
                    run.machinery_error(&format!("seam probe: {e}"));
                    return;
                }
            }
        }
        if orders[0] != orders[1] {
            run.machinery_error("hash-seed seam: same VERIF_HASH_SEED gave different HashMap iteration orders (shim not effective)");
            return;
        }
        let distinct: HashSet<&String> = orders[1..].iter().collect();
        run.extra("seam_proof", json!({"same_seed_same_order": true, "seeds": s_count, "distinct_orders": distinct.len()}));
        if (distinct.len() as u64) < s_count.min(8) {
            run.machinery_error(&format!("hash-seed seam: only {} distinct iteration orders over {} seeds", distinct.len(), s_count));
            return;
        }
    }

    // ---- references -------------------------------------------------------------------------
    let ref_jobs: Vec<(Value, u64)> = (0..n_items).map(|i| (json!({"k":"ref","item":i}), 0)).collect();
    let ref_res = par_jobs(&sup, &ref_jobs);
    let mut refs = serde_json::Map::new();
    let mut allocs = vec![0u64; n_items];
    let mut menu_info = vec![];
    let mut failed_refs: Vec<(usize, String)> = vec![];
    for (i, r) in ref_res.into_iter().enumerate() {
        match r {
            Ok(v) => {
                refs.insert(i.to_string(), v["digest"].clone());
                allocs[i] = v["allocs"].as_u64().unwrap_or(0);
                menu_info.push(json!({"item": items[i].name, "allocations": allocs[i], "bytes": v["digest"][0], "ms": v["ms"]}));
                if v["digest"] == json!(["failed"]) {
                    failed_refs.push((i, v["failure"].as_str().unwrap_or("").chars().take(300).collect::<String>()));
                }
            }
            Err(e) => {
                run.machinery_error(&format!("reference: {e}"));
                return;
            }
        }
    }
    *sup.refs_env.lock().unwrap() = Value::Object(refs.clone()).to_string();
    run.bound("menu", json!(menu_info));

    // ---- family reference (seed 0, counter 0, forward order, first compilation) ----------------
    // The supervisor only needs the names; building the list executes no code under test.
    let fam_names: Vec<String> = family::family().into_iter().map(|f| f.name).collect();
    let n_fam = fam_names.len();
    let fam_ref_job = json!({"k":"fam","order":0,"preset":0});
    let fam_ref = match sup.run_job(&fam_ref_job, 0) {
        Ok(v) => v,
        Err(e) => {
            run.machinery_error(&format!("family reference: {e}"));
            return;
        }
    };
    let strs = |v: &Value| -> Vec<String> { v.as_array().map(|a| a.iter().map(|x| x.as_str().unwrap_or("").to_string()).collect()).unwrap_or_default() };
    let frefs: Vec<String> = strs(&fam_ref["d1"]);
    let fam_allocs: Vec<u64> = fam_ref["allocs"].as_array().map(|a| a.iter().map(|x| x.as_u64().unwrap_or(0)).collect()).unwrap_or_default();
    if frefs.len() != n_fam || fam_allocs.len() != n_fam {
        run.machinery_error("family reference job returned a list of the wrong length");
        return;
    }
    let frefs_path = std::env::temp_dir().join(format!("c07-frefs-{}.json", std::process::id()));
    if let Err(e) = std::fs::write(&frefs_path, json!(frefs).to_string()) {
        run.machinery_error(&format!("cannot write {frefs_path:?}: {e}"));
        return;
    }
    struct RemoveOnDrop(std::path::PathBuf);
    impl Drop for RemoveOnDrop {
        fn drop(&mut self) {
            let _ = std::fs::remove_file(&self.0);
        }
    }
    let _frefs_guard = RemoveOnDrop(frefs_path.clone());
    *sup.frefs_env.lock().unwrap() = frefs_path.to_string_lossy().into_owned();
    {
        // what the family exercises, measured: sub-family sizes, how many graphs needed the repacking
        // phases, how many values fail deterministically, how many distinct outputs there are
        let heads = strs(&fam_ref["head"]);
        let mut sizes: BTreeMap<String, u64> = BTreeMap::new();
        let mut repacked = 0u64;
        let mut unpackable = 0u64;
        let mut failing = vec![];
        for (i, name) in fam_names.iter().enumerate() {
            *sizes.entry(name.split('[').next().unwrap_or("").to_string()).or_default() += 1;
            if name.starts_with("pack") {
                match heads[i].as_str() {
                    "0100" => repacked += 1,
                    "0000" => unpackable += 1,
                    _ => {}
                }
            }
            if frefs[i].starts_with("failed") && failing.len() < 12 {
                failing.push(format!("{name}: {}", frefs[i]));
            }
        }
        let distinct: HashSet<&String> = frefs.iter().collect();
        run.bound("family_values", json!(sizes));
        run.extra("family", json!({
            "values": n_fam, "distinct_reference_outputs": distinct.len(),
            "packgraph_packed_only_after_space_assignment_or_isolation": repacked,
            "packgraph_not_packable": unpackable,
            "allocations_total": fam_allocs.iter().sum::<u64>(),
            "values_failing_identically_everywhere_sample": failing,
            "reference_pass_ms": fam_ref["ms"],
        }));
        if distinct.len() * 2 < n_fam || repacked < 20 {
            run.machinery_error(&format!("family is vacuous: {} distinct outputs of {} values, {} graphs reached the repacking phases", distinct.len(), n_fam, repacked));
            return;
        }
    }
    for (i, it) in items.iter().enumerate() {
        if it.small && allocs[i] > 10 {
            run.machinery_error(&format!("menu item {} is marked small but makes {} allocations", it.name, allocs[i]));
            return;
        }
    }

    if let Some(case) = replay {
        replay_case(run, &sup, &items, case);
        return;
    }

    // the reference batch already holds one repetition per value
    {
        let d2 = strs(&fam_ref["d2"]);
        for i in 0..n_fam {
            if d2.get(i) != Some(&frefs[i]) {
                run.violation(
                    &format!("compile({}) bytes differ when repeated in the same process", fam_names[i]),
                    &format!("{} compiled twice in the reference process (seed 0, counter 0): {} then {:?}", fam_names[i], frefs[i], d2.get(i)),
                    json!({"job": {"k":"fam","order":0,"preset":0,"only":i}, "seed": 0, "tier": tier_name, "detail": {"rep": 1, "value": fam_names[i]}}),
                );
            }
        }
        run.evals(2 * n_fam as u64);
    }

    // ---- job list ---------------------------------------------------------------------------
    struct Job {
        spec: Value,
        seed: u64,
    }
    let mut jobs: Vec<Job> = vec![];
    // (1) schedules
    let ref_failed = |i: usize| failed_refs.iter().any(|(j, _)| *j == i);
    let small: Vec<usize> = (0..n_items).filter(|i| items[*i].small && !ref_failed(*i)).collect();
    let max2 = run.tier.pick(8u64, 10u64);
    let mut sched_bounds = vec![];
    for (x, &a) in small.iter().enumerate() {
        for &b in &small[x..] {
            if allocs[a] <= max2 && allocs[b] <= max2 {
                jobs.push(Job { spec: json!({"k":"sched","items":[a,b]}), seed: 0 });
                sched_bounds.push(json!([items[a].name, items[b].name]));
            }
        }
    }
    // 3 threads: values with ≤ 3 (quick: one triple family) / ≤ 5 (thorough) allocations
    let max3 = run.tier.pick(3u64, 5u64);
    let tiny: Vec<usize> = small.iter().copied().filter(|i| allocs[*i] <= max3).collect();
    for (x, &a) in tiny.iter().enumerate() {
        for (y, &b) in tiny.iter().enumerate().skip(x) {
            for &c in &tiny[y..] {
                // quick: the three threads together make ≤ 8 allocations (3+3+3 alone costs 5.7e5
                // schedules, ~20 s on one core)
                if run.tier == Tier::Quick && allocs[a] + allocs[b] + allocs[c] > 8 {
                    continue;
                }
                jobs.push(Job { spec: json!({"k":"sched","items":[a,b,c]}), seed: 0 });
                sched_bounds.push(json!([items[a].name, items[b].name, items[c].name]));
            }
        }
    }
    run.bound("schedule_groups", json!(sched_bounds));
    run.bound("schedule_threads", json!({"pairs_max_allocations_per_thread": max2, "triples_max_allocations_per_thread": max3, "triples_max_allocations_total": run.tier.pick(json!(8), json!(null))}));
    // (2) gaps
    let gap_workers = 8usize;
    let bound2_max_n: u64 = run.tier.pick(120, 200);
    let mut gap_bounds = vec![];
    for i in 0..n_items {
        if ref_failed(i) {
            continue; // no reference bytes to search around; history and seed dimensions still run
        }
        let bound = if allocs[i] <= bound2_max_n && !(items[i].heavy && run.tier == Tier::Quick) { 2 } else { 1 };
        let w_n = if allocs[i] > 24 || items[i].heavy { gap_workers } else { 1 };
        gap_bounds.push(json!({"item": items[i].name, "n": allocs[i], "max_nonzero_gaps": bound}));
        for w in 0..w_n {
            jobs.push(Job { spec: json!({"k":"gap","item":i,"w":w,"W":w_n,"bound":bound}), seed: 0 });
        }
    }
    run.bound("gap_alphabet", json!(GAP_ALPHABET.iter().map(|g| g.to_string()).collect::<Vec<_>>()));
    run.bound("gap_injection", json!(gap_bounds));
    // (3) histories
    for p in 0..PRESETS.len() {
        for a in 0..n_items {
            jobs.push(Job { spec: json!({"k":"hist","preset":p,"a":a}), seed: 0 });
        }
    }
    run.bound("history_presets", json!(PRESETS.iter().map(|g| g.to_string()).collect::<Vec<_>>()));
    // (4) seeds
    for s in 0..s_count {
        for i in 0..n_items {
            jobs.push(Job { spec: json!({"k":"seed","item":i}), seed: s });
        }
    }
    run.bound("hash_seeds", json!(s_count));
    // (5) family batches: {seeds} x {visiting orders} at counter 0, {counter presets} x {orders} at
    // seed 0 (the reference combination itself excluded), and gap injection in 16 slices
    let fam_orders: u64 = run.tier.pick(2, 3);
    for s in 0..s_count {
        for o in 0..fam_orders {
            if s == 0 && o == 0 {
                continue;
            }
            jobs.push(Job { spec: json!({"k":"fam","order":o,"preset":0}), seed: s });
        }
    }
    for p in 1..PRESETS.len() {
        for o in 0..fam_orders {
            jobs.push(Job { spec: json!({"k":"fam","order":o,"preset":p}), seed: 0 });
        }
    }
    let fgap_workers = 16usize;
    let pair_max: u64 = run.tier.pick(10, 20);
    // values with more allocation points than this take part in the seed / history batches only
    let single_max: u64 = run.tier.pick(100, 2000);
    for w in 0..fgap_workers {
        jobs.push(Job { spec: json!({"k":"fgap","w":w,"W":fgap_workers,"pair_max":pair_max,"single_max":single_max}), seed: 0 });
    }
    run.bound("family_batches", json!({"values": n_fam, "visiting_orders": fam_orders, "seeds": s_count, "counter_presets": PRESETS.len(),
        "compilations_per_value_per_batch": 2, "gap_injection": {"single_gap": "every allocation point x {1,7,2^32}", "two_gaps_for_values_with_allocations_up_to": pair_max, "single_gap_for_values_with_allocations_up_to": single_max}}));

    // ---- run --------------------------------------------------------------------------------
    // longest jobs first (schedule searches), results keep job order
    let pairs: Vec<(Value, u64)> = jobs.iter().map(|j| (j.spec.clone(), j.seed)).collect();
    let t_pool = Instant::now();
    let results = par_jobs(&sup, &pairs);
    let pool_wall = t_pool.elapsed().as_secs_f64();

    let mut all: HashSet<u64> = HashSet::new();
    let mut nontrivial: HashSet<u64> = HashSet::new();
    let mut seed_orders: BTreeMap<u64, String> = BTreeMap::new();
    let mut sched_report = vec![];
    let mut min_patterns = u64::MAX;
    for (job, res) in jobs.iter().zip(results) {
        let v = match res {
            Ok(v) => v,
            Err(e) => {
                run.machinery_error(&e);
                return;
            }
        };
        let spec = &job.spec;
        match spec["k"].as_str().unwrap() {
            "sched" => {
                let its: Vec<usize> = spec["items"].as_array().unwrap().iter().map(|x| x.as_u64().unwrap() as usize).collect();
                let names: Vec<&str> = its.iter().map(|i| items[*i].name).collect();
                let schedules = v["schedules"].as_u64().unwrap_or(0);
                let patterns = v["patterns"].as_u64().unwrap_or(0);
                run.evals(schedules * its.len() as u64);
                run.trans(schedules * its.iter().map(|i| allocs[*i]).sum::<u64>());
                run.count(&format!("schedules_{}threads", its.len()), schedules);
                run.count(&format!("id_interleaving_patterns_{}threads", its.len()), patterns);
                if schedules > 0 {
                    min_patterns = min_patterns.min(patterns);
                }
                if sched_report.len() < 40 {
                    sched_report.push(json!({"values": names, "schedules": schedules, "patterns": patterns}));
                }
                for d in v["pattern_digests"].as_array().cloned().unwrap_or_default() {
                    let d = digest_of(&(spec["items"].to_string(), d.as_str().unwrap_or("").to_string()));
                    all.insert(d);
                    nontrivial.insert(d);
                }
                if run.counter("samples_sched") < 2 {
                    run.count("samples_sched", 1);
                    run.sample(json!({"kind":"schedule search","values":names,"schedules":schedules,"patterns":patterns,"example_patterns":v["pattern_samples"]}));
                }
                if v["capped"].as_bool() == Some(true) {
                    run.cap_hit(&format!("schedule search {names:?} stopped at max_schedules"));
                }
                if let Some(why) = v["aborted"].as_str() {
                    // the search stopped early because executions stopped being reproducible under
                    // the same schedule prefix. With findings already made in this search that is
                    // consistent with the code under test misbehaving: report the findings and mark
                    // the space as not exhausted; without any finding it is a machinery problem.
                    let has_findings = v["nonmonotone"].as_u64().unwrap_or(0) > 0 || v["mismatch_count"].as_u64().unwrap_or(0) > 0;
                    if has_findings {
                        run.cap_hit(&format!("schedule search {names:?} aborted after {schedules} schedules (execution not reproducible under the same schedule prefix): {why}"));
                    } else {
                        run.machinery_error(&format!("schedule search {names:?} aborted without findings: {why}"));
                        return;
                    }
                }
                if v["nonmonotone"].as_u64().unwrap_or(0) > 0 {
                    run.violation(
                        "ObjectId allocation is not monotone within the process (ids reused across compilations)",
                        &format!("threads compiling {:?}: in {} of {} schedules the ids handed out (thread:id in allocation order) did not strictly increase, e.g. {}", names, v["nonmonotone"], schedules, v["nonmonotone_sample"].as_str().unwrap_or("")),
                        json!({"job": spec, "seed": job.seed, "detail": {"nonmonotone": v["nonmonotone"]}}),
                    );
                }
                for m in v["mismatches"].as_array().cloned().unwrap_or_default() {
                    let it = m["item"].as_u64().unwrap_or(0) as usize;
                    let others: Vec<&str> = names.clone();
                    run.violation(
                        &format!("compile({}) bytes depend on the ObjectId interleaving with concurrent compilations", items[it].name),
                        &format!("threads compiling {:?}: thread {} ({}) {} under id pattern {} ({} failing thread-runs in {} schedules)", others, m["thread"], items[it].name, m["what"].as_str().unwrap_or(""), m["pattern"], v["mismatch_count"], schedules),
                        json!({"job": spec, "seed": job.seed, "detail": m}),
                    );
                }
            }
            "gap" => {
                let it = spec["item"].as_u64().unwrap() as usize;
                let execs = v["execs"].as_u64().unwrap_or(0);
                run.evals(execs);
                run.trans(execs * allocs[it]);
                run.count("gap_assignments", execs);
                run.count("gap_assignments_nonzero", v["nonzero_execs"].as_u64().unwrap_or(0));
                for d in v["digests"].as_array().cloned().unwrap_or_default() {
                    let d = digest_of(&("gap", d.as_str().unwrap_or("").to_string()));
                    all.insert(d);
                    nontrivial.insert(d);
                }
                if run.counter("samples_gap") < 1 && allocs[it] > 24 {
                    run.count("samples_gap", 1);
                    run.sample(json!({"kind":"gap injection","value":items[it].name,"allocation_points":allocs[it],"worker":spec["w"],"assignments_run":execs}));
                }
                for m in v["mismatches"].as_array().cloned().unwrap_or_default() {
                    // the all-zero assignment is a plain second compilation in the worker process
                    let no_gap = m["gaps"].as_array().map(|a| a.is_empty()).unwrap_or(false);
                    let id = if no_gap {
                        format!("compile({}) bytes differ when repeated in the same process", items[it].name)
                    } else {
                        format!("compile({}) bytes depend on foreign gaps in the ObjectId counter", items[it].name)
                    };
                    run.violation(
                        &id,
                        &format!("{}: {} with gaps (allocation index, gap) {} ({} failing assignments in this slice)", items[it].name, m["what"].as_str().unwrap_or(""), m["gaps"], v["mismatch_count"]),
                        json!({"job": {"k":"gap","item":it,"w":0,"W":1,"bound":0,"tape":m["tape"]}, "seed": job.seed, "detail": m}),
                    );
                }
            }
            "hist" => {
                let a = spec["a"].as_u64().unwrap() as usize;
                let p = spec["preset"].as_u64().unwrap() as usize;
                let h = v["histories"].as_u64().unwrap_or(0);
                run.evals(v["compiles"].as_u64().unwrap_or(0));
                run.count("histories", h);
                for b in 0..n_items {
                    let d = digest_of(&("hist", p, a, b));
                    all.insert(d);
                    nontrivial.insert(d);
                }
                if run.counter("samples_hist") < 1 && p == 5 {
                    run.count("samples_hist", 1);
                    run.sample(json!({"kind":"history","counter_preset":PRESETS[p].to_string(),"first":items[a].name,"then":"every menu value","histories":h,"end_counter":v["end_counter"]}));
                }
                for m in v["mismatches"].as_array().cloned().unwrap_or_default() {
                    let it = m["item"].as_u64().unwrap_or(0) as usize;
                    let b = m["b"].as_u64().unwrap_or(0) as usize;
                    run.violation(
                        &format!("compile({}) bytes depend on the counter value / prior compilations", items[it].name),
                        &format!("counter preset {} then compile {} then {}: the {} compilation ({}) {}", m["preset"], items[a].name, items[b].name, m["role"], items[it].name, m["what"].as_str().unwrap_or("")),
                        json!({"job": {"k":"hist","preset":p,"a":a,"b":b}, "seed": job.seed, "detail": m}),
                    );
                }
            }
            "fam" => {
                let p = spec["preset"].as_u64().unwrap_or(0) as usize;
                let o = spec["order"].as_u64().unwrap_or(0);
                let d1 = strs(&v["d1"]);
                let d2 = strs(&v["d2"]);
                if d1.len() != n_fam || d2.len() != n_fam {
                    run.machinery_error("family batch returned a list of the wrong length");
                    return;
                }
                run.evals(2 * n_fam as u64);
                run.trans(2 * fam_allocs.iter().sum::<u64>());
                run.count("family_batches", 1);
                run.count("family_compilations", 2 * n_fam as u64);
                seed_orders.insert(job.seed, v["order"].to_string());
                for i in 0..n_fam {
                    for (rep, d) in [&d1[i], &d2[i]].into_iter().enumerate() {
                        let dg = digest_of(&("fam", i, job.seed, p, o, rep));
                        all.insert(dg);
                        nontrivial.insert(dg);
                        if *d != frefs[i] {
                            let id = if job.seed != 0 && rep == 0 {
                                format!("compile({}) bytes depend on the hash seed", fam_names[i])
                            } else if job.seed != 0 || (p == 0 && rep == 1) {
                                format!("compile({}) bytes differ when repeated in the same process", fam_names[i])
                            } else {
                                format!("compile({}) bytes depend on the counter value / prior compilations", fam_names[i])
                            };
                            run.violation(
                                &id,
                                &format!("{} under VERIF_HASH_SEED={}, counter preset {}, visiting order {} ({} compilation): {} vs reference {}", fam_names[i], job.seed, PRESETS[p], o, ["first", "second"][rep], d, frefs[i]),
                                json!({"job": {"k":"fam","order":o,"preset":p,"only":i}, "seed": job.seed, "tier": tier_name, "detail": {"rep": rep, "value": fam_names[i]}}),
                            );
                        }
                    }
                }
                if run.counter("samples_fam") < 1 && job.seed == 2 {
                    run.count("samples_fam", 1);
                    run.sample(json!({"kind":"family batch","seed":job.seed,"order":o,"preset":PRESETS[p].to_string(),"values":n_fam,"first_value":fam_names[0],"digest":d1[0],"batch_ms":v["ms"]}));
                }
            }
            "fgap" => {
                let execs = v["execs"].as_u64().unwrap_or(0);
                run.evals(execs);
                run.count("family_gap_assignments", execs);
                run.count("family_values_gap_injected", v["values"].as_u64().unwrap_or(0));
                run.count("family_values_gap_injected_pairs", v["values_with_pairs"].as_u64().unwrap_or(0));
                let dg = digest_of(&("fgap", spec.to_string(), execs));
                all.insert(dg);
                nontrivial.insert(dg);
                for m in v["mismatches"].as_array().cloned().unwrap_or_default() {
                    let i = m["idx"].as_u64().unwrap_or(0) as usize;
                    let no_gap = m["gaps"].as_array().map(|a| a.is_empty()).unwrap_or(true);
                    let id = if no_gap {
                        format!("compile({}) bytes depend on the counter value / prior compilations", fam_names[i])
                    } else {
                        format!("compile({}) bytes depend on foreign gaps in the ObjectId counter", fam_names[i])
                    };
                    let mut rjob = json!({"k":"fgap","w":0,"W":1,"pair_max":0,"only":i});
                    if !no_gap {
                        rjob["gaps"] = m["gaps"].clone();
                    }
                    run.violation(
                        &id,
                        &format!("{}: {} with gaps (allocation index, alphabet index) {} ({} failing assignments in this slice)", fam_names[i], m["what"].as_str().unwrap_or(""), m["gaps"], v["mismatch_count"]),
                        json!({"job": rjob, "seed": job.seed, "tier": tier_name, "detail": m}),
                    );
                }
            }
            "seed" => {
                let it = spec["item"].as_u64().unwrap() as usize;
                run.evals(2);
                run.count("seeded_process_runs", 1);
                seed_orders.insert(job.seed, v["order"].to_string());
                for (rep, key) in ["first", "second"].iter().enumerate() {
                    let d = digest_of(&("seed", it, job.seed, rep));
                    all.insert(d);
                    if job.seed != 0 || rep == 1 {
                        nontrivial.insert(d);
                    }
                    if v[*key] != refs[&it.to_string()] {
                        let id = if rep == 0 {
                            format!("compile({}) bytes depend on the hash seed", items[it].name)
                        } else {
                            format!("compile({}) bytes differ when repeated in the same process", items[it].name)
                        };
                        run.violation(
                            &id,
                            &format!("{} under VERIF_HASH_SEED={} ({} compilation in the process): digest {} vs reference {}", items[it].name, job.seed, key, v[*key], refs[&it.to_string()]),
                            json!({"job": spec, "seed": job.seed, "detail": {"rep": rep}}),
                        );
                    }
                }
                if run.counter("samples_seed") < 1 && job.seed == 3 {
                    run.count("samples_seed", 1);
                    run.sample(json!({"kind":"hash seed","value":items[it].name,"seed":job.seed,"digest":v["first"],"hashmap_order_probe_head":v["order"].as_array().map(|a| a[..6.min(a.len())].to_vec())}));
                }
            }
            _ => {}
        }
    }
    let distinct_orders: HashSet<&String> = seed_orders.values().collect();
    run.extra("hash_orders_distinct_over_seeds", json!(distinct_orders.len()));
    run.extra("schedule_searches", json!(sched_report));
    run.extra("min_id_patterns_in_a_schedule_search", json!(min_patterns));
    // a value that fails to compile under the reference conditions AND under every perturbation is a
    // broken menu value (machinery); if it succeeded anywhere, violations were reported above
    if !failed_refs.is_empty() && run.violations() == 0 {
        run.machinery_error(&format!(
            "menu values do not compile under the reference conditions: {:?}",
            failed_refs.iter().map(|(i, e)| format!("{}: {}", items[*i].name, e)).collect::<Vec<_>>()
        ));
    }
    if min_patterns <= 1 && run.violations() == 0 {
        run.machinery_error("a schedule search saw only one id-interleaving pattern (vacuous: the hook did not yield)");
    }
    // ---- auxiliary free-running pass (sampling) ----------------------------------------------
    // Runs after the job pool so that its threads really run in parallel. Fixed thread/round counts.
    let t_free = Instant::now();
    {
        let threads: u64 = 32;
        let (r_same, r_mix): (u64, u64) = run.tier.pick((250, 1000), (4000, 16000));
        let mut free_jobs: Vec<Value> = vec![];
        // all threads compile the same value (one job per small value) ...
        for &i in &small {
            free_jobs.push(json!({"k":"free","items":[i],"threads":threads,"rounds":r_same}));
        }
        // ... the allocation-dense value alone (the counter is hit every few dozen nanoseconds) ...
        let dense = items.iter().position(|i| i.name == "multiple_subst_dense").expect("dense item");
        let mut mix = small.clone();
        if !ref_failed(dense) {
            free_jobs.push(json!({"k":"free","items":[dense],"threads":threads,"rounds":r_mix}));
            mix.push(dense);
        }
        // ... and different values side by side
        free_jobs.push(json!({"k":"free","items":mix,"threads":threads,"rounds":r_mix}));
        let mut compilations = 0u64;
        let mut mismatches = 0u64;
        let mut regressions = 0u64;
        let mut ms = 0.0f64;
        for fj in &free_jobs {
            let v = match sup.run_job(fj, 0) {
                Ok(v) => v,
                Err(e) => {
                    run.machinery_error(&format!("free-running pass: {e}"));
                    return;
                }
            };
            let n = v["compilations"].as_u64().unwrap_or(0);
            compilations += n;
            mismatches += v["mismatch_count"].as_u64().unwrap_or(0);
            regressions += v["counter_regressions"].as_u64().unwrap_or(0);
            ms += v["ms"].as_f64().unwrap_or(0.0);
            run.evals(n);
            let d = digest_of(&("free", fj.to_string()));
            all.insert(d);
            nontrivial.insert(d);
            for m in v["mismatches"].as_array().cloned().unwrap_or_default() {
                let it = m["item"].as_u64().unwrap_or(0) as usize;
                run.violation(
                    &format!("free-running concurrent compile({}) differs from the single-threaded reference", items[it].name),
                    &format!("{} OS threads x {} barrier rounds compiling {:?}: thread {} in round {} ({}) {} ({} of {} compilations of this job differ; counter seen going backwards {} times)",
                        v["threads"], v["rounds"], fj["items"].as_array().unwrap().iter().map(|i| items[i.as_u64().unwrap() as usize].name).collect::<Vec<_>>(),
                        m["thread"], m["round"], items[it].name, m["what"].as_str().unwrap_or(""), v["mismatch_count"], n, v["counter_regressions"]),
                    json!({"job": fj, "seed": 0, "detail": m}),
                );
            }
        }
        run.count("free_running_compilations", compilations);
        run.extra("free_running_pass", json!({
            "kind": "sampling, not the deciding exploration",
            "threads": threads, "rounds_same_value_per_job": r_same, "rounds_mixed_values": r_mix,
            "jobs": free_jobs.len(), "compilations": compilations, "mismatches": mismatches,
            "counter_regressions_observed": regressions, "worker_wall_ms": ms.round(),
        }));
    }
    run.extra("phase_wall_s", json!({"job_pool": (pool_wall * 10.0).round() / 10.0, "free_running_pass": (t_free.elapsed().as_secs_f64() * 10.0).round() / 10.0}));
    run.observe_many(&all, &nontrivial);
    let _ = std::fs::remove_file(&frefs_path);
}

fn replay_case(run: &Run, sup: &Sup, items: &[menu::Item], case: &Value) {
    let job = &case["job"];
    let seed = case["seed"].as_u64().unwrap_or(0);
    let v = match sup.run_job(job, seed) {
        Ok(v) => v,
        Err(e) => {
            run.machinery_error(&e);
            return;
        }
    };
    let mut shown = v.clone();
    if let Some(o) = shown.as_object_mut() {
        o.remove("pattern_digests");
        o.remove("digests");
    }
    if job["k"] == "fam" {
        // one entry per family value: show the replayed value only
        let i = job["only"].as_u64().unwrap_or(0) as usize;
        shown = json!({"first": v["d1"][i], "second": v["d2"][i], "allocations": v["allocs"][i]});
    }
    let v_short = shown.clone();
    println!("replay result: {}", shown);
    let refs: Value = serde_json::from_str(&sup.refs_env.lock().unwrap()).unwrap();
    let failed = match job["k"].as_str().unwrap_or("") {
        "fam" => {
            // the value alone in a fresh reference process, against the value alone under the case's
            // seed / preset (second compilation included)
            let i = job["only"].as_u64().unwrap_or(0) as usize;
            let frefs: Vec<String> = std::fs::read_to_string(&*sup.frefs_env.lock().unwrap()).ok().and_then(|s| serde_json::from_str(&s).ok()).unwrap_or_default();
            let want = frefs.get(i).cloned().unwrap_or_default();
            v["d1"][i].as_str() != Some(want.as_str()) || v["d2"][i].as_str() != Some(want.as_str())
        }
        "seed" => {
            let it = job["item"].as_u64().unwrap() as usize;
            v["first"] != refs[it.to_string()] || v["second"] != refs[it.to_string()]
        }
        _ => v["mismatches"].as_array().map(|a| !a.is_empty()).unwrap_or(false) || v["nonmonotone"].as_u64().unwrap_or(0) > 0,
    };
    if failed {
        let name = job.get("item").and_then(|i| i.as_u64()).map(|i| items[i as usize].name.to_string())
            .or_else(|| job.get("only").and_then(|i| i.as_u64()).and_then(|i| family::family().get(i as usize).map(|f| f.name.clone())))
            .unwrap_or_default();
        run.violation(
            &format!("replayed C07 case {} {}", job["k"], name),
            &format!("job {job} under seed {seed} again deviates from the reference: {v_short}"),
            case.clone(),
        );
    }
}
