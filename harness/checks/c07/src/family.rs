//! Parametrised families of closed compilations (audit round, see AUDIT.md).
//!
//! The 37-value menu in `menu.rs` takes part in every dimension including the quadratic history
//! dimension. The values here are cheap and numerous; they are compiled in *batches*: one worker
//! process compiles the whole family (twice per value) under a given hash seed, counter preset and
//! visiting order, and a second kind of worker injects foreign counter gaps. Everything is
//! enumerated in the fixed order of `family()`.
//!
//! Families (each value is closed: built from constants or from a corpus file):
//!  * `packgraph[..]`  abstract object graphs driven through the real packer with the add-only hook
//!    `write_fonts::verif_hooks::pack_graph`: root -> k lookup-like nodes -> (32-bit) k subgraph roots
//!    -> leaves, with every sharing pattern of leaves, sizes on both sides of the 64 KiB offset limit
//!    and equal sizes everywhere (ties). Reaches `assign_spaces_hb` with several roots per space,
//!    `isolate_subgraph_hb` + `duplicate_subgraph`, `try_isolating_subgraphs` (root selection by
//!    relative id, `num_roots_per_space`), which no real-table value of the menu reaches.
//!  * `promo[..]`      real GPOS/GSUB tables whose lookups tie under the promotion sort key, share
//!    coverage tables / whole subtables between promoted and unpromoted lookups, or sit at the
//!    layer-size boundary (partial promotion).
//!  * `gvar[..]`, `iup[..]`, `ivs[..]`, `fontbuilder[..]`, `name`, `cmap14`: tie-laden values for
//!    the remaining hand-written compile-path code (shared point numbers, IUP optimisation with
//!    symmetric contours, variation-index remapping made observable, CFF table order / DSIG / head
//!    checksum in FontBuilder).
//!  * `klippa[font,flags]` every font of klippa/test-data/fonts x 4 flag sets through
//!    `klippa::subset_font` (the menu has two calls with default flags only).

use font_types::{F2Dot14, GlyphId, GlyphId16, Tag};
use read_fonts::collections::IntSet;
use read_fonts::FontRef;
use write_fonts::tables::gpos::{Gpos, PairPos, PairSet, PairValueRecord, PositionLookup, ValueRecord};
use write_fonts::tables::gvar::{GlyphDelta, GlyphDeltas, GlyphVariations, Gvar, Tent};
use write_fonts::tables::layout::{
    CoverageTable, Feature, FeatureList, FeatureRecord, LangSys, Lookup, LookupFlag, LookupList,
    Script, ScriptList, ScriptRecord,
};
use write_fonts::tables::variations::ivs_builder::VariationStoreBuilder;
use write_fonts::tables::variations::{RegionAxisCoordinates, VariationRegion};
use write_fonts::verif_hooks::{pack_graph, LinkSpec, NodeSpec};
use write_fonts::{dump_table, FontBuilder};

pub struct Fam {
    pub name: String,
    pub f: Box<dyn Fn() -> Vec<u8> + Send + Sync>,
}

fn fam(name: String, f: impl Fn() -> Vec<u8> + Send + Sync + 'static) -> Fam {
    Fam { name, f: Box::new(f) }
}

fn g(i: u16) -> GlyphId16 {
    GlyphId16::new(i)
}

fn fnv(b: &[u8]) -> u64 {
    let mut h = vcore::Fnv::new();
    h.bytes(b);
    h.finish()
}

/// Long outputs are reduced to (length, two digests, first 64 bytes) so that a batch of several
/// hundred values stays small; the reduction is a pure function of the bytes.
fn reduce(b: Vec<u8>) -> Vec<u8> {
    if b.len() <= 4096 {
        return b;
    }
    let mut out = Vec::with_capacity(100);
    out.extend((b.len() as u64).to_be_bytes());
    out.extend(fnv(&b).to_be_bytes());
    let mut h2: u64 = 0x9E3779B97F4A7C15;
    for c in b.chunks(8) {
        let mut w = [0u8; 8];
        w[..c.len()].copy_from_slice(c);
        h2 = (h2 ^ u64::from_le_bytes(w)).wrapping_mul(0xff51afd7ed558ccd);
        h2 ^= h2 >> 32;
    }
    out.extend(h2.to_be_bytes());
    out.extend(&b[..64]);
    out
}

/// The tier travels in the environment (`VERIF_C07_TIER`, set by the supervisor for its workers) so
/// that supervisor and workers build the same list.
pub fn family() -> Vec<Fam> {
    let thorough = std::env::var("VERIF_C07_TIER").map(|t| t == "thorough").unwrap_or(false);
    let mut v = vec![];
    packgraph_family(&mut v);
    diamond_family(&mut v);
    packgraph3_family(&mut v, thorough);
    promo_family(&mut v);
    split_family(&mut v);
    misc_family(&mut v);
    v.push(fam("name[shared strings, 4 platforms]".into(), name_value));
    // cmap format 4 + 12 from 330 mappings: ascending runs, single gaps, reversed runs (range-offset
    // segments), runs around U+FFFF, duplicates in the input; segment merging decisions tie in cost
    v.push(fam("cmap[format 4 segments: runs, gaps, reversed runs, duplicates]".into(), || {
        let mut m = vec![];
        for i in (0..120u32).rev() {
            m.push((char::from_u32(0x20 + i + i / 10).unwrap(), GlyphId::new(1 + i)));
        }
        for i in 0..60u32 {
            m.push((char::from_u32(0x400 + i).unwrap(), GlyphId::new(500 - i)));
            m.push((char::from_u32(0x4E00 + 3 * i).unwrap(), GlyphId::new(600 + (i * 7) % 60)));
        }
        for i in 0..30u32 {
            m.push((char::from_u32(0xFFE0 + i).filter(|c| (*c as u32) < 0xFFFE).unwrap_or('\u{FFFD}'), GlyphId::new(900 + i.min(29))));
            m.push((char::from_u32(0x1F600 + i + (i / 4)).unwrap(), GlyphId::new(1000 + i)));
        }
        m.push(('A', GlyphId::new(1 + 0x21 - 3)));
        m.sort();
        m.dedup_by_key(|x| x.0);
        let dup = m[5];
        m.push(dup);
        match write_fonts::tables::cmap::Cmap::from_mappings(m) {
            Ok(c) => dump_table(&c).unwrap_or_else(|_| b"<invalid>".to_vec()),
            Err(_) => b"<conflict>".to_vec(),
        }
    }));
    roundtrip_family(&mut v);
    klippa_family(&mut v);
    v
}

// ---------------------------------------------------------------------------------------------
// packgraph
// ---------------------------------------------------------------------------------------------

#[derive(Clone, Copy, Debug, PartialEq)]
enum Share {
    /// every subgraph root has its own leaf
    None,
    /// all subgraph roots point to one leaf (one space with k roots)
    All,
    /// roots 2i and 2i+1 share a leaf (several spaces with 2 roots each)
    Pairs,
    /// root i points to leaf i and leaf i+1 (one connected chain)
    Chain,
    /// one leaf shared by all subgraph roots AND by the root of the graph through a 16-bit link
    /// (must be duplicated when the subgraphs move to their own space)
    RootShared,
    /// own leaves, plus the first leaf also linked from the second lookup node by a 16-bit link
    OuterShared,
}

const SHARES: [Share; 6] = [Share::None, Share::All, Share::Pairs, Share::Chain, Share::RootShared, Share::OuterShared];

fn link(target: usize, width: u8, slot: u32) -> LinkSpec {
    LinkSpec { target, width, pos: 4 * slot, adjustment: 0 }
}

/// root(0) -> L_1..L_k (16 bit) ; L_i -> S_i (`wide` bytes) ; S_i -> leaves (16 bit) per `share`.
fn packgraph_specs(k: usize, s_size: u32, leaf_size: u32, share: Share, wide: u8) -> Vec<NodeSpec> {
    let n_leaves = match share {
        Share::None | Share::OuterShared => k,
        Share::All | Share::RootShared => 1,
        Share::Pairs => k.div_ceil(2),
        Share::Chain => k + 1,
    };
    let l0 = 1; // first lookup node
    let s0 = 1 + k; // first subgraph root
    let f0 = 1 + 2 * k; // first leaf
    let mut specs: Vec<NodeSpec> = vec![];
    let mut root_links: Vec<LinkSpec> = (0..k).map(|i| link(l0 + i, 2, i as u32)).collect();
    if share == Share::RootShared {
        root_links.push(link(f0, 2, k as u32));
    }
    specs.push(NodeSpec { size: 4 * (k as u32 + 2), fill: 0, links: root_links });
    for i in 0..k {
        let mut links = vec![link(s0 + i, wide, 0)];
        if share == Share::OuterShared && i == 1 {
            links.push(link(f0, 2, 1));
        }
        specs.push(NodeSpec { size: 12, fill: (l0 + i) as u8, links });
    }
    for i in 0..k {
        let leaves: Vec<usize> = match share {
            Share::None | Share::OuterShared => vec![i],
            Share::All | Share::RootShared => vec![0],
            Share::Pairs => vec![i / 2],
            Share::Chain => vec![i, i + 1],
        };
        let links = leaves.iter().enumerate().map(|(j, l)| link(f0 + l, 2, j as u32)).collect();
        specs.push(NodeSpec { size: s_size, fill: (s0 + i) as u8, links });
    }
    for l in 0..n_leaves {
        specs.push(NodeSpec { size: leaf_size, fill: (f0 + l) as u8, links: vec![] });
    }
    specs
}

fn packgraph_run(specs: &[NodeSpec]) -> Vec<u8> {
    let out = pack_graph(specs);
    let mut v = vec![out.packed as u8, out.basic_sort_sufficed as u8];
    v.extend((out.order_sizes.len() as u32).to_be_bytes());
    for s in &out.order_sizes {
        v.extend(s.to_be_bytes());
    }
    if let Some(b) = &out.bytes {
        // the fill byte of a node is its index, so the bytes identify the order of equal-size nodes
        v.extend((b.len() as u64).to_be_bytes());
        v.extend(fnv(b).to_be_bytes());
        // run-length view of the fills: (fill, run length) — cheap and order revealing
        let mut i = 0;
        let mut runs = 0;
        while i < b.len() && runs < 64 {
            let f = b[i];
            let mut j = i;
            while j < b.len() && b[j] == f {
                j += 1;
            }
            v.push(f);
            v.extend(((j - i) as u32).to_be_bytes());
            i = j;
            runs += 1;
        }
    }
    v
}

fn packgraph_family(v: &mut Vec<Fam>) {
    // sizes: 16 (everything fits, basic sort suffices: the control group), 30000 (k >= 3 roots
    // overflow a shared space), 40000 (2 roots overflow); leaves 10 / 30000
    for k in [2usize, 3, 4, 5] {
        for s_size in [16u32, 30000, 40000] {
            for leaf in [10u32, 30000] {
                for share in SHARES {
                    for wide in [4u8, 3] {
                        if wide == 3 && (s_size == 16 || leaf == 30000) {
                            continue; // 24-bit links: boundary representatives only
                        }
                        let name = format!("packgraph[k={k},s={s_size},leaf={leaf},share={share:?},wide={wide}]");
                        v.push(fam(name, move || packgraph_run(&packgraph_specs(k, s_size, leaf, share, wide))));
                    }
                }
            }
        }
    }
}

/// Three-layer graphs: root -> L_i (16 bit) -> S_i (32 bit); S_i -> subset `ab[i]` of two mid nodes
/// (16 bit); root -> mid j (16 bit) for j in `ext` (so those mids, and what hangs below them, are
/// reachable from outside the wide space and must be duplicated); mid j -> subset `bc[j]` of two leaves.
/// Subsets are bitmasks 1..=3. Duplicated nodes with several parents inside one space exercise
/// `find_root_of_space` (first parent in id order) after `duplicate_subgraph` named the copies.
fn packgraph3_specs(k: usize, sa: u32, sb: u32, sc: u32, ab: &[u8], ext: u8, bc: [u8; 2]) -> Vec<NodeSpec> {
    let l0 = 1;
    let s0 = 1 + k;
    let m0 = 1 + 2 * k;
    let c0 = m0 + 2;
    let mut specs = vec![];
    let mut root_links: Vec<LinkSpec> = (0..k).map(|i| link(l0 + i, 2, i as u32)).collect();
    for j in 0..2 {
        if ext & (1 << j) != 0 {
            let slot = root_links.len() as u32;
            root_links.push(link(m0 + j, 2, slot));
        }
    }
    specs.push(NodeSpec { size: 4 * (k as u32 + 3), fill: 0, links: root_links });
    for i in 0..k {
        specs.push(NodeSpec { size: 12, fill: (l0 + i) as u8, links: vec![link(s0 + i, 4, 0)] });
    }
    let sub = |mask: u8, base: usize| -> Vec<LinkSpec> {
        let mut v = vec![];
        for j in 0..2 {
            if mask & (1 << j) != 0 {
                let slot = v.len() as u32;
                v.push(link(base + j, 2, slot));
            }
        }
        v
    };
    for i in 0..k {
        specs.push(NodeSpec { size: sa, fill: (s0 + i) as u8, links: sub(ab[i], m0) });
    }
    for j in 0..2 {
        specs.push(NodeSpec { size: sb, fill: (m0 + j) as u8, links: sub(bc[j], c0) });
    }
    for j in 0..2 {
        specs.push(NodeSpec { size: sc, fill: (c0 + j) as u8, links: vec![] });
    }
    specs
}

fn packgraph3_family(v: &mut Vec<Fam>, thorough: bool) {
    let mut push = |k: usize, sa: u32, sb: u32, sc: u32| {
        let n_ab = 3usize.pow(k as u32);
        for abi in 0..n_ab {
            let ab: Vec<u8> = (0..k).map(|i| (abi / 3usize.pow(i as u32) % 3) as u8 + 1).collect();
            for ext in [0u8, 1, 3] {
                // every node must be reachable (the packer does not accept orphans)
                if ab.iter().fold(ext, |a, b| a | b) != 3 {
                    continue;
                }
                for bc0 in 1..=3u8 {
                    for bc1 in 1..=3u8 {
                        if bc0 | bc1 != 3 {
                            continue;
                        }
                        let ab2 = ab.clone();
                        let name = format!("packgraph3[k={k},sa={sa},sb={sb},sc={sc},ab={ab:?},ext={ext},bc=[{bc0},{bc1}]]");
                        v.push(fam(name, move || packgraph_run(&packgraph3_specs(k, sa, sb, sc, &ab2, ext, [bc0, bc1]))));
                    }
                }
            }
        }
    };
    if thorough {
        for sa in [30000u32, 40000] {
            for sb in [10u32, 30000] {
                for sc in [10u32, 50000] {
                    push(2, sa, sb, sc);
                }
            }
        }
        push(3, 30000, 10, 50000);
        push(3, 30000, 30000, 10);
    } else {
        // quick: one size combination (big roots, small mids, big leaves)
        push(2, 40000, 10, 50000);
    }
}

/// "Diamond" graphs, four layers below the wide links: S_i -> {Q_i (private), M_i}; the mids M_i all
/// point to shared nodes P_g (one for all, or one per pair of roots); P_g -> child. `ext` adds 16-bit
/// links from the root of the graph to the mids (1) or to the mids and the P nodes (2), so that these
/// are duplicated when the space is isolated and the copies' ids come from `duplicate_subgraph`.
/// With big private nodes the link P -> child overflows while two roots share the space, and
/// isolating either root cures it: which root moves is decided by `find_root_of_space` through the
/// FIRST parent (in id order) of a node with several parents.
fn diamond_specs(k: usize, q: u32, child: u32, ext: u8, paired: bool) -> Vec<NodeSpec> {
    let n_p = if paired { k.div_ceil(2) } else { 1 };
    let l0 = 1;
    let s0 = l0 + k;
    let q0 = s0 + k;
    let m0 = q0 + k;
    let p0 = m0 + k;
    let c0 = p0 + n_p;
    let mut specs = vec![];
    let mut root_links: Vec<LinkSpec> = (0..k).map(|i| link(l0 + i, 2, i as u32)).collect();
    if ext >= 1 {
        for i in 0..k {
            let slot = root_links.len() as u32;
            root_links.push(link(m0 + i, 2, slot));
        }
    }
    if ext >= 2 {
        for gidx in 0..n_p {
            let slot = root_links.len() as u32;
            root_links.push(link(p0 + gidx, 2, slot));
        }
    }
    specs.push(NodeSpec { size: 4 * (root_links.len() as u32 + 1), fill: 0, links: root_links });
    for i in 0..k {
        specs.push(NodeSpec { size: 12, fill: (l0 + i) as u8, links: vec![link(s0 + i, 4, 0)] });
    }
    for i in 0..k {
        specs.push(NodeSpec { size: 100, fill: (s0 + i) as u8, links: vec![link(q0 + i, 2, 0), link(m0 + i, 2, 1)] });
    }
    for i in 0..k {
        specs.push(NodeSpec { size: q, fill: (q0 + i) as u8, links: vec![] });
    }
    for i in 0..k {
        let gidx = if paired { i / 2 } else { 0 };
        specs.push(NodeSpec { size: 10, fill: (m0 + i) as u8, links: vec![link(p0 + gidx, 2, 0)] });
    }
    for gidx in 0..n_p {
        specs.push(NodeSpec { size: 10, fill: (p0 + gidx) as u8, links: vec![link(c0 + gidx, 2, 0)] });
    }
    for gidx in 0..n_p {
        specs.push(NodeSpec { size: child, fill: (c0 + gidx) as u8, links: vec![] });
    }
    specs
}

fn diamond_family(v: &mut Vec<Fam>) {
    for k in [2usize, 3, 4] {
        for q in [10u32, 30000, 40000] {
            for child in [10u32, 50000] {
                for ext in [0u8, 1, 2] {
                    for paired in [false, true] {
                        if paired && k < 4 {
                            continue;
                        }
                        let name = format!("packdiamond[k={k},q={q},child={child},ext={ext},paired={paired}]");
                        v.push(fam(name, move || packgraph_run(&diamond_specs(k, q, child, ext, paired))));
                    }
                }
            }
        }
    }
}

// ---------------------------------------------------------------------------------------------
// promotion of real lookups
// ---------------------------------------------------------------------------------------------

fn script_feature_lists(n_lookups: u16) -> (ScriptList, FeatureList) {
    let langsys = LangSys::new(vec![0]);
    let script = Script::new(Some(langsys), vec![]);
    let sl = ScriptList::new(vec![ScriptRecord::new(Tag::new(b"latn"), script)]);
    let feat = Feature::new(None, (0..n_lookups).collect());
    let fl = FeatureList::new(vec![FeatureRecord::new(Tag::new(b"kern"), feat)]);
    (sl, fl)
}

/// PairPos format 1 with coverage first..first+n_sets, `per_set` records per set; `salt` changes the
/// values (not the coverage), so equal (first, n_sets) with different salts share the coverage object.
fn pair_pos(first: u16, n_sets: u16, per_set: u16, salt: i16) -> PairPos {
    let coverage = (first..first + n_sets).map(g).collect();
    let pair_sets = (first..first + n_sets)
        .map(|id| {
            let v = ValueRecord::new().with_x_advance(id as i16 + salt);
            PairSet::new((id..id + per_set).map(|id2| PairValueRecord::new(g(id2), v.clone(), ValueRecord::default())).collect())
        })
        .collect::<Vec<_>>();
    PairPos::format_1(coverage, pair_sets)
}

fn gpos_pairs(lookups: Vec<Vec<PairPos>>) -> Vec<u8> {
    let n = lookups.len() as u16;
    let lookups = lookups.into_iter().map(|subs| PositionLookup::Pair(Lookup::new(LookupFlag::empty(), subs))).collect();
    let (sl, fl) = script_feature_lists(n);
    let gpos = Gpos::new(sl, fl, LookupList::new(lookups));
    match dump_table(&gpos) {
        Ok(b) => reduce(b),
        Err(e) => {
            if std::env::var("VERIF_C07_DEBUG").is_ok() {
                eprintln!("gpos_pairs: {e:?}");
            }
            b"<compile error>".to_vec()
        }
    }
}

fn promo_family(v: &mut Vec<Fam>) {
    // one set of 1500 records = 6002 bytes; 3 sets = 18 KB per subtable
    v.push(fam("promo[5 equal lookups, distinct]".into(), || {
        gpos_pairs((0..5u16).map(|i| vec![pair_pos(1 + 100 * i, 3, 1500, 0)]).collect())
    }));
    v.push(fam("promo[4 lookups, coverage shared pairwise]".into(), || {
        gpos_pairs(vec![
            vec![pair_pos(1, 3, 1500, 0)],
            vec![pair_pos(1, 3, 1500, 7)],
            vec![pair_pos(200, 3, 1500, 0)],
            vec![pair_pos(200, 3, 1500, 7)],
        ])
    }));
    v.push(fam("promo[two identical subtables + two distinct]".into(), || {
        gpos_pairs(vec![
            vec![pair_pos(1, 3, 1500, 0)],
            vec![pair_pos(300, 3, 1500, 0)],
            vec![pair_pos(1, 3, 1500, 0)],
            vec![pair_pos(600, 4, 1500, 0)],
        ])
    }));
    v.push(fam("promo[6 lookups, sizes tie pairwise, one with 2 subtables]".into(), || {
        gpos_pairs(vec![
            vec![pair_pos(1, 2, 1500, 0)],
            vec![pair_pos(100, 3, 1000, 0)],
            vec![pair_pos(200, 2, 1500, 0)],
            vec![pair_pos(300, 3, 1000, 0), pair_pos(350, 1, 800, 0)],
            vec![pair_pos(400, 1, 800, 1), pair_pos(450, 3, 1000, 0)],
            vec![pair_pos(500, 2, 1500, 0)],
        ])
    }));
    // around the 65535-byte layer boundary: the unpromoted remainder just fits / just does not
    for per_set in [1360u16, 1364, 1368] {
        v.push(fam(format!("promo[4 lookups x 3 sets x {per_set} records: layer boundary]"), move || {
            gpos_pairs((0..4u16).map(|i| vec![pair_pos(1 + 100 * i, 3, per_set, 0)]).collect())
        }));
    }
    v.push(fam("promo[gsub 4 equal multiple-subst lookups]".into(), || {
        use write_fonts::tables::gsub::{Gsub, MultipleSubstFormat1, Sequence, SubstitutionLookup};
        let lookups = (0..4u16)
            .map(|l| {
                let n = 300u16;
                let coverage: CoverageTable = (10..10 + n).map(g).collect();
                let sequences = (0..n).map(|i| Sequence::new((0..30u16).map(|j| g(1000 + 40 * l + i + j)).collect())).collect();
                SubstitutionLookup::Multiple(Lookup::new(LookupFlag::empty(), vec![MultipleSubstFormat1::new(coverage, sequences)]))
            })
            .collect();
        let (sl, fl) = script_feature_lists(4);
        reduce(dump_table(&Gsub::new(sl, fl, LookupList::new(lookups))).unwrap())
    }));
}

// ---------------------------------------------------------------------------------------------
// splitting with device tables and shared pair sets (graph/splitting/pairpos.rs: `visited`,
// `seen`, device offset bookkeeping) — the menu's split values carry no offsets below the records
// ---------------------------------------------------------------------------------------------

fn split_family(v: &mut Vec<Fam>) {
    use read_fonts::tables::gpos::ValueFormat;
    use write_fonts::tables::gpos::{Class1Record, Class2Record};
    use write_fonts::tables::layout::{ClassDef, Device};
    v.push(fam("split[pairpos1, shared pair sets, shared and distinct devices]".into(), || {
        let n_sets = 24u16;
        let per_set = 800u16;
        let coverage: CoverageTable = (0..n_sets).map(g).collect();
        let pair_sets = (0..n_sets)
            .map(|id| {
                // first glyphs id and id+12 have identical pair sets (one shared object)
                let k = id % 12;
                PairSet::new(
                    (0..per_set)
                        .map(|j| {
                            let mut v1 = ValueRecord::new().with_x_advance(k as i16 * 3 + (j % 5) as i16);
                            if j % 100 == 7 {
                                v1 = v1.with_x_advance_device(Device::new(9, 12, &[1, -1, 2, 0]));
                            } else if j % 100 == 57 {
                                v1 = v1.with_x_advance_device(Device::new(9, 10, &[k as i8 - 6, 1]));
                            }
                            let v1 = v1.with_explicit_value_format(ValueFormat::X_ADVANCE | ValueFormat::X_ADVANCE_DEVICE);
                            PairValueRecord::new(g(100 + j), v1, ValueRecord::default())
                        })
                        .collect(),
                )
            })
            .collect::<Vec<_>>();
        gpos_pairs(vec![vec![PairPos::format_1(coverage, pair_sets)]])
    }));
    v.push(fam("split[pairpos2, devices in class records, classes of equal size]".into(), || {
        let n1 = 110u16;
        let n2 = 110u16;
        let coverage: CoverageTable = (0..2 * n1).map(g).collect();
        // class 0 is 'everything else': classes 1..n1 hold two glyphs each except the first pair
        let class_def1: ClassDef = (2..2 * n1).map(|i| (g(i), i / 2)).collect();
        let class_def2: ClassDef = (0..2 * (n2 - 1)).map(|i| (g(1000 + i), i / 2 + 1)).collect();
        let recs = (0..n1)
            .map(|i| {
                Class1Record::new(
                    (0..n2)
                        .map(|j| {
                            let mut v1 = ValueRecord::new().with_x_advance((i % 50) as i16 - (j % 31) as i16);
                            if (i + 2 * j) % 37 == 0 {
                                v1 = v1.with_x_advance_device(Device::new(9, 12, &[1, -1, 2, 0]));
                            } else if (i * 3 + j) % 41 == 0 {
                                v1 = v1.with_x_advance_device(Device::new(8, 9, &[(i % 7) as i8 - 3, (j % 5) as i8]));
                            }
                            let v1 = v1.with_explicit_value_format(ValueFormat::X_ADVANCE | ValueFormat::X_ADVANCE_DEVICE);
                            Class2Record::new(v1, ValueRecord::new().with_x_advance((j % 3) as i16))
                        })
                        .collect(),
                )
            })
            .collect();
        gpos_pairs(vec![vec![PairPos::format_2(coverage, class_def1, class_def2, recs)]])
    }));
}

// ---------------------------------------------------------------------------------------------
// gvar / iup / ivs / FontBuilder / name / cmap14
// ---------------------------------------------------------------------------------------------

fn peaks(v: &[f32]) -> Vec<Tent> {
    v.iter().map(|p| Tent::new(F2Dot14::from_f32(*p), None)).collect()
}

/// n deltas, required exactly at the indices of `req`
fn deltas_req(n: usize, req: &[usize], k: i16) -> Vec<GlyphDelta> {
    (0..n)
        .map(|i| {
            if req.contains(&i) {
                GlyphDelta::required(i as i16 * k + 1, 40 - i as i16)
            } else {
                GlyphDelta::optional(0, 0)
            }
        })
        .collect()
}

fn coords(min: f32, peak: f32, max: f32) -> RegionAxisCoordinates {
    RegionAxisCoordinates {
        start_coord: F2Dot14::from_f32(min),
        peak_coord: F2Dot14::from_f32(peak),
        end_coord: F2Dot14::from_f32(max),
    }
}

fn region(k: usize) -> VariationRegion {
    let p = 0.05 + (k % 17) as f32 * 0.05;
    let q = 0.1 + (k / 17) as f32 * 0.1;
    VariationRegion::new(vec![coords(0.0, p, 1.0), coords(0.0, q.min(1.0), 1.0)])
}

fn misc_family(v: &mut Vec<Fam>) {
    // shared point numbers: per glyph, point sets A, B (same packed size) used twice each => the
    // savings tie; C used three times in another glyph; all peak tuples used equally often and first
    // seen at the same position in different glyphs
    v.push(fam("gvar[shared points tie, shared tuples tie]".into(), || {
        let a = [1usize, 4, 7];
        let b = [2usize, 5, 8];
        let c = [0usize, 3];
        let tuples: [[f32; 2]; 4] = [[1.0, 0.0], [0.0, 1.0], [-1.0, 0.0], [0.0, -1.0]];
        let mut glyphs = vec![];
        for gid in (0..8u32).rev() {
            let r = gid as usize % 4;
            let sets: [&[usize]; 4] = if gid % 2 == 0 { [&b, &a, &b, &a] } else { [&a, &b, &a, &b] };
            let mut vars = vec![];
            for (j, set) in sets.iter().enumerate() {
                vars.push(GlyphDeltas::new(peaks(&tuples[(j + r) % 4]), deltas_req(10, set, j as i16 + 1)));
            }
            if gid == 5 {
                vars = (0..3).map(|j| GlyphDeltas::new(peaks(&tuples[j]), deltas_req(10, &c, 2))).collect();
            }
            glyphs.push(GlyphVariations::new(GlyphId::new(gid), vars));
        }
        dump_table(&Gvar::new(glyphs, 2).unwrap()).unwrap()
    }));
    // many distinct peak tuples, each used exactly twice (first glyph, second glyph): shared-tuple
    // order among 40 ties
    v.push(fam("gvar[40 shared tuples used twice each]".into(), || {
        let mut glyphs = vec![];
        for gid in 0..2u32 {
            let mut vars = vec![];
            for t in 0..40usize {
                let t2 = if gid == 0 { t } else { 39 - t };
                let p = [-1.0 + t2 as f32 * 0.05, 1.0 - (t2 % 7) as f32 * 0.1];
                vars.push(GlyphDeltas::new(peaks(&p), deltas_req(6, &[0, 1, 2, 3, 4, 5], t as i16 % 5)));
            }
            glyphs.push(GlyphVariations::new(GlyphId::new(gid), vars));
        }
        dump_table(&Gvar::new(glyphs, 2).unwrap()).unwrap()
    }));
    // IUP optimisation on symmetric contours (equal-cost solutions) feeding gvar
    for (name, n, tol) in [("square x2", 4usize, 0.5f64), ("octagon", 8, 0.5), ("octagon loose", 8, 2.0), ("16-gon", 16, 1.0)] {
        v.push(fam(format!("iup[{name}]"), move || {
            use kurbo::{Point, Vec2};
            use write_fonts::tables::gvar::iup::iup_delta_optimize;
            let mut pts = vec![];
            let mut ds = vec![];
            let mut ends = vec![];
            for contour in 0..2 {
                for i in 0..n {
                    let (x, y) = match (i * 8 / n) % 8 {
                        0 => (0.0, 0.0),
                        1 => (50.0, 0.0),
                        2 => (100.0, 0.0),
                        3 => (100.0, 50.0),
                        4 => (100.0, 100.0),
                        5 => (50.0, 100.0),
                        6 => (0.0, 100.0),
                        _ => (0.0, 50.0),
                    };
                    let off = contour as f64 * 300.0 + (i % (n / 4).max(1)) as f64;
                    pts.push(Point::new(x + off, y));
                    // symmetric deltas: interpolable along the edges, equal at opposite corners
                    ds.push(Vec2::new((x / 10.0).round(), (y / 10.0).round() * (1 - contour) as f64));
                }
                ends.push(pts.len() - 1);
            }
            for _ in 0..4 {
                pts.push(Point::new(0.0, 0.0));
                ds.push(Vec2::new(0.0, 0.0));
            }
            let mut out = vec![];
            match iup_delta_optimize(ds, pts, tol, &ends) {
                Ok(deltas) => {
                    for d in &deltas {
                        out.extend(d.x.to_be_bytes());
                        out.extend(d.y.to_be_bytes());
                        out.push(d.required as u8);
                    }
                    let gv = GlyphVariations::new(GlyphId::new(0), vec![GlyphDeltas::new(peaks(&[1.0, 0.5]), deltas)]);
                    out.extend(dump_table(&Gvar::new(vec![gv], 2).unwrap()).unwrap());
                }
                Err(e) => out.extend(format!("{e:?}").bytes()),
            }
            out
        }));
    }
    // variation store with the remapping made part of the output (both modes); rows tie in shape and
    // cost, identical rows repeat, some regions end up unused
    for implicit in [false, true] {
        v.push(fam(format!("ivs[remap observable, implicit={implicit}]"), move || {
            let mut b = if implicit { VariationStoreBuilder::new_with_implicit_indices(2) } else { VariationStoreBuilder::new(2) };
            let mut ids = vec![];
            for rep in 0..3i32 {
                for k in (0..10usize).rev() {
                    ids.push(b.add_deltas(vec![(region(k), 5 + (k as i32 % 3))]));
                    ids.push(b.add_deltas(vec![(region(k), 400 + rep), (region((k + 3) % 10), -400)]));
                    ids.push(b.add_deltas(vec![(region((k + 1) % 10), 70000), (region(k), 1)]));
                }
            }
            ids.push(b.add_deltas(vec![(region(11), 0)]));
            ids.push(b.add_deltas::<i32>(vec![]));
            let (store, remap) = b.build();
            let mut out = dump_table(&store).unwrap();
            for id in ids {
                match remap.get(id) {
                    Some(vi) => {
                        out.extend(vi.delta_set_outer_index.to_be_bytes());
                        out.extend(vi.delta_set_inner_index.to_be_bytes());
                    }
                    None => out.extend([0xFF; 4]),
                }
            }
            out
        }));
    }
    // FontBuilder: CFF flavoured recommended order, DSIG last, unknown tags (ties in group 1), a head
    // table long enough for the checksum adjustment, tables of every length mod 4
    for cff in [false, true] {
        v.push(fam(format!("fontbuilder[cff={cff}, DSIG, head checksum, 9 unknown tags]"), move || {
            let mut fb = FontBuilder::new();
            let tags: [&[u8; 4]; 22] = [
                b"DSIG", b"zzzz", b"post", b"name", b"glyf", b"loca", b"head", b"hhea", b"maxp", b"OS/2", b"hmtx", b"cmap",
                b"GPOS", b"GSUB", b"GDEF", b"abcd", b"ABCD", b"qrst", b"Qrst", b"aaaa", b"aaab", b"baaa",
            ];
            for (i, t) in tags.iter().enumerate() {
                let len = if *t == b"head" { 54 } else { 3 + i };
                fb.add_raw(Tag::new(t), (0..len).map(|j| (i * 16 + j) as u8).collect::<Vec<u8>>());
            }
            if cff {
                fb.add_raw(Tag::new(b"CFF "), vec![1u8, 0, 4, 1]);
                fb.add_raw(Tag::new(b"VORG"), vec![0u8; 9]);
            }
            fb.add_raw(Tag::new(b"yyyy"), vec![7u8; 2]);
            fb.add_raw(Tag::new(b"yyyz"), vec![7u8; 2]);
            fb.build()
        }));
    }
}

// ---------------------------------------------------------------------------------------------
// corpus round trips of every typed table (generated compile code, offset widths 16/24/32, string
// and subtable sharing through the object store)
// ---------------------------------------------------------------------------------------------

macro_rules! roundtrip_tables {
    ($out:ident, $font:ident, $($meth:ident => $ty:ty),* $(,)?) => {
        $(
            if let Ok(t) = $font.$meth() {
                $out.extend(stringify!($meth).bytes());
                let r = std::panic::catch_unwind(std::panic::AssertUnwindSafe(|| {
                    let owned: $ty = t.to_owned_table();
                    dump_table(&owned).map(reduce)
                }));
                match r {
                    Ok(Ok(b)) => {
                        $out.extend((b.len() as u32).to_be_bytes());
                        $out.extend(b);
                    }
                    Ok(Err(_)) => $out.extend(b"<invalid>"),
                    Err(_) => $out.extend(b"<panic>"),
                }
            }
        )*
    };
}

fn roundtrip_all_tables(data: &[u8]) -> Vec<u8> {
    use read_fonts::TableProvider;
    use write_fonts::from_obj::ToOwnedTable;
    use write_fonts::tables as wt;
    let Ok(font) = FontRef::new(data) else {
        return b"<not a font>".to_vec();
    };
    let mut out = vec![];
    roundtrip_tables!(out, font,
        name => wt::name::Name, post => wt::post::Post, os2 => wt::os2::Os2, head => wt::head::Head,
        hhea => wt::hhea::Hhea, vhea => wt::vhea::Vhea, maxp => wt::maxp::Maxp, cmap => wt::cmap::Cmap,
        fvar => wt::fvar::Fvar, avar => wt::avar::Avar, stat => wt::stat::Stat, hvar => wt::hvar::Hvar,
        vvar => wt::vvar::Vvar, mvar => wt::mvar::Mvar, colr => wt::colr::Colr,
        cpal => wt::cpal::Cpal, base => wt::base::Base, gdef => wt::gdef::Gdef, gsub => wt::gsub::Gsub,
        gpos => wt::gpos::Gpos, gasp => wt::gasp::Gasp, meta => wt::meta::Meta,
    );
    out
}

fn roundtrip_family(v: &mut Vec<Fam>) {
    for dir in ["font-test-data/test_data/ttf", "klippa/test-data/fonts"] {
        let d = vcore::repo_root().join(dir);
        let mut names: Vec<(String, u64)> = std::fs::read_dir(&d)
            .map(|rd| {
                rd.filter_map(|e| e.ok())
                    .filter_map(|e| Some((e.file_name().into_string().ok()?, e.metadata().ok()?.len())))
                    .collect()
            })
            .unwrap_or_default();
        // fixed rule: font files of at most 400 KB (the larger ones cost milliseconds per table)
        names.retain(|(n, len)| (n.ends_with(".ttf") || n.ends_with(".otf")) && *len <= 400_000);
        names.sort();
        for (n, _) in names {
            let path = d.join(&n);
            v.push(fam(format!("roundtrip[{dir}/{n}]"), move || {
                let data = std::fs::read(&path).unwrap_or_else(|e| panic!("corpus font {path:?}: {e}"));
                roundtrip_all_tables(&data)
            }));
        }
    }
}

/// name table: records sharing strings (the object store shares them), unicode and mac encodings
fn name_value() -> Vec<u8> {
    use write_fonts::tables::name::{Name, NameRecord};
    use write_fonts::types::NameId;
    let mut recs = vec![];
    for (pid, eid, lang) in [(3u16, 1u16, 0x409u16), (1, 0, 0), (0, 4, 0), (3, 1, 0x407)] {
        for (nid, s) in [(1u16, "Family"), (2, "Regular"), (4, "Family"), (6, "Family"), (16, "Family"), (17, "Regular"), (256, "caf\u{e9}")] {
            recs.push(NameRecord::new(pid, eid, lang, NameId::new(nid), s.to_string().into()));
        }
    }
    recs.sort();
    let mut name = Name::default();
    name.name_record = recs;
    match dump_table(&name) {
        Ok(b) => b,
        Err(_) => b"<invalid>".to_vec(),
    }
}

// ---------------------------------------------------------------------------------------------
// klippa
// ---------------------------------------------------------------------------------------------

const KLIPPA_FLAGS: [(u16, &str); 4] = [
    (0x0000, "default"),
    (0x0002 | 0x0008 | 0x0080, "retain-gids+name-legacy+glyph-names"),
    (0x0001 | 0x0020 | 0x0040 | 0x0200, "no-hinting+passthrough+notdef-outline+no-layout-closure"),
    (0x0004 | 0x0010 | 0x0100 | 0x0400, "desubroutinize+set-overlaps+no-prune-unicode-ranges+optimize-iup"),
];

fn klippa_subset(data: &[u8], flags: u16) -> Vec<u8> {
    use klippa::{Plan, SubsetFlags};
    let font = match FontRef::new(data) {
        Ok(f) => f,
        Err(e) => return format!("fontref: {e:?}").into_bytes(),
    };
    let gids: IntSet<GlyphId> = [0u32, 1, 2, 3, 5, 8, 13, 21, 34].into_iter().map(GlyphId::new).collect();
    let mut unicodes: IntSet<u32> = IntSet::empty();
    for r in [
        0x20u32..=0x7E,
        0xE9..=0xEA,
        0x2026..=0x2026,
        0x0915..=0x0920,
        0x0985..=0x0995,
        0x09CD..=0x09CD,
        0x0B05..=0x0B15,
        0x0C05..=0x0C15,
        0xAC00..=0xAC01,
        0x4E00..=0x4E01,
        0x2764..=0x2764,
        0xFE0F..=0xFE0F,
        0x1F600..=0x1F610,
        0x1F1E6..=0x1F1E9,
        0xF0000..=0xF0010,
    ] {
        unicodes.insert_range(r);
    }
    let drop_tables: IntSet<Tag> = IntSet::empty();
    let mut layout_scripts = IntSet::<Tag>::empty();
    layout_scripts.invert();
    let mut layout_features = IntSet::<Tag>::empty();
    layout_features.extend(klippa::DEFAULT_LAYOUT_FEATURES.iter().copied());
    let mut name_ids = IntSet::<write_fonts::types::NameId>::empty();
    name_ids.insert_range(write_fonts::types::NameId::from(0)..=write_fonts::types::NameId::from(6));
    let mut name_languages = IntSet::<u16>::empty();
    name_languages.insert(0x0409);
    name_languages.insert(0);
    let plan = Plan::new(&gids, &unicodes, &font, SubsetFlags::from(flags), &drop_tables, &layout_scripts, &layout_features, &name_ids, &name_languages);
    match klippa::subset_font(&font, &plan) {
        Ok(b) => reduce(b),
        Err(e) => format!("subset error: {e:?}").into_bytes(),
    }
}

fn klippa_family(v: &mut Vec<Fam>) {
    let dir = vcore::repo_root().join("klippa/test-data/fonts");
    let mut names: Vec<String> = std::fs::read_dir(&dir)
        .map(|rd| rd.filter_map(|e| e.ok()).filter_map(|e| e.file_name().into_string().ok()).collect())
        .unwrap_or_default();
    names.retain(|n| n.ends_with(".ttf") || n.ends_with(".otf"));
    // AdobeBlank (65535 empty glyphs) costs 0.2 s per call and exercises nothing the others do not
    names.retain(|n| !n.starts_with("AdobeBlank"));
    names.sort();
    for n in names {
        for (flags, label) in KLIPPA_FLAGS {
            let path = dir.join(&n);
            v.push(fam(format!("klippa[{n},{label}]"), move || {
                let data = std::fs::read(&path).unwrap_or_else(|e| panic!("corpus font {path:?}: {e}"));
                klippa_subset(&data, flags)
            }));
        }
    }
}
